#!/usr/bin/env python3
"""Writes MANIFEST.json from the table below (kept next to the checks so the two stay in sync).
A property is listed under checks only once its check is registered in bin/nfsverif."""
import json, subprocess, os

HERE = os.path.dirname(os.path.abspath(__file__))

TB = ("Trusted: go/types + go/ssa (x/tools v0.29.0); the neo-go compiler maps the Go subset to VM code faithfully; "
      "VM atomicity on FAULT (a faulted transaction persists nothing); the closed interop primitive table; the oracle tables of DESIGN.md App. A-C. "
      "Static analysis only: nothing is executed.")

# id -> (level, technique, text, design_ref, implemented)
P = {
 "C01": ("other",
         "abstract interpretation (CNF must-fact dataflow over inlined SSA) + term agreement of legs/supply/notifications + who-may-write over key families",
         "Decides, for all inputs and all paths of every Balance method, the step obligations of the inductive argument behind 'supply = sum of balances, no negative balance': single writers of the account family and the supply key; debit = loaded(from).Balance - amount (or delete when equal), credit = loaded(to).Balance + amount with the same amount term; Mint/Burn move the supply by exactly that amount (Burn under supply >= amount); amount >= 0 and Balance >= amount established at the stores; credit loaded after the debit store (self-transfer); refusal leaves no effect; exactly one Transfer/TransferX with the legs' arguments and no other emitter. This is a sound structural necessary condition for every history, not an execution of histories, hence 'other'. Added by the mutation sweep: both legs executed exactly for 20-byte addresses at every success exit, supply written on every return of Mint/Burn, stored-or-default loaders. Round 8: no package-level struct variable is handed out (neo-go structs are references). Round 10: upgrade rules of Balance (C16) and stored layout of its records decided here as well.",
         "§5 C01"),
 "C02": ("other",
         "abstract interpretation: entailment of (not executed or witness-of-account or caller-is-account or Alphabet) at every site that can lower a balance",
         "For every store/delete of an account record in every Balance method the exit facts entail: not executed, or the witness of the account keyed by that record, or the caller being it, or the Alphabet 2/3+1 multisignature; a credit is exempt only where amount >= 0 is established; the public transfer executes no effect on a path returning false. Holds for every argument tuple because every path is covered; signer sets at run time are not enumerated, hence 'other'. Round 9: CheckWitness is asked about a caller-supplied address only with its length established (a refusal is reported, not a fault). Round 10: upgrade rules of Balance (C16) decided here as well.",
         "§5 C02"),
 "C03": ("proof",
         "abstract interpretation: CNF must-fact dataflow over the fully inlined SSA graph of every ABI method; entailment of (effect not executed or required witness) at every normal exit",
         "For each of the non-safe ABI methods of the 11 contracts and each effect site reachable in its inlined graph, the facts at every normal exit entail 'not executed or required witness', the requirement coming from the documented table (DESIGN App. A). Because all paths of all methods are covered at once and a faulted transaction persists nothing, this is a proof that an invocation without the documented witnesses leaves no trace; thresholds are classified symbolically (2n/3+1 vs n/2+1 over the documented key source, every n); safe methods reach no effect; verify methods return true only under the documented multisignature; the notary-disabled vote protocol (member voter, exact threshold, distinct counting, window) is part of the check. obligations == discharged is required for the check to pass.",
         "§5 C03, App. A"),
 "C04": ("other",
         "storage-layout analysis over canonical key terms (who-may-delete, writer/remover agreement, paired indices) + must-facts for tombstone/existence guards + exit-fact equivalence of notification and state change",
         "Decides for all paths: registry key = 'x'||sha256(blob) with the blob stored; put reachable only with the tombstone read absent, delete writes it, nothing deletes tombstones (the migration is shown harmless by key-length facts); every id-keyed family a put can populate (x, o, eACL, nnsHasAlias, m) is removed by Delete with the same id on every effectful path, the NNS record cleanup is attempted whenever the alias is removed, alias entry and NNS record are written together; owner index component produced by the same function at put and delete time; getters return only for live containers; PutSuccess/DeleteSuccess/SetEACLSuccess emitted at one site exactly with the state change. Equality with a model over interleavings is not decided, hence 'other'. Added by the mutation sweep: delete removes exactly when the owner lookup found an owner, list/containersOf key selection, meta flag iff metaOnChain, loaders. Round 6: the id-keyed families (registry, owner index, eACL, alias, meta flag) are deleted only from Delete (registry/owner index also by the layout migration). Round 8: named arguments of resolvable cross-contract calls stand at the parameter their name is meant for. Round 10: SetEACL stores and announces on every normal return.",
         "§5 C04"),
 "C05": ("other",
         "term agreement and must-facts at the fee transfer call; loop-shape analysis; dominance; must-execute fact at the exits of the fee setter",
         "Decides that the transferX amount is ContainerFee when no name is given and ContainerFee + ContainerAliasFee exactly when a name is given (same predicate as the alias registration), loop-invariant, one call per committee key with no early exit, payer = owner parsed from the blob, details = 0x10||id, registry write dominated by the loop exit, no exception-catching frame around the transfers; every normal return of netmap.SetConfig has stored the submitted value (a fee of 0 included); the debit/credit leg rules of balance's transfer helper are re-run (payer = payee included). Balance-boundary exactness is delegated to C01, hence 'other'. Round 7: every integer-to-bytes encoder of package deploy returns the output of neo-go's VM integer codec (writer/reader agreement for the settings written at deployment). Round 10: a put that charged the fee has stored the container.",
         "§5 C05"),
 "C06": ("other",
         "must-facts at every effect of NewEpoch, write-set exclusion, term checks of published keys/values, loop-shape of the fan-out, membership-loop dominance of the subscription write",
         "Decides for all paths: every effect of NewEpoch under stored epoch < epochNum; epoch key written only there with Param(epochNum); candidate families untouched; 'p'||BE4(epoch)||key -> value for every structured candidate, legacy snapshot = candidates filtered by State != Offline, tick height, one notification; one newEpoch call per stored subscriber in key order with no early exit and no catching frame, after publication; subscription written only after comparison with every stored subscriber, index = count. Model equality over histories is not decided, hence 'other'. Added by the mutation sweep: the converse of the epoch guard (own code faults only without the witness or for epochNum <= stored epoch). Round 8: fixed-width key encoders reverse the padded buffer. Round 10: stored divisors of the tick are never written as 0 (shared with C08).",
         "§5 C06"),
 "C07": ("other",
         "term agreement witnessed key = storage key, must-facts at stores, exit-fact equivalences across both candidate representations, dispatch coverage",
         "Decides: every effect of the candidate entry points is gated by the documented witnesses (node key and Alphabet); stored key is the witnessed key; Online on add; every effect of the state dispatch under a declared state, Offline removes / Online, Maintenance rewrite; removal deletes both representations together; an update rewrites every present representation as the stored record with only State replaced and cannot succeed with no write; exactly one UpdateStateSuccess / AddPeerSuccess / AddNode with the change; single emitters and writers. Agreement with a reference model over histories is not decided, hence 'other'. Round 6: every normal return of AddPeer/AddPeerIR/AddNode has stored the candidate. Round 9: no fault of the removal/update entry points is decided on one candidate representation alone.",
         "§5 C07"),
 "C08": ("other",
         "divisor-non-zero rule over storage writers, sibling agreement of retention bounds as canonical linear terms, must-facts at ring index computations",
         "Explicitly thin. Decides: every writer of the snapshot count stores a value established > 0 (it is a stored divisor of NewEpoch and Snapshot); NewEpoch drops epoch e-N under e > N and the drop loop of UpdateSnapshotCount covers exactly [cur-old+1, cur-new]; Snapshot establishes 0 <= diff < count; UpdateSnapshotCount leaves the ring index < the new count at every exit; listNodes(e) scans the fixed-width prefix NewEpoch writes (one structurally identified fixed-width encoder for writer, reader and dropper); every normal path of UpdateSnapshotCount that shrinks the window runs the drop loop (skip-edge rule). What the ring holds after sequences of resizes and ticks is a relation between run-time integers over time and is NOT decided. Added by the mutation sweep: Snapshot reads slot (current - diff + count) % count and faults only outside 0..count-1; NewEpoch advances the ring by one modulo count. Round 6 (ring-move): a single resize moves and frees exactly the slots of the in-place algorithm (grow: tail behind the current slot shifted up by new-old, downwards; shrink: tail shifted down by old-new, or the last new slots up to the current one moved to the front with current := new-1; freed slots exactly those holding no retained map), compared as canonical linear terms under the branch facts and the integer order axioms. Round 7: no iteration of a move loop goes round its Put. Round 10: fixed-width key encoders are total.",
         "§5 C08"),
 "C09": ("other",
         "abstract interpretation + term agreement at the refund call of NewEpoch and the lock record of Lock",
         "Decides that Lock writes {0, until, from} at the lock account before transferring, that the NewEpoch refund is called only under Until != 0 and epochNum >= Until with from = scanned key, to = Parent, amount = Balance of the record loaded from that key, that the re-read by the debit leg cannot be preceded by another account store (so the record is deleted: no second unlock), that partial burns keep Until/Parent, that a successful transfer of an account's whole loaded balance deletes its record for every amount (0 included), that an iteration of the tick goes round the refund only for a non-account key, Until = 0 or epochNum < Until and the scan is left only on exhaustion (every visited expired lock is released), and that a fresh deploy subscribes to the tick. Timing over tick schedules and iterator semantics are assumed, hence 'other'. Round 8: the loader rules of C01 are decided here as well. Round 10: stored layout of Account and upgrade rules of Balance decided here as well.",
         "§5 C09"),
 "C10": ("other",
         "per-path ledger balance over effect literals, single writers, term checks of stored records/notifications, boundary-operator agreement over all time/expiration comparisons, ordering of release before credit",
         "Decides: supply/balances/token index written only by their helpers; at every exit of every ABI method every feasible combination of balance/supply updates is balanced; one Transfer(prev owner, new owner, 1, name) exactly with the record write; Transfer stores the loaded record with Owner := to, Admin := nil; Renew bounds (1..10 years, +365*24*3600*1000*years, ten-year cap for non-TLD); every direct comparison of block time with an Expiration puts t == expiration on the expired side; OwnerOf/Properties only for unexpired names with live parents; release of the old owner precedes the credit of the new one; Transfer and Register hand control to the receiver's callback only after all their stores. Availability over time and enumeration equality are not decided, hence 'other'. Added by the mutation sweep: Register (>= 2 labels, TLD present, parents alive, absent-or-expired at the store), RegisterTLD (one label, free, root marker written), Transfer/updateBalance presence and stored-or-zero start, parentExpired level loop, Renew converse. Round 10: parent-conflict helper polarity (shared with C12).",
         "§5 C10"),
 "C11": ("other",
         "abstract interpretation: gate entailment with subject agreement between the witnessed NameState and the token id keying the changed record",
         "For addRecord/setRecord/deleteRecords/updateSOA/renew every effect is gated by committee or W(owner(T)) or W(admin(T)) with T exactly the token id keying the written/deleted record; transfer by W(owner); setAdmin by W(owner) and (admin nil or W(admin)); register by W(owner argument) and, above level 2, the admin formula of the name without its first label; checkAdmin's own formula; Transfer stores the record with Admin := nil (a former admin loses its rights). Signer sets over histories are not enumerated, hence 'other'. Round 7: the documented gates of the NNS mutators (gate rule shared with C03) are decided here as well. Round 8: record-owner (tokenIDFromName) shared with C12.",
         "§5 C11"),
 "C12": ("other",
         "must-facts at record stores, exit facts for the SOA refresh, key-schema analysis of the record family, constant/argument checks of the redirect budget",
         "Decides: id <= 15 and CNAME => id == 0 at the AddRecord store, id = count of the scan of the same (token, name, type); SetRecord only after the record with that id was read present; DeleteRecords never for SOA and deletes exactly the scanned keys; every normal path of the three mutators refreshes the SOA of the same token; Resolve starts with budget 2, recursion passes budget-1, negative cannot return; Register only with 'no conflicting parent record'; record keys are fixed width so scans are exact; resolve follows a CNAME only after the loop over the name's own records; GetRecords/GetAllRecords/resolve scan the records of a token only with its own and its parents' liveness established. Equality of the read paths with a model is not decided, hence 'other'. Added by the mutation sweep: duplicate test of AddRecord on the equal side over every record, type filters on the equal side, tokenIDFromName level loop, polarity of the parent-conflict test.",
         "§5 C12"),
 "C13": ("other",
         "AST/type lints specific to deploy/ with positive controls + SSA dominance and taint rules",
         "Explicitly thin: structural necessary conditions only. Index-space consistency of re-sliced ranges; no map iteration order reaching a witness script; tryDeploy/tryTransfer computed as 'local index == 0' and dominating every deploying/funding submission; committee sorted before the index search; NNS stage first; no import that can persist local progress; encoder/decoder field tables of the shared transaction data and checksum helpers agree; name constants agree across deploy, rpc/nns, common and the contracts; a closure invalidating the shared transaction clears the signature cache validated against it; Transaction.Nonce/ValidUntilBlock depend on a chain height only through the window index (SSA taint); a typed constant a call is made with agrees with the one its error wrap names; a local that starts at a negative sentinel and is branched on is assigned somewhere (copy-paste contradiction rules with embedded positive controls). Added by the deploy mutation sweep: an error is not wrapped, logged or returned on the side where it was just found nil; the 'not found' test of a position-or-sentinel local keeps position 0 with the other positions; a search loop hands out its index on the equal side; no submission is reachable only through the 'still pending' side of the monitor's in-flight query; the shared-data matcher answers true only where every field compared equal; a signature is collected only on the true side of its verification and of the checksum split. Termination/convergence under schedules and crash points, fund and window arithmetic are NOT decided (would need execution or model checking). Round 6: in the signature-collection loop the failure side of a per-member error test always goes on with the next member. Round 7: a share-out helper calling f(index, amount) from two counting loops passes adjacent index ranges. Round 8: no Hash160/Hash256/PublicKey result is a raw convert.ToBytes(…). Round 9: gates of nns Update/RegisterTLD (shared with C03). Round 10: gate of netmap.SubscribeForNewEpoch (shared with C03).",
         "§5 C13"),
 "C14": ("other",
         "typestate/loop-shape analysis of the counting loop, key-schema analysis of the roster families, must-facts at acceptance and notification",
         "Decides: roster key schemas fixed-width with len(cid) == 32 guarded; commit deletes all old n/r keys, moves every scanned u key to n||key[1:] with its value, old-n scan before any n put, each of the five loops reached on every normal path (REP writes only for a non-nil list), left only on exhaustion and with no iteration going round its operation; the signature check is reachable only through the exhausted exit of a membership loop over a per-vector collection of already counted member keys, insertion and increment only on the success branch; acceptance under counter == REP of that cid, members scanned for the vector that selects the signature list and candidates taken from that scan only (a candidate list starts empty inside the per-vector loop), true only after the REP scan is exhausted; SubmitObjectPut notifies only after verification of (cid from meta, meta, sigs) with the meta flag present. The BE16 counter byte codec is value-level and NOT decided. Added by the mutation sweep: edge-guard polarity of counting/insertion/acceptance, roster counter start (decoded last key iff there is one). Round 6: a REP number is stored under its position in the submitted list. Round 9: every signature of a vector is examined; refused for length only below REP.",
         "§5 C14"),
 "C15": ("translation_validation",
         "translation validation by recompilation with the pinned compiler + AST/SSA checks of embed set, deploy order, version",
         "Every shipped contract.nef, manifest.json and rpcbinding.go is regenerated from the working tree with the pinned neo-go 0.107.0 compiler (linked as a library) and compared byte-for-byte: every instruction, every manifest entry, every binding method. Embed set, deployment dependency order (derived from what each contract resolves when freshly deployed) and the Version constant are decided from the AST/SSA. Byte equality is the strongest possible correspondence, so the level is translation validation.",
         "§5 C15, §3.7"),
 "C16": ("other",
         "abstract interpretation of every Update and of every _deploy with isUpdate = true: gate entailment, version-bound facts at every effect and exit, write-set inclusion in the migration table with per-entry version guards, move/re-visit rules",
         "Decides: all 11 Update methods call management.update only under the documented majority (the NeoFS Alphabet designated for the next block for neofs/processing) with (script, manifest, data + Version); every _deploy(update) establishes PrevVersion <= v < Version at every effect and exit for v = last element of data; its write set is within the documented migration table, each step under its version guard and gone round only when the stored version is already at or above the recorded layout-change version (skip-edge rule), no fresh-deploy initialisation reachable; index-keyed in-place rewrites run over the stored count; migrations are whole moves selected by key length and re-visit safe. Read-API preservation for arbitrary prior storages is not decided, hence 'other'. Added by the mutation sweep: every documented migration step above PrevVersion is reachable; migration loops end only on exhaustion. Round 6: Version and PrevVersion are composed from disjoint declared components with equal weights, none left out. Round 7: the Vote/TryPurgeVotes window agreement (shared with C17) is decided here as well. Round 10: every selected item is migrated; declared struct layouts equal the recorded layout of stored data.",
         "§5 C16, App. C"),
 "C17": ("other",
         "must-facts at the vote call and action effects, exit-fact exclusion on the quiet return, operator-normalised boundary agreement of the 20-block window, term check of the refreshed ballot, membership-loop dominance of the voter insertion",
         "Decides for cheque/alphabetUpdate/setConfig/innerRingCandidateRemove without Notary: voter established non-empty and the witnessed element of the stored list; action only under not(n < floor(2 len(K)/3)+1) over that same list, quiet return executes no action, RemoveVotes(same id) before the action; Vote and TryPurgeVotes use the same predicate gap > 20; a counted vote stores {id, voters+from, current height}; voter appended only after comparison with every recorded voter of the ballot with the same id. Timing over block schedules is not decided, hence 'other'. Added by the mutation sweep: actions fire at every non-quiet return; sides of the window/found tests in Vote, TryPurgeVotes, RemoveVotes index; loaders. Round 6: the ballot id handed to Vote may depend on the decision id of the call (SSA backward slice). Round 10: stored layout of common.Ballot.",
         "§5 C17"),
 "C18": ("other",
         "must-facts: validation precedes state, dispatch coverage of record types, numeric limits at the accepting exits of the validators, digit fact before every decimal Atoi",
         "Explicitly thin. Decides: Register/RegisterTLD reach effects only after the name validator accepted the name, AddRecord/SetRecord only after the type-specific validator accepted the data and only for A/CNAME/TXT/AAAA; accepting exits establish 3 <= len <= 255, fragments 1..63, the last label validated as root (<= 16, leading letter), first and last byte of every accepted fragment in [a-z0-9] and every inner byte in [a-z0-9-] (loop 1..len-2); every decimal Atoi in a validator is reached only with a digit first byte. That the scanners accept EXACTLY the well-formed strings is NOT decided. Added by the mutation sweep: the fragment validator and safeSplitAndCheck are decided in both directions (no rejecting exit satisfiable with all documented conditions). Round 6: a decimal fragment is accepted only if it does not start with '0' or is one byte long; the zero-filled range of an elided IPv6 run and the shifted slot of the next group are adjacent (two clauses of the address scanners; the scanners as a whole stay undecided). Round 8: every key Register writes for a valid name fits the 64-byte limit. Round 9: 'not a byte' only outside 0..255.",
         "§5 C18"),
 "C19": ("other",
         "must-facts at notification/transfer sites, canonical arithmetic terms of the shares, loop-shape of per-node transfers",
         "Decides: Deposit only under caller = GAS and 0 < amount <= 9000*10^8 with receiver in {20-byte data, sender}; Withdraw under W(user), 0 <= amount <= 9000, fee = configured WithdrawFee once to Processing (Notary) / once per stored Alphabet key, results checked, amount*10^8 notified; Cheque pays exactly (self -> user, amount) once, checked, same terms notified, and (without Notary) only at the 2/3+1 threshold of the witnessed Alphabet members after removing the ballot of the same id; candidate fee from the witnessed key's account with the ignore marker; Emit shares floor(g/2) and floor((g - g/2)*7/8/N) over the iterated Inner Ring list; payment callbacks accept only GAS (Alphabet also NEO). The balance identity over histories is not decided, hence 'other'. Added by the mutation sweep: converses for the deposit callback and Withdraw, candidate charged exactly when not stored yet, every accepted payment reported. Round 6: a payment carrying the candidate-fee marker is never refused, whatever its amount. Round 7: the documented gate of alphabet.Emit (gate rule shared with C03) is decided here as well. Round 8: the gate of Cheque (shared with C03) is decided here as well. Round 9: payment callbacks never refuse the accepted native token (converse).",
         "§5 C19"),
 "C20": ("other",
         "storage-layout analysis: component kinds of every Find prefix and Put key (R-prefix rule, family disjointness, put/get key agreement) + must-facts for gates, id length bound and cleanup deltas",
         "Decides every scan of reputation, audit, container estimations, neofsid and the config maps against the R-prefix rule (four genuine findings are recorded as known findings), family disjointness of constant prefixes, key-term agreement of putters and getters, the id length bound of GetContainerSize, AddKey/RemoveKey acting on every submitted key (loop left only on exhaustion), netmap.SetConfig always storing the submitted value, the gates of putContainerSize and audit.put, the cleanup deltas 3/4 with the putter's key components, and the global cleanup examining every scanned key. Multiset equality of listings is not decided, hence 'other'. Added by the mutation sweep: reputation counter continues from the stored one. Round 7: list getters and their helpers collect every item of their scan (or skip only what is already in the set being built). Round 9: the per-node epoch list is keyed by container id and node.",
         "§5 C20"),
}

# clauses added in session 3 (rounds 11 and 12), appended to the claim text
S3 = {
 "C01": " Session 3: a key of another constant family is bookkeeping (only a key without a constant family is reported); TransferX's 'a refusal faults' moved to C05.",
 "C03": " Session 3: a transfer and a (re-)registration of an NNS name both store Admin = nil; decode-absent for the ballot list; the verify converse accepts an account left out where the two thresholds coincide.",
 "C04": " Session 3: every normal return of a put has emitted PutSuccess; emitters stated per entry point; a write skipped because the stored value is known identical counts as done.",
 "C05": " Session 3: an unpayable put faults: amount x keys established before the fee loop, or a refused balance.transferX faults (one of the two).",
 "C07": " Session 3: update/remove rules over sets of sites (fast paths), emitters per entry point, the legacy listing collects every scanned candidate.",
 "C09": " Session 3: every tick that returns normally has scanned the accounts (a way round that depends on a stored key nobody writes is not a way).",
 "C10": " Session 3: updateBalance's step rules for every constant handed over (0: index entry kept); IsAvailable answers the constant 'taken' only where the liveness helper found the path alive.",
 "C11": " Session 3: a registration (first or take-over, Register or RegisterTLD) stores Admin = nil.",
 "C13": " Session 3: nil-side-use (a value just found nil is not used on that side; SSA positive control), submission-tracked (validUntilBlock and every id of a submission reach one tracker call), package-state (no package-level variable is written or handed out by address in a function body), found-flag (the flag choosing between two submissions is not left false inside the innermost succeeded lookup).",
 "C14": " Session 3: Nodes scans the committed family only (and does not edit its key in place).",
 "C17": " Session 3: decode-absent: an item some method deletes is decoded only where the read was found non-nil.",
 "C18": " Session 3: the level rules of the helper that finds the governing token are decided here as well (a well-formed record below an expired intermediate level is filed, not refused).",
 "C19": " Session 3: the vote protocol of all four voting methods (one shared ballot list); decode-absent.",
 "C20": " Session 3: every container tick that returns normally has scanned the estimations; an estimation reader faults only on a malformed id, never on stored state.",
}

for _k in list(S3):
    pass
S3_R13 = " Round 13: the failure model is decided for the property's contracts: no function with a deferred recover outside the who-may-catch table (one entry: container.deleteNNSRecords)."
for _k in ["C01","C02","C03","C04","C05","C06","C07","C08","C09","C10","C11","C12","C14","C16","C17","C18","C19","C20"]:
    S3[_k] = S3.get(_k, "") + S3_R13
S3["C19"] += " Payment refusals end in util.Abort, not in a catchable panic."
S3["C03"] += " Payment refusals end in util.Abort, not in a catchable panic."
S3["C13"] += " Round 13: pending-released (every path of the tracker's goroutine releases the in-flight flag)."

NA_PENDING = "check not yet registered in this revision of /verif (under construction); no claim is made"

def main():
    out = subprocess.run([os.path.join(HERE, "bin", "nfsverif"), "list"], capture_output=True, text=True)
    registered = {l.split()[0] for l in out.stdout.splitlines() if l.strip()}
    props = [json.loads(l)["id"] for l in open(os.path.join(HERE, "properties.jsonl"))]
    checks, na = [], []
    for pid in props:
        if pid in P and pid in registered:
            level, tech, text, ref = P[pid]
            checks.append({
                "property_id": pid,
                "quick_cmd": f"bin/nfsverif check {pid} --tier quick",
                "thorough_cmd": f"bin/nfsverif check {pid} --tier thorough",
                "evidence_file": f"evidence/{pid}.json",
                "replay_cmd_template": "bin/nfsverif explain {path}",
                "engine": "nfsverif",
                "level_claimed": {"category": level, "text": text + S3.get(pid, ""), "design_ref": ref},
                "level_note": TB,
                "technique": tech,
            })
        else:
            na.append({"property_id": pid, "reason": NA.get(pid, NA_PENDING)})
    m = {
        "version": 1,
        "setup_cmd": "./setup.sh",
        "hooks": {
            "guard": "verif",
            "enable": "no hooks: the analysis reads the unmodified sources; nothing in /repo is instrumented",
            "baseline_off_cmd": "cd /repo && GOFLAGS=-mod=mod go test -vet=off -count=1 ./...",
            "source_commits": [],
            "add_only": True,
        },
        "engines": [
            {"name": "nfsverif", "path": "tool", "serves_properties": [c["property_id"] for c in checks],
             "kind_free_text": "custom static analyser over go/ssa: inlined method graphs, canonical value terms, CNF must-fact dataflow (abstract interpretation), storage key schemas, AST/SSA rules for deploy/"},
            {"name": "c15check", "path": "c15", "serves_properties": ["C15"],
             "kind_free_text": "pinned neo-go compiler + binding generator used as libraries; byte comparison of regenerated artifacts"},
        ],
        "checks": checks,
        "not_applicable": na,
        "notes": "All checks are static analysis of /repo's current working tree (loaded with go/packages on every run). Known findings: known_findings.json. Genuine defects repaired in /repo by fix: commits are recorded there as fixed.",
    }
    json.dump(m, open(os.path.join(HERE, "MANIFEST.json"), "w"), indent=1)
    print("checks:", [c["property_id"] for c in checks], "not_applicable:", len(na))

NA = {}

if __name__ == "__main__":
    main()
