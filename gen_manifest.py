#!/usr/bin/env python3
"""Writes MANIFEST.json from the table below (kept next to the checks so the two stay in sync).
A property is listed under checks only once its check is registered in bin/nfsverif."""
import json, subprocess, os

HERE = os.path.dirname(os.path.abspath(__file__))

TB = ("Trusted: go/types + go/ssa (x/tools v0.29.0); the neo-go compiler maps the Go subset to VM code faithfully; "
      "VM atomicity on FAULT (a faulted transaction persists nothing); the closed interop primitive table; the oracle tables of DESIGN.md App. A-C. "
      "Static analysis only: nothing is executed.")

# id -> (level, technique, text, design_ref, implemented)
P = {
 "C01": ("other",
         "abstract interpretation (CNF must-fact dataflow over inlined SSA) + term agreement of legs/supply/notifications + who-may-write over key families",
         "Decides, for all inputs and all paths of every Balance method, the step obligations of the inductive argument behind 'supply = sum of balances, no negative balance': single writers of the account family and the supply key; debit = loaded(from).Balance - amount (or delete when equal), credit = loaded(to).Balance + amount with the same amount term; Mint/Burn move the supply by exactly that amount (Burn under supply >= amount); amount >= 0 and Balance >= amount established at the stores; credit loaded after the debit store (self-transfer); refusal leaves no effect; exactly one Transfer/TransferX with the legs' arguments and no other emitter. This is a sound structural necessary condition for every history, not an execution of histories, hence 'other'.",
         "§5 C01"),
 "C02": ("other",
         "abstract interpretation: entailment of (not executed or witness-of-account or caller-is-account or Alphabet) at every site that can lower a balance",
         "For every store/delete of an account record in every Balance method the exit facts entail: not executed, or the witness of the account keyed by that record, or the caller being it, or the Alphabet 2/3+1 multisignature; a credit is exempt only where amount >= 0 is established; the public transfer executes no effect on a path returning false. Holds for every argument tuple because every path is covered; signer sets at run time are not enumerated, hence 'other'.",
         "§5 C02"),
 "C03": ("proof",
         "abstract interpretation: CNF must-fact dataflow over the fully inlined SSA graph of every ABI method; entailment of (effect not executed or required witness) at every normal exit",
         "For each of the non-safe ABI methods of the 11 contracts and each effect site reachable in its inlined graph, the facts at every normal exit entail 'not executed or required witness', the requirement coming from the documented table (DESIGN App. A). Because all paths of all methods are covered at once and a faulted transaction persists nothing, this is a proof that an invocation without the documented witnesses leaves no trace; thresholds are classified symbolically (2n/3+1 vs n/2+1 over the documented key source, every n); safe methods reach no effect; verify methods return true only under the documented multisignature. obligations == discharged is required for the check to pass.",
         "§5 C03, App. A"),
 "C09": ("other",
         "abstract interpretation + term agreement at the refund call of NewEpoch and the lock record of Lock",
         "Decides that Lock writes {0, until, from} at the lock account before transferring, that the NewEpoch refund is called only under Until != 0 and epochNum >= Until with from = scanned key, to = Parent, amount = Balance of the record loaded from that key, that the re-read by the debit leg cannot be preceded by another account store (so the record is deleted: no second unlock), that partial burns keep Until/Parent, and that a fresh deploy subscribes to the tick. Timing over tick schedules and iterator semantics are assumed, hence 'other'.",
         "§5 C09"),
 "C15": ("translation_validation",
         "translation validation by recompilation with the pinned compiler + AST/SSA checks of embed set, deploy order, version",
         "Every shipped contract.nef, manifest.json and rpcbinding.go is regenerated from the working tree with the pinned neo-go 0.107.0 compiler (linked as a library) and compared byte-for-byte: every instruction, every manifest entry, every binding method. Embed set, deployment dependency order (derived from what each contract resolves when freshly deployed) and the Version constant are decided from the AST/SSA. Byte equality is the strongest possible correspondence, so the level is translation validation.",
         "§5 C15, §3.7"),
}

NA_PENDING = "check not yet registered in this revision of /verif (under construction); no claim is made"

def main():
    out = subprocess.run([os.path.join(HERE, "bin", "nfsverif"), "list"], capture_output=True, text=True)
    registered = {l.split()[0] for l in out.stdout.splitlines() if l.strip()}
    props = [json.loads(l)["id"] for l in open(os.path.join(HERE, "properties.jsonl"))]
    checks, na = [], []
    for pid in props:
        if pid in P and pid in registered:
            level, tech, text, ref = P[pid]
            checks.append({
                "property_id": pid,
                "quick_cmd": f"bin/nfsverif check {pid} --tier quick",
                "thorough_cmd": f"bin/nfsverif check {pid} --tier thorough",
                "evidence_file": f"evidence/{pid}.json",
                "replay_cmd_template": "bin/nfsverif explain {path}",
                "engine": "nfsverif",
                "level_claimed": {"category": level, "text": text, "design_ref": ref},
                "level_note": TB,
                "technique": tech,
            })
        else:
            na.append({"property_id": pid, "reason": NA.get(pid, NA_PENDING)})
    m = {
        "version": 1,
        "setup_cmd": "./setup.sh",
        "hooks": {
            "guard": "verif",
            "enable": "no hooks: the analysis reads the unmodified sources; nothing in /repo is instrumented",
            "baseline_off_cmd": "cd /repo && GOFLAGS=-mod=mod go test -vet=off -count=1 ./...",
            "source_commits": [],
            "add_only": True,
        },
        "engines": [
            {"name": "nfsverif", "path": "tool", "serves_properties": [c["property_id"] for c in checks],
             "kind_free_text": "custom static analyser over go/ssa: inlined method graphs, canonical value terms, CNF must-fact dataflow (abstract interpretation), storage key schemas, AST/SSA rules for deploy/"},
            {"name": "c15check", "path": "c15", "serves_properties": ["C15"],
             "kind_free_text": "pinned neo-go compiler + binding generator used as libraries; byte comparison of regenerated artifacts"},
        ],
        "checks": checks,
        "not_applicable": na,
        "notes": "All checks are static analysis of /repo's current working tree (loaded with go/packages on every run). Known findings: known_findings.json. Genuine defects repaired in /repo by fix: commits are recorded there as fixed.",
    }
    json.dump(m, open(os.path.join(HERE, "MANIFEST.json"), "w"), indent=1)
    print("checks:", [c["property_id"] for c in checks], "not_applicable:", len(na))

NA = {}

if __name__ == "__main__":
    main()
