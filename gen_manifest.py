#!/usr/bin/env python3
"""Writes MANIFEST.json from the table below (kept next to the checks so the two stay in sync).
A property is listed under checks only once its check is registered in bin/nfsverif."""
import json, subprocess, os

HERE = os.path.dirname(os.path.abspath(__file__))

TB = ("Trusted: go/types + go/ssa (x/tools v0.29.0); the neo-go compiler maps the Go subset to VM code faithfully; "
      "VM atomicity on FAULT (a faulted transaction persists nothing); the closed interop primitive table; the oracle tables of DESIGN.md App. A-C. "
      "Static analysis only: nothing is executed.")

# id -> (level, technique, text, design_ref, implemented)
P = {
 "C15": ("translation_validation",
         "translation validation by recompilation with the pinned compiler + AST/SSA checks of embed set, deploy order, version",
         "Every shipped contract.nef, manifest.json and rpcbinding.go is regenerated from the working tree with the pinned neo-go 0.107.0 compiler (linked as a library) and compared byte-for-byte: every instruction, every manifest entry, every binding method. Embed set, deployment dependency order (derived from what each contract resolves when freshly deployed) and the Version constant are decided from the AST/SSA. Byte equality is the strongest possible correspondence, so the level is translation validation.",
         "§5 C15, §3.7"),
}

NA_PENDING = "check not yet registered in this revision of /verif (under construction); no claim is made"

def main():
    out = subprocess.run([os.path.join(HERE, "bin", "nfsverif"), "list"], capture_output=True, text=True)
    registered = {l.split()[0] for l in out.stdout.splitlines() if l.strip()}
    props = [json.loads(l)["id"] for l in open(os.path.join(HERE, "properties.jsonl"))]
    checks, na = [], []
    for pid in props:
        if pid in P and pid in registered:
            level, tech, text, ref = P[pid]
            checks.append({
                "property_id": pid,
                "quick_cmd": f"bin/nfsverif check {pid} --tier quick",
                "thorough_cmd": f"bin/nfsverif check {pid} --tier thorough",
                "evidence_file": f"evidence/{pid}.json",
                "replay_cmd_template": "bin/nfsverif explain {path}",
                "engine": "nfsverif",
                "level_claimed": {"category": level, "text": text, "design_ref": ref},
                "level_note": TB,
                "technique": tech,
            })
        else:
            na.append({"property_id": pid, "reason": NA.get(pid, NA_PENDING)})
    m = {
        "version": 1,
        "setup_cmd": "./setup.sh",
        "hooks": {
            "guard": "verif",
            "enable": "no hooks: the analysis reads the unmodified sources; nothing in /repo is instrumented",
            "baseline_off_cmd": "cd /repo && GOFLAGS=-mod=mod go test -vet=off -count=1 ./...",
            "source_commits": [],
            "add_only": True,
        },
        "engines": [
            {"name": "nfsverif", "path": "tool", "serves_properties": [c["property_id"] for c in checks],
             "kind_free_text": "custom static analyser over go/ssa: inlined method graphs, canonical value terms, CNF must-fact dataflow (abstract interpretation), storage key schemas, AST/SSA rules for deploy/"},
            {"name": "c15check", "path": "c15", "serves_properties": ["C15"],
             "kind_free_text": "pinned neo-go compiler + binding generator used as libraries; byte comparison of regenerated artifacts"},
        ],
        "checks": checks,
        "not_applicable": na,
        "notes": "All checks are static analysis of /repo's current working tree (loaded with go/packages on every run). Known findings: known_findings.json. Genuine defects repaired in /repo by fix: commits are recorded there as fixed.",
    }
    json.dump(m, open(os.path.join(HERE, "MANIFEST.json"), "w"), indent=1)
    print("checks:", [c["property_id"] for c in checks], "not_applicable:", len(na))

NA = {}

if __name__ == "__main__":
    main()
