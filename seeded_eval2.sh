#!/bin/bash
# usage: seeded_eval2.sh <delivery dir> <seed id> "<checks>"  — like seeded_eval.sh, but the checks run on a
# scratch worktree (NFS_REPO) instead of /repo, so that it can run while something else reads /repo
D=$1; ID=$2; CHECKS=$3
SKIP_CHECKS=1 /verif/seeded_eval.sh $D $ID "$CHECKS"
W=/tmp/chk_$ID; rm -rf $W; git -C /repo worktree prune; git -C /repo worktree add -q --detach $W HEAD || exit 1
mkdir -p /tmp/chkv_$ID/bin /tmp/chkv_$ID/evidence; cp /verif/known_findings.json /tmp/chkv_$ID/
(cd $W && git apply $D/patch.diff) && NFS_REPO=$W NFS_VERIF=/tmp/chkv_$ID NFS_NO_SELFTEST=1 ${NFS_BIN:-/verif/bin/nfsverif} check $CHECKS 2>&1 | grep -aE "^(VIOLATED|UNDECIDED|KNOWN|C[0-9]+ tier)" | cut -c1-260
git -C /repo worktree remove --force $W; rm -rf /tmp/chkv_$ID
