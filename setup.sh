#!/bin/sh
# Builds the two checker binaries offline from the module cache.
set -e
cd "$(dirname "$0")"
export GOFLAGS=-mod=mod GOPROXY=off GOSUMDB=off GOTOOLCHAIN=local
unset GOWORK
mkdir -p bin evidence/replay
(cd tool && go build -o ../bin/nfsverif .)
(cd c15 && go build -o ../bin/c15check .)
echo "built bin/nfsverif bin/c15check"
