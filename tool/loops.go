package main

// CFG helpers over go/ssa functions: natural loops, exits, reachability.

import (
	"go/constant"
	"go/token"
	"go/types"

	"golang.org/x/tools/go/ssa"
)

// isLoopHeader: some predecessor is dominated by b.
func isLoopHeader(b *ssa.BasicBlock) bool {
	for _, p := range b.Preds {
		if b.Dominates(p) {
			return true
		}
	}
	return false
}

// loopBlocks: the natural loop of header h.
func loopBlocks(h *ssa.BasicBlock) map[*ssa.BasicBlock]bool {
	in := map[*ssa.BasicBlock]bool{h: true}
	var work []*ssa.BasicBlock
	for _, p := range h.Preds {
		if h.Dominates(p) && !in[p] {
			in[p] = true
			work = append(work, p)
		}
	}
	for len(work) > 0 {
		b := work[len(work)-1]
		work = work[:len(work)-1]
		for _, p := range b.Preds {
			if !in[p] && h.Dominates(p) {
				in[p] = true
				work = append(work, p)
			}
		}
	}
	return in
}

// innermostLoop: header of the innermost natural loop containing b (nil if none).
func innermostLoop(b *ssa.BasicBlock) *ssa.BasicBlock {
	for h := b; h != nil; h = h.Idom() {
		if isLoopHeader(h) && loopBlocks(h)[b] {
			return h
		}
	}
	return nil
}

// enclosingLoops: headers of all loops containing b, innermost first.
func enclosingLoops(b *ssa.BasicBlock) []*ssa.BasicBlock {
	var out []*ssa.BasicBlock
	for h := b; h != nil; h = h.Idom() {
		if isLoopHeader(h) && loopBlocks(h)[b] {
			out = append(out, h)
		}
	}
	return out
}

type cfgEdge struct{ from, to *ssa.BasicBlock }

// loopExits: edges leaving the loop of h.
func loopExits(h *ssa.BasicBlock) []cfgEdge {
	in := loopBlocks(h)
	var out []cfgEdge
	for b := range in {
		for _, s := range b.Succs {
			if !in[s] {
				out = append(out, cfgEdge{b, s})
			}
		}
	}
	return out
}

// blockReaches: is `to` reachable from `from` (from itself counts) without entering `avoid`?
func blockReaches(from, to, avoid *ssa.BasicBlock) bool {
	if from == avoid {
		return false
	}
	seen := map[*ssa.BasicBlock]bool{from: true}
	work := []*ssa.BasicBlock{from}
	for len(work) > 0 {
		b := work[len(work)-1]
		work = work[:len(work)-1]
		if b == to {
			return true
		}
		for _, s := range b.Succs {
			if s != avoid && !seen[s] {
				seen[s] = true
				work = append(work, s)
			}
		}
	}
	return false
}

// stripConv removes value-preserving wrappers.
func stripConv(v ssa.Value) ssa.Value {
	for {
		switch x := v.(type) {
		case *ssa.ChangeType:
			v = x.X
		case *ssa.MakeInterface:
			v = x.X
		case *ssa.Convert:
			v = x.X
		case *ssa.ChangeInterface:
			v = x.X
		default:
			return v
		}
	}
}

// phiClosure: v and every value flowing into it through phis.
func phiClosure(v ssa.Value) map[ssa.Value]bool {
	out := map[ssa.Value]bool{}
	var rec func(ssa.Value)
	rec = func(x ssa.Value) {
		x = stripConv(x)
		if out[x] {
			return
		}
		out[x] = true
		if p, ok := x.(*ssa.Phi); ok {
			for _, e := range p.Edges {
				rec(e)
			}
		}
	}
	rec(v)
	return out
}

// isEqualityCall: a call comparing two byte strings for equality; returns operands.
func isEqualityCall(v ssa.Value) (ssa.Value, ssa.Value, bool) {
	c, ok := v.(*ssa.Call)
	if !ok {
		return nil, nil, false
	}
	f := c.Common().StaticCallee()
	if f == nil || len(c.Common().Args) != 2 {
		return nil, nil, false
	}
	switch fq(f) {
	case "interop.PublicKey.Equals", "interop.Hash160.Equals", "interop.Hash256.Equals", "util.Equals":
		return stripConv(c.Common().Args[0]), stripConv(c.Common().Args[1]), true
	}
	if isEqualityHelper(f) {
		return stripConv(c.Common().Args[0]), stripConv(c.Common().Args[1]), true
	}
	return nil, nil, false
}

// isEqualityHelper: a two-parameter helper whose whole body is "return conv(a) == conv(b)"
// (common.bytesEqual, whatever it is called).
func isEqualityHelper(f *ssa.Function) bool {
	if len(f.Params) != 2 || len(f.Blocks) != 1 {
		return false
	}
	b := f.Blocks[0]
	r, ok := b.Instrs[len(b.Instrs)-1].(*ssa.Return)
	if !ok || len(r.Results) != 1 {
		return false
	}
	var x, y ssa.Value
	switch e := r.Results[0].(type) {
	case *ssa.BinOp:
		if e.Op != token.EQL {
			return false
		}
		x, y = stripConv(e.X), stripConv(e.Y)
	case *ssa.Call:
		// one level: the body is itself a call of a known equality
		c := e.Common().StaticCallee()
		if c == nil || c == f || len(e.Common().Args) != 2 {
			return false
		}
		switch fq(c) {
		case "interop.PublicKey.Equals", "interop.Hash160.Equals", "interop.Hash256.Equals", "util.Equals":
		default:
			return false
		}
		x, y = stripConv(e.Common().Args[0]), stripConv(e.Common().Args[1])
	default:
		return false
	}
	return x == ssa.Value(f.Params[0]) && y == ssa.Value(f.Params[1]) || x == ssa.Value(f.Params[1]) && y == ssa.Value(f.Params[0])
}

// elementOf: v is *(&C[i]) → C, or is derived (type assertion, slicing, field)
// from iterator.Value(it) → it.
func elementOf(v ssa.Value) (ssa.Value, bool) {
	for i := 0; i < 6; i++ {
		v = stripConv(v)
		switch x := v.(type) {
		case *ssa.UnOp:
			if x.Op == token.MUL {
				if ia, ok := x.X.(*ssa.IndexAddr); ok {
					return stripConv(ia.X), true
				}
				// a field of a local struct variable that holds the current item (r := item; r.F)
				addr := x.X
				if fa, ok := addr.(*ssa.FieldAddr); ok {
					addr = fa.X
				}
				if al, ok := addr.(*ssa.Alloc); ok && al.Referrers() != nil {
					var stored ssa.Value
					n := 0
					for _, r := range *al.Referrers() {
						if st, isSt := r.(*ssa.Store); isSt && st.Addr == ssa.Value(al) {
							stored = st.Val
							n++
						}
					}
					if n == 1 {
						v = stored
						continue
					}
				}
			}
			return nil, false
		case *ssa.TypeAssert:
			v = x.X
		case *ssa.Slice:
			v = x.X
		case *ssa.Field:
			v = x.X
		case *ssa.Extract:
			v = x.Tuple
		case *ssa.Call:
			if f := x.Common().StaticCallee(); f != nil && fq(f) == "iterator.Value" {
				return stripConv(x.Common().Args[0]), true
			}
			return nil, false
		default:
			return nil, false
		}
	}
	return nil, false
}

// membershipGuard: target is reachable only through the exhausted exit of a
// loop that compares the member value with every element of a collection;
// the "found equal" exit does not reach target within the same iteration of
// the loop enclosing target (or at all, when target is in no loop).
func membershipGuard(fn *ssa.Function, isMember func(ssa.Value) bool, target *ssa.BasicBlock) (ok bool, memIf *ssa.If, coll ssa.Value) {
	memNeg := false // the test is a != : its false side is the "equal" side
	for _, b := range fn.Blocks {
		i, isIf := b.Instrs[len(b.Instrs)-1].(*ssa.If)
		if !isIf {
			continue
		}
		x, y, isEq := isEqualityCall(i.Cond)
		neg := false
		if !isEq {
			// a plain == / != of two values (strings, integers)
			if bo, isB := i.Cond.(*ssa.BinOp); isB && (bo.Op == token.EQL || bo.Op == token.NEQ) {
				x, y, isEq, neg = stripConv(bo.X), stripConv(bo.Y), true, bo.Op == token.NEQ
			}
		}
		if !isEq {
			continue
		}
		for _, pr := range [][2]ssa.Value{{x, y}, {y, x}} {
			if isMember(pr[0]) {
				if c, found := elementOf(pr[1]); found {
					memIf, coll, memNeg = i, c, neg
				}
			}
		}
	}
	if memIf == nil {
		// helper form: if contains(coll, member) { skip }; the target lies on the false side
		for _, b := range fn.Blocks {
			i, isIf := b.Instrs[len(b.Instrs)-1].(*ssa.If)
			if !isIf {
				continue
			}
			c, isCall := i.Cond.(*ssa.Call)
			if !isCall {
				continue
			}
			ci, isContains := containsHelper(c.Common().StaticCallee())
			if !isContains || !isMember(stripConv(c.Common().Args[1-ci])) {
				continue
			}
			if b.Succs[1].Dominates(target) && !blockReaches(b.Succs[0], target, innermostLoop(target)) {
				return true, i, stripConv(c.Common().Args[ci])
			}
			return false, i, stripConv(c.Common().Args[ci])
		}
		return false, nil, nil
	}
	hm := innermostLoop(memIf.Block())
	if hm == nil || loopBlocks(hm)[target] {
		return false, memIf, coll
	}
	hv := innermostLoop(target)
	var done *ssa.BasicBlock
	for _, s := range hm.Succs {
		if !loopBlocks(hm)[s] {
			done = s
		}
	}
	ok = done != nil && done.Dominates(target)
	// polarity: it is the "equal" side of the test that must not reach the target
	// (a negated test would let the target be reached exactly when every element is equal)
	eqSide := memIf.Block().Succs[0]
	if memNeg {
		eqSide = memIf.Block().Succs[1]
	}
	if blockReaches(eqSide, target, hv) && eqSide != hv {
		ok = false
	}
	for _, e := range loopExits(hm) {
		if e.from == hm {
			continue
		}
		if e.to == hv {
			continue
		}
		if blockReaches(e.to, target, hv) {
			ok = false
		}
	}
	if !ok && done != nil {
		// flag form: "found" breaks out to the same block as exhaustion and is remembered in a
		// flag (a phi that is false from the header edge and true from every found exit); the
		// target lies on the false side of a test of that flag
		ok = flagGuard(hm, done, target, eqSide)
	}
	return ok, memIf, coll
}

// flagGuard: see membershipGuard.
func flagGuard(hm, done, target, eqSide *ssa.BasicBlock) bool {
	in := loopBlocks(hm)
	for _, ins := range done.Instrs {
		phi, isPhi := ins.(*ssa.Phi)
		if !isPhi {
			break
		}
		good := len(done.Preds) >= 2
		for i, p := range done.Preds {
			c, isC := phi.Edges[i].(*ssa.Const)
			if !isC || c.Value == nil || c.Value.Kind() != constant.Bool {
				good = false
				break
			}
			v := constant.BoolVal(c.Value)
			if p == hm && v || p != hm && (!(in[p] || hm.Dominates(p)) || !v) {
				good = false // exhaustion must give false, every other way out of the loop true
			}
			if p != hm && !(eqSide == p || eqSide.Dominates(p)) {
				good = false // … and "true" is set on the equal side of the test
			}
		}
		if !good || phi.Referrers() == nil {
			continue
		}
		for _, r := range *phi.Referrers() {
			ifi, isIf := r.(*ssa.If)
			if !isIf || ifi.Cond != ssa.Value(phi) {
				continue
			}
			b := ifi.Block()
			if b.Succs[1].Dominates(target) && b.Succs[1] != b.Succs[0] && !blockReaches(b.Succs[0], target, nil) {
				return true
			}
		}
	}
	return false
}

// containsHelper: f(coll, x) (in either order) reports whether x equals an
// element of coll: one loop over the collection parameter with an equality test
// against the other parameter, true returned only from the found side, false
// only after exhaustion. Returns the index of the collection parameter.
func containsHelper(f *ssa.Function) (collParam int, ok bool) {
	if f == nil || f.Blocks == nil || len(f.Params) != 2 || !returnsBoolSig(f) {
		return 0, false
	}
	for ci := 0; ci < 2; ci++ {
		mem := ssa.Value(f.Params[1-ci])
		var memIf *ssa.If
		for _, b := range f.Blocks {
			i, isIf := b.Instrs[len(b.Instrs)-1].(*ssa.If)
			if !isIf {
				continue
			}
			x, y, isEq := isEqualityCall(i.Cond)
			if !isEq {
				if bo, isB := i.Cond.(*ssa.BinOp); isB && bo.Op == token.EQL {
					x, y, isEq = stripConv(bo.X), stripConv(bo.Y), true
				}
			}
			if !isEq {
				continue
			}
			for _, pr := range [][2]ssa.Value{{x, y}, {y, x}} {
				if pr[0] == mem {
					if c, found := elementOf(pr[1]); found && c == ssa.Value(f.Params[ci]) {
						memIf = i
					}
				}
			}
		}
		if memIf == nil {
			continue
		}
		hm := innermostLoop(memIf.Block())
		if hm == nil {
			continue
		}
		good := true
		for _, b := range f.Blocks {
			r, isR := b.Instrs[len(b.Instrs)-1].(*ssa.Return)
			if !isR || len(r.Results) != 1 {
				continue
			}
			c, isC := r.Results[0].(*ssa.Const)
			if !isC || c.Value == nil {
				good = false
				continue
			}
			if constant.BoolVal(c.Value) {
				// true only from the found side of the test
				if !memIf.Block().Succs[0].Dominates(b) {
					good = false
				}
			} else {
				// false only after exhaustion
				exh := false
				for _, p := range b.Preds {
					if p == hm && !loopBlocks(hm)[b] {
						exh = true
					}
				}
				if !exh || len(b.Preds) != 1 {
					good = false
				}
			}
		}
		if good {
			return ci, true
		}
	}
	return 0, false
}

func returnsBoolSig(f *ssa.Function) bool {
	r := f.Signature.Results()
	if r.Len() != 1 {
		return false
	}
	b, ok := r.At(0).Type().Underlying().(*types.Basic)
	return ok && b.Kind() == types.Bool
}

// appendOf: v = append(base, elems...) with a literal element list.
func appendOf(v ssa.Value) (base ssa.Value, elems []ssa.Value, ok bool) {
	c, isCall := stripConv(v).(*ssa.Call)
	if !isCall {
		return nil, nil, false
	}
	b, isB := c.Common().Value.(*ssa.Builtin)
	if !isB || b.Name() != "append" || len(c.Common().Args) != 2 {
		return nil, nil, false
	}
	base = stripConv(c.Common().Args[0])
	if sl, isS := c.Common().Args[1].(*ssa.Slice); isS {
		if al, isA := sl.X.(*ssa.Alloc); isA && al.Referrers() != nil {
			for _, r := range *al.Referrers() {
				if ia, isIA := r.(*ssa.IndexAddr); isIA && ia.Referrers() != nil {
					for _, r2 := range *ia.Referrers() {
						if st, isSt := r2.(*ssa.Store); isSt && st.Addr == ia {
							elems = append(elems, stripConv(st.Val))
						}
					}
				}
			}
		}
	}
	return base, elems, true
}

func valueBlock(v ssa.Value) *ssa.BasicBlock {
	if i, ok := v.(ssa.Instruction); ok {
		return i.Block()
	}
	return nil
}

// viaEdge: within one iteration of the innermost loop around `from` (from the
// function entry when there is none), target is reachable only through the
// edge from→from.Succs[side]. This is what "the block is guarded by that side
// of the test" means; plain dominance by the successor is not enough when the
// successor is a loop header that is also entered along other edges.
func viaEdge(from *ssa.BasicBlock, side int, target *ssa.BasicBlock) bool {
	if len(from.Succs) != 2 || from.Succs[0] == from.Succs[1] {
		return false
	}
	to := from.Succs[side]
	start := from.Parent().Blocks[0]
	hdr := innermostLoop(from)
	if hdr != nil {
		start = hdr
	}
	// reachable from start without the edge (and, inside a loop, without going round through the header)
	seen := map[*ssa.BasicBlock]bool{start: true}
	work := []*ssa.BasicBlock{start}
	for len(work) > 0 {
		b := work[len(work)-1]
		work = work[:len(work)-1]
		for i, s := range b.Succs {
			if b == from && i == side {
				continue
			}
			if hdr != nil && s == hdr {
				continue // next iteration
			}
			if !seen[s] {
				seen[s] = true
				work = append(work, s)
			}
		}
	}
	if seen[target] {
		return false
	}
	// and it is reachable through the edge at all
	return to == target || blockReaches(to, target, nil)
}

// guardedBy: target is reached only on side `side` of the test that ends block
// from — directly (viaEdge) or through a boolean flag that is set to true only
// on that side and tested before the target (`found = true; break` … `if !found
// { return }`).
func guardedBy(from *ssa.BasicBlock, side int, target *ssa.BasicBlock) bool {
	if viaEdge(from, side, target) {
		return true
	}
	if len(from.Succs) != 2 {
		return false
	}
	for _, b := range from.Parent().Blocks {
		for _, ins := range b.Instrs {
			phi, isPhi := ins.(*ssa.Phi)
			if !isPhi {
				break
			}
			good, anyTrue := true, false
			for i, e := range phi.Edges {
				c, isC := e.(*ssa.Const)
				if !isC || c.Value == nil || c.Value.Kind() != constant.Bool {
					good = false
					break
				}
				if constant.BoolVal(c.Value) {
					anyTrue = true
					p := b.Preds[i]
					if !(p == from.Succs[side] && len(p.Preds) == 1 || viaEdge(from, side, p)) {
						good = false
					}
				}
			}
			if !good || !anyTrue || phi.Referrers() == nil {
				continue
			}
			for _, r := range *phi.Referrers() {
				if ifi, isIf := r.(*ssa.If); isIf && ifi.Cond == ssa.Value(phi) && viaEdge(ifi.Block(), 0, target) {
					return true
				}
			}
		}
	}
	return false
}
