package main

import (
	"fmt"
	"go/constant"
	"go/token"
	"go/types"
	"os"
	"sort"

	"golang.org/x/tools/go/ssa"
)

// linear forms over SSA values (integer +, −, · constant), for sibling
// agreements that are about arithmetic and not about paths.
type ssaLinForm struct {
	c map[ssa.Value]int64
	k int64
}

func ssaLin(v ssa.Value, depth int) ssaLinForm {
	atom := func() ssaLinForm { return ssaLinForm{c: map[ssa.Value]int64{v: 1}} }
	if depth > 12 {
		return atom()
	}
	switch x := v.(type) {
	case *ssa.Const:
		if x.Value != nil && x.Value.Kind() == constant.Int {
			if n, ok := constant.Int64Val(x.Value); ok {
				return ssaLinForm{c: map[ssa.Value]int64{}, k: n}
			}
		}
	case *ssa.Convert:
		if isInteger(x.X.Type()) && isInteger(x.Type()) {
			return ssaLin(x.X, depth+1)
		}
	case *ssa.ChangeType:
		return ssaLin(x.X, depth+1)
	case *ssa.BinOp:
		switch x.Op {
		case token.ADD, token.SUB:
			a, b := ssaLin(x.X, depth+1), ssaLin(x.Y, depth+1)
			if x.Op == token.SUB {
				return a.plus(b, -1)
			}
			return a.plus(b, 1)
		case token.MUL:
			a, b := ssaLin(x.X, depth+1), ssaLin(x.Y, depth+1)
			if len(a.c) == 0 {
				return b.scale(a.k)
			}
			if len(b.c) == 0 {
				return a.scale(b.k)
			}
		}
	}
	return atom()
}

func (a ssaLinForm) plus(b ssaLinForm, sign int64) ssaLinForm {
	out := ssaLinForm{c: map[ssa.Value]int64{}, k: a.k + sign*b.k}
	for v, n := range a.c {
		out.c[v] += n
	}
	for v, n := range b.c {
		out.c[v] += sign * n
	}
	for v, n := range out.c {
		if n == 0 {
			delete(out.c, v)
		}
	}
	return out
}

func (a ssaLinForm) scale(n int64) ssaLinForm {
	out := ssaLinForm{c: map[ssa.Value]int64{}, k: a.k * n}
	if n != 0 {
		for v, m := range a.c {
			out.c[v] = m * n
		}
	}
	return out
}

func (a ssaLinForm) equal(b ssaLinForm) bool {
	d := a.plus(b, -1)
	return len(d.c) == 0 && d.k == 0
}

func (a ssaLinForm) String() string {
	var ps []string
	for v, n := range a.c {
		ps = append(ps, fmt.Sprintf("%+d·%s", n, v.Name()))
	}
	sort.Strings(ps)
	s := ""
	for _, p := range ps {
		s += p + " "
	}
	return fmt.Sprintf("%s%+d", s, a.k)
}

// checkGapAlignment: a textual address with an elided run ("::") is expanded
// into a fixed array by two sibling pieces of arithmetic — the loop that fills
// the run with zeros from the position of the gap up to some end, and the
// shifted slot in which a later group is stored. They must be adjacent: the
// group right behind the gap lands exactly where the zero-filled range ends.
// With the gap at i the range ends (exclusively) at B(i), and the group at
// position p is stored at E(p); the rule is B(i) − i == E(p) − p + 1 as linear
// forms (so that E(i+1) == B(i)). Off by one, the groups behind the gap are
// read from the neighbouring slot and the class tests look at other groups
// than the ones written.
func checkGapAlignment(cx *CheckCtx, fn *ssa.Function) int {
	w := cx.W
	rootArr := func(v ssa.Value) ssa.Value {
		for {
			switch x := v.(type) {
			case *ssa.Slice:
				v = x.X
				continue
			case *ssa.Alloc:
				if pt, ok := x.Type().Underlying().(*types.Pointer); ok {
					if at, ok := pt.Elem().Underlying().(*types.Array); ok && isInteger(at.Elem()) {
						return x
					}
				}
			}
			return nil
		}
	}
	type fill struct {
		arr        ssa.Value
		start, end ssaLinForm
		pos        token.Pos
	}
	type shifted struct {
		arr        ssa.Value
		plain, alt ssaLinForm
		pos        token.Pos
	}
	var fills []fill
	var shifts []shifted
	for _, b := range fn.Blocks {
		for _, ins := range b.Instrs {
			st, ok := ins.(*ssa.Store)
			if !ok {
				continue
			}
			ia, ok := st.Addr.(*ssa.IndexAddr)
			if !ok {
				continue
			}
			arr := rootArr(ia.X)
			phi, isPhi := ia.Index.(*ssa.Phi)
			if arr == nil || !isPhi {
				continue
			}
			c, isConst := st.Val.(*ssa.Const)
			hdr := phi.Block()
			isLoopVar := false
			for _, p := range hdr.Preds {
				if hdr.Dominates(p) {
					isLoopVar = true
				}
			}
			switch {
			case isConst && c.Value != nil && constant.Sign(c.Value) == 0 && isLoopVar && len(phi.Edges) == 2:
				// zero fill: for j := start; j < end; j++
				var start ssa.Value
				for i, p := range hdr.Preds {
					if !hdr.Dominates(p) {
						start = phi.Edges[i]
					}
				}
				ifi, isIf := hdr.Instrs[len(hdr.Instrs)-1].(*ssa.If)
				if start == nil || !isIf {
					continue
				}
				// a fill loop stores the zero in every one of its iterations (a conditional `nums[i] = 0`
				// inside the loop over the groups is not one)
				every := true
				for _, p := range hdr.Preds {
					if hdr.Dominates(p) && !b.Dominates(p) {
						every = false
					}
				}
				if !every {
					continue
				}
				cond, isBin := ifi.Cond.(*ssa.BinOp)
				if !isBin {
					continue
				}
				var end ssaLinForm
				one := ssaLinForm{c: map[ssa.Value]int64{}, k: 1}
				switch {
				case cond.Op == token.LSS && cond.X == ssa.Value(phi):
					end = ssaLin(cond.Y, 0)
				case cond.Op == token.LEQ && cond.X == ssa.Value(phi):
					end = ssaLin(cond.Y, 0).plus(one, 1)
				case cond.Op == token.GTR && cond.Y == ssa.Value(phi):
					end = ssaLin(cond.X, 0)
				case cond.Op == token.GEQ && cond.Y == ssa.Value(phi):
					end = ssaLin(cond.X, 0).plus(one, 1)
				default:
					continue
				}
				fills = append(fills, fill{arr, ssaLin(start, 0), end, st.Pos()})
			case !isConst && !isLoopVar && len(phi.Edges) == 2:
				// idx := p; if gap { idx = E(p) }: one edge is contained in the other as its position
				a0, a1 := ssaLin(phi.Edges[0], 0), ssaLin(phi.Edges[1], 0)
				plain, alt := a0, a1
				if len(a0.c) > len(a1.c) {
					plain, alt = a1, a0
				}
				if len(plain.c) == 1 && len(alt.c) > 1 {
					shifts = append(shifts, shifted{arr, plain, alt, st.Pos()})
				}
			}
		}
	}
	if os.Getenv("DBGGAP") != "" {
		fmt.Println("GAP", fn.Name(), "fills", len(fills), "shifts", len(shifts))
	}
	n := 0
	for _, f := range fills {
		for _, s := range shifts {
			if f.arr != s.arr {
				continue
			}
			n++
			one := ssaLinForm{c: map[ssa.Value]int64{}, k: 1}
			lhs := f.end.plus(f.start, -1)
			rhs := s.alt.plus(s.plain, -1).plus(one, 1)
			cx.decide(lhs.equal(rhs), "gap-alignment", "contracts/nns."+fn.Name(), "the group right behind the elided run lands where the zero-filled range ends ("+lhs.String()+" slots)", fmt.Sprintf("%s fills the elided run with zeros over end − position = %s slots, but stores a later group shifted so that the one right behind the gap lands %s slots further: the two disagree, the groups behind \"::\" are written one slot off and the address class is decided on other groups than the ones given", fn.Name(), lhs.String(), rhs.String()), w.pos(s.pos))
		}
	}
	return n
}
