package main

// C15 — shipped executables, manifests and RPC bindings correspond to the
// sources (DESIGN §5 C15). D1/D2 are decided by bin/c15check (the pinned
// compiler used as a library); D3–D5 here.

import (
	"encoding/json"
	"fmt"
	"go/ast"
	"go/constant"
	"go/types"
	"os"
	"os/exec"
	"path/filepath"
	"sort"
	"strconv"
	"strings"

	"golang.org/x/tools/go/ssa"
)

func init() {
	register(&Check{
		ID:        "C15",
		Level:     "translation_validation",
		Technique: "translation validation: recompile every contract with the pinned neo-go compiler linked as a library and compare NEF, manifest and generated RPC binding byte-for-byte with the committed files; plus static checks of the embed set, deployment order and version constant",
		Explanation: "D1: for each of the contracts, compile(working tree, config.yml) with the pinned compiler equals the committed contract.nef byte-for-byte (header, method tokens, every instruction, checksum) and the committed manifest.json byte-for-byte (ABI, safe flags, events, permissions). " +
			"D2: generate-rpcwrapper(manifest, bindings config) equals the committed rpc/<c>/rpcbinding.go. D3: the go:embed pattern and the fsContracts/mainContracts lists cover exactly the contract directories. " +
			"D4: the names a contract resolves on its fresh-deploy path give dependency edges; fsContracts is a topological order of them and equals the stage order of deploy.Deploy. D5: every contract's Version returns the constant that VERSION encodes.",
		NotCovered:  "that the pinned compiler itself is correct (trusted); run-time equivalence is implied by byte equality, not separately tested.",
		Assumptions: []string{"the compiler in the module cache linked into bin/c15check is the pinned neo-go release (its version is compared with NEOGOORIGMOD of the Makefile)", "the compiler is deterministic (observed: identical output across runs)"},
		Run:         runC15,
	})
}

type c15Out struct {
	Compiler     string       `json:"compiler"`
	Pin          string       `json:"pin"`
	Programs     int          `json:"programs"`
	Instructions int          `json:"instructions"`
	Methods      int          `json:"methods"`
	Bindings     int          `json:"bindings"`
	Obligations  []Obligation `json:"obligations"`
	Samples      []string     `json:"samples"`
}

func runC15(cx *CheckCtx) {
	w := cx.W
	// ---- D1/D2: engine V
	bin := filepath.Join(verifDir(), "bin", "c15check")
	cmd := exec.Command(bin, "-repo", w.Repo)
	cmd.Stderr = os.Stderr
	outb, err := cmd.Output()
	var o c15Out
	if err != nil {
		cx.undecided("engine", "c15check", "bin/c15check failed: "+err.Error(), "")
	} else if err := json.Unmarshal(outb, &o); err != nil {
		cx.undecided("engine", "c15check", "bin/c15check output unreadable: "+err.Error(), "")
	} else {
		for _, ob := range o.Obligations {
			cx.add(ob.Rule, ob.Key, ob.Outcome, ob.Detail, ob.Pos)
			if ob.Rule != "compiler-pin" {
				cx.count("artifacts_compared", 1)
			}
		}
		cx.count("programs", o.Programs)
		cx.count("instructions", o.Instructions)
		cx.count("abi_methods", o.Methods)
		cx.count("bindings", o.Bindings)
		for _, s := range o.Samples {
			cx.sample(s)
		}
	}
	cx.floor("programs", 11)
	cx.floor("artifacts_compared", 33)

	// ---- D3: embed pattern and directory lists
	cpkg := w.ByPath[modPrefix+"contracts"]
	var dirs []string
	for _, n := range w.CNames {
		dirs = append(dirs, n)
	}
	sort.Strings(dirs)
	if cpkg == nil {
		cx.undecided("embed-set", "contracts/contracts.go", "package contracts not loaded", "")
	} else {
		pat := ""
		for _, f := range cpkg.Syntax {
			for _, d := range f.Decls {
				gd, ok := d.(*ast.GenDecl)
				if !ok {
					continue
				}
				check := func(doc *ast.CommentGroup) {
					if doc == nil {
						return
					}
					for _, c := range doc.List {
						if strings.HasPrefix(c.Text, "//go:embed ") {
							pat += strings.TrimPrefix(c.Text, "//go:embed ") + " "
						}
					}
				}
				check(gd.Doc)
				for _, s := range gd.Specs {
					if vs, ok := s.(*ast.ValueSpec); ok {
						check(vs.Doc)
					}
				}
			}
		}
		fields := strings.Fields(pat)
		sort.Strings(fields)
		got := strings.Join(fields, " ")
		cx.decide(got == "*/contract.nef */manifest.json", "embed-set", "contracts/contracts.go/go:embed",
			"embed patterns are */contract.nef */manifest.json", "embed patterns are "+strconv.Quote(got)+", expected every contract's NEF and manifest (*/contract.nef */manifest.json)", "contracts/contracts.go")
	}
	fsList := globalStringList(w, modPrefix+"contracts", "fsContracts")
	mainList := globalStringList(w, modPrefix+"contracts", "mainContracts")
	if fsList == nil || mainList == nil {
		cx.undecided("embed-set", "contracts/contracts.go/lists", "fsContracts/mainContracts are not constant string lists any more", "contracts/contracts.go")
	} else {
		all := append(append([]string{}, fsList...), mainList...)
		sort.Strings(all)
		cx.decide(strings.Join(all, ",") == strings.Join(dirs, ","), "embed-set", "contracts/contracts.go/lists",
			fmt.Sprintf("fsContracts ∪ mainContracts = the %d contract directories", len(dirs)),
			fmt.Sprintf("fsContracts ∪ mainContracts = %v, contract directories = %v", all, dirs), "contracts/contracts.go")
	}

	// ---- D4: dependency order
	if fsList != nil {
		idx := map[string]int{}
		for i, n := range fsList {
			idx[n] = i
		}
		nEdges := 0
		for _, name := range fsList {
			c := w.Contracts[name]
			if c == nil || c.Deploy == nil {
				continue
			}
			deps := freshDeployDeps(cx, c)
			var ds []string
			for d := range deps {
				ds = append(ds, d)
			}
			sort.Strings(ds)
			for _, d := range ds {
				nEdges++
				di, ok := idx[d]
				switch {
				case !ok:
					cx.violated("deploy-order", "contracts.fsContracts/"+name+"->"+d, fmt.Sprintf("%s resolves %q when freshly deployed (%s) but %q is not in fsContracts", name, d, deps[d], d), deps[d])
				case di >= idx[name]:
					cx.violated("deploy-order", "contracts.fsContracts/"+name+"->"+d, fmt.Sprintf("%s resolves %q when freshly deployed (%s) but is listed before it in fsContracts (%d <= %d): the deployment would fault", name, d, deps[d], idx[name], di), deps[d])
				default:
					cx.holds("deploy-order", "contracts.fsContracts/"+name+"->"+d, fmt.Sprintf("%s (position %d) needs %s (position %d): %s", name, idx[name], d, di, deps[d]))
				}
			}
		}
		cx.count("dependency_edges", nEdges)
		cx.floor("dependency_edges", 8)
		// stage order of deploy.Deploy
		stages := deployStageOrder(cx)
		if stages == nil {
			cx.undecided("deploy-order", "deploy.Deploy/stages", "cannot read the stage order of deploy.Deploy (syncNeoFSContract calls with constant domain names)", "deploy/deploy.go")
		} else {
			want := []string{}
			for _, n := range fsList {
				if n != "nns" && n != "alphabet" {
					want = append(want, n)
				}
			}
			cx.decide(strings.Join(stages, ",") == strings.Join(want, ","), "deploy-order", "deploy.Deploy/stages",
				"stage order of deploy.Deploy = fsContracts order: "+strings.Join(stages, ","),
				fmt.Sprintf("deploy.Deploy synchronises contracts in the order %v, contracts.fsContracts lists %v", stages, want), "deploy/deploy.go")
		}
	}

	// ---- D5: Version constant
	vraw, err := os.ReadFile(filepath.Join(w.Repo, "VERSION"))
	want := int64(-1)
	if err == nil {
		v := strings.TrimPrefix(strings.TrimSpace(string(vraw)), "v")
		ps := strings.Split(v, ".")
		if len(ps) == 3 {
			a, e1 := strconv.Atoi(ps[0])
			b, e2 := strconv.Atoi(ps[1])
			c, e3 := strconv.Atoi(ps[2])
			if e1 == nil && e2 == nil && e3 == nil {
				want = int64(a*1_000_000 + b*1_000 + c)
			}
		}
	}
	if want < 0 {
		cx.undecided("version-constant", "VERSION", "VERSION file is not of the form vMAJOR.MINOR.PATCH", "VERSION")
	}
	for _, n := range w.CNames {
		c := w.Contracts[n]
		m := c.Method("Version")
		if m == nil {
			cx.violated("version-constant", "contracts/"+n+".Version", "contract has no Version method", "contracts/"+n)
			continue
		}
		tb := newTermBuilder(w, m.Fn)
		ok := true
		got := ""
		for _, b := range m.Fn.Blocks {
			if r, isR := b.Instrs[len(b.Instrs)-1].(*ssa.Return); isR && len(r.Results) == 1 {
				t := tb.Term(tb.root, r.Results[0])
				v, isC := t.IntConst()
				got = t.pretty()
				if !isC || v != want {
					ok = false
				}
			}
		}
		cx.count("version_methods", 1)
		if want >= 0 {
			cx.decide(ok, "version-constant", "contracts/"+n+".Version", fmt.Sprintf("returns %d = VERSION", want),
				fmt.Sprintf("returns %s, VERSION encodes %d", got, want), w.pos(m.Fn.Pos()))
		}
	}
	cx.floor("version_methods", 11)
}

// globalStringList evaluates a package-level []string literal.
func globalStringList(w *World, pkgPath, name string) []string {
	p := w.ByPath[pkgPath]
	if p == nil {
		return nil
	}
	sp := w.Prog.Package(p.Types)
	if sp == nil {
		return nil
	}
	g, ok := sp.Members[name].(*ssa.Global)
	if !ok {
		return nil
	}
	tb := newTermBuilder(w, sp.Func("init"))
	t := tb.globalVal(g)
	if t.Op != "arr" {
		return nil
	}
	var out []string
	for _, a := range t.Args {
		s, ok := a.BytesConst()
		if !ok {
			return nil
		}
		out = append(out, s)
	}
	return out
}

// freshDeployDeps: contracts resolved by name on the isUpdate=false path of _deploy.
func freshDeployDeps(cx *CheckCtx, c *Contract) map[string]string {
	deps := map[string]string{}
	a := cx.analyze(&Query{Name: "fresh-deploy", Root: c.Deploy, Consts: map[int]constant.Value{1: constant.MakeBool(false)}})
	for _, s := range a.Sites(func(s *Site) bool { return true }) {
		switch s.Callee {
		case "common.ResolveFSContractWithNNS":
			if len(s.Args) >= 2 {
				if n, ok := s.Args[1].BytesConst(); ok {
					deps[n] = s.Where(cx.W)
				}
			}
			deps["nns"] = s.Where(cx.W)
		case "common.InferNNSHash":
			deps["nns"] = s.Where(cx.W)
		case "common.SubscribeForNewEpoch":
			deps["netmap"] = s.Where(cx.W)
		}
	}
	delete(deps, c.Name)
	return deps
}

// deployStageOrder: constant domain names passed to syncNeoFSContract by
// deploy.Deploy in program order, mapped to contract directory names.
func deployStageOrder(cx *CheckCtx) []string {
	w := cx.W
	p := w.ByPath[modPrefix+"deploy"]
	if p == nil {
		return nil
	}
	sp := w.Prog.Package(p.Types)
	if sp == nil {
		return nil
	}
	fn := sp.Func("Deploy")
	if fn == nil {
		return nil
	}
	tb := newTermBuilder(w, fn)
	type st struct {
		pos  int
		name string
	}
	var stages []st
	syncFn := mostCalledInPackage(fn, 8)
	if syncFn == nil {
		return nil
	}
	// the domain field: the string field of the stage parameter that is a distinct constant at every call
	type cand struct {
		vals map[string]bool
		st   []st
	}
	cands := map[string]*cand{}
	for _, b := range fn.Blocks {
		for _, ins := range b.Instrs {
			call, ok := ins.(*ssa.Call)
			if !ok {
				continue
			}
			cal := call.Common().StaticCallee()
			if cal != syncFn || len(call.Common().Args) < 2 {
				continue
			}
			t := tb.Term(tb.root, call.Common().Args[1])
			stt, ok := call.Common().Args[1].Type().Underlying().(*types.Struct)
			if !ok {
				continue
			}
			for i := 0; i < stt.NumFields(); i++ {
				if bt, ok := stt.Field(i).Type().Underlying().(*types.Basic); !ok || bt.Kind() != types.String {
					continue
				}
				if s, ok := tb.field(t, stt.Field(i).Name()).BytesConst(); ok {
					c := cands[stt.Field(i).Name()]
					if c == nil {
						c = &cand{vals: map[string]bool{}}
						cands[stt.Field(i).Name()] = c
					}
					c.vals[s] = true
					c.st = append(c.st, st{int(call.Pos()), s})
				}
			}
		}
	}
	for _, c := range cands {
		if len(c.vals) == len(c.st) && len(c.st) > len(stages) {
			stages = c.st
		}
	}
	sort.Slice(stages, func(i, j int) bool { return stages[i].pos < stages[j].pos })
	if len(stages) == 0 {
		return nil
	}
	var out []string
	for _, s := range stages {
		out = append(out, s.name)
	}
	return out
}

// mostCalledInPackage: the function of fn's own package yielding a contract
// address that fn calls most often, if it calls it at least min times (the
// per-contract stage of Deploy).
func mostCalledInPackage(fn *ssa.Function, min int) *ssa.Function {
	cnt := map[*ssa.Function]int{}
	for _, b := range fn.Blocks {
		for _, ins := range b.Instrs {
			if c, ok := ins.(*ssa.Call); ok {
				if cal := c.Common().StaticCallee(); cal != nil && cal.Pkg == fn.Pkg && cal.Pkg != nil && firstResultIs(cal, "util.Uint160") {
					cnt[cal]++
				}
			}
		}
	}
	var best *ssa.Function
	for f, n := range cnt {
		if n >= min && (best == nil || n > cnt[best] || n == cnt[best] && f.Name() < best.Name()) {
			best = f
		}
	}
	return best
}
