package main

import (
	"fmt"
	"go/types"
	"os"
	"sort"
	"strings"
)

// structLayoutOf: the declared struct types of the contract packages and of
// common, as "pkg.Type" → ordered (field name, field type) pairs.
func structLayoutOf(w *World) map[string][][2]string {
	out := map[string][][2]string{}
	for _, p := range w.Pkgs {
		rel := strings.TrimPrefix(p.PkgPath, modPrefix)
		if !(strings.HasPrefix(rel, "contracts/") || rel == "common") {
			continue
		}
		sc := p.Types.Scope()
		for _, n := range sc.Names() {
			tn, ok := sc.Lookup(n).(*types.TypeName)
			if !ok {
				continue
			}
			st, ok := tn.Type().Underlying().(*types.Struct)
			if !ok || st.NumFields() == 0 {
				continue
			}
			var fs [][2]string
			for i := 0; i < st.NumFields(); i++ {
				f := st.Field(i)
				fs = append(fs, [2]string{f.Name(), types.TypeString(f.Type(), func(q *types.Package) string { return q.Name() })})
			}
			out[rel+"."+n] = fs
		}
	}
	return out
}

// dumpLayouts prints the reference table (development aid: `nfsverif layouts`).
func dumpLayouts(w *World) {
	m := structLayoutOf(w)
	var ks []string
	for k := range m {
		ks = append(ks, k)
	}
	sort.Strings(ks)
	fmt.Println("var storedLayouts = map[string][][2]string{")
	for _, k := range ks {
		fmt.Printf("\t%q: {", k)
		for i, f := range m[k] {
			if i > 0 {
				fmt.Print(", ")
			}
			fmt.Printf("{%q, %q}", f[0], f[1])
		}
		fmt.Println("},")
	}
	fmt.Println("}")
	_ = os.Stdout
}

// checkStoredLayouts: a struct is stored as the *sequence* of its fields
// (std.Serialize of a VM struct); the deployed contracts have written their
// records in the order recorded below (the reference tree — the layout of the
// data that an upgrade finds in storage, App. B). Field names do not matter to
// the VM, positions and types do. For every recorded type that still exists:
// the same names in another order is a reordering (old records are read with
// their fields exchanged — a lock's Until read as its Parent, a ballot's
// voters read as its height); a changed type at a position, or a field
// inserted before the end, re-interprets old records as well. Renaming fields
// in place and appending fields at the end are accepted.
func checkStoredLayouts(cx *CheckCtx, pkgs ...string) {
	w := cx.W
	cur := structLayoutOf(w)
	var ks []string
	for k := range storedLayouts {
		ks = append(ks, k)
	}
	sort.Strings(ks)
	n := 0
	for _, k := range ks {
		inScope := len(pkgs) == 0
		for _, p := range pkgs {
			if strings.HasPrefix(k, p+".") {
				inScope = true
			}
		}
		if !inScope {
			continue
		}
		ref := storedLayouts[k]
		now, ok := cur[k]
		if !ok {
			continue // the type is gone or renamed: nothing recorded can be compared
		}
		n++
		why := ""
		names := func(fs [][2]string) string {
			var s []string
			for _, f := range fs {
				s = append(s, f[0])
			}
			sort.Strings(s)
			return strings.Join(s, ",")
		}
		switch {
		case len(now) < len(ref):
			why = fmt.Sprintf("it has %d fields, the stored records have %d", len(now), len(ref))
		case names(now[:len(ref)]) == names(ref):
			for i := range ref {
				if now[i][0] != ref[i][0] {
					why = fmt.Sprintf("field %d is %s, the stored records have %s there (the fields were reordered)", i, now[i][0], ref[i][0])
					break
				}
			}
		}
		if why == "" {
			for i := range ref {
				if now[i][1] != ref[i][1] {
					why = fmt.Sprintf("field %d has type %s, the stored records have %s there", i, now[i][1], ref[i][1])
					break
				}
			}
		}
		cx.decide(why == "", "stored-layout", k, "the fields stand in the order (and have the types) of the records already in storage", "the struct "+k+" no longer has the layout of the records the deployed contracts have stored: "+why+" — an upgrade reads every old record with its fields re-interpreted (data is not preserved; methods fault or act on wrong values)", "")
	}
	cx.count("stored_layout_types", n)
}
