package main

import (
	"fmt"
	"go/token"
	"os"

	"golang.org/x/tools/go/ssa"
)

// loopVarOf: k is the phi of a counting loop: its start term, its constant
// step and the condition under which the body is entered (the header's test).
func loopVarOf(tb *TermBuilder, k *Term) (start *Term, step int64, cond *Term, ok bool) {
	if k == nil || k.Op != "phi" {
		return nil, 0, nil, false
	}
	in := tb.insts[k.Inst]
	if in.ins == nil {
		return nil, 0, nil, false
	}
	phi, isPhi := in.ins.(*ssa.Phi)
	if !isPhi {
		return nil, 0, nil, false
	}
	for j, e := range phi.Edges {
		pred := phi.Block().Preds[j]
		t := tb.Term(in.ctx, e)
		if phi.Block().Dominates(pred) {
			// the way round: k ± constant
			d := tb.binop(token.SUB, t, k, intType)
			n, isC := d.IntConst()
			if !isC || n == 0 || step != 0 && step != n {
				return nil, 0, nil, false
			}
			step = n
			continue
		}
		if start != nil && start != t {
			return nil, 0, nil, false
		}
		start = t
	}
	if os.Getenv("DBGRING") != "" {
		fmt.Println("loopVarOf", k, "start", start, "step", step)
	}
	if start == nil || step == 0 || start.contains(func(x *Term) bool { return x == k }) {
		return nil, 0, nil, false
	}
	hdr := in.ins.Block()
	ifi, isIf := hdr.Instrs[len(hdr.Instrs)-1].(*ssa.If)
	if !isIf {
		return nil, 0, nil, false
	}
	return start, step, tb.Term(in.ctx, ifi.Cond), true
}

// boundOf: the loop condition over k as an inclusive bound: k ≤ hi (up) or
// lo ≤ k (down), whatever side of the comparison k stands on and whatever
// constant is added to it (`k+1 <= n`, `n > k`, `k-lo >= 0`).
func boundOf(tb *TermBuilder, k, cond *Term, up bool) *Term {
	if cond == nil || cond.Op != "bin" || len(cond.Args) != 2 || (cond.Name != "<" && cond.Name != "<=") {
		return nil
	}
	has := func(t *Term) bool { return t.contains(func(x *Term) bool { return x == k }) }
	// L < R ≡ 0 < D, L <= R ≡ 0 ≤ D with D = R − L
	d := tb.binop(token.SUB, cond.Args[1], cond.Args[0], intType)
	one := tb.constInt(1)
	if rest := tb.binop(token.ADD, d, k, intType); !has(rest) {
		// D = rest − k: k < rest | k ≤ rest
		if !up {
			return nil
		}
		if cond.Name == "<" {
			return tb.binop(token.SUB, rest, one, intType)
		}
		return rest
	}
	if rest := tb.binop(token.SUB, d, k, intType); !has(rest) {
		// D = k + rest: k > −rest | k ≥ −rest
		if up {
			return nil
		}
		neg := tb.binop(token.SUB, tb.constInt(0), rest, intType)
		if cond.Name == "<" {
			return tb.binop(token.ADD, neg, one, intType)
		}
		return neg
	}
	return nil
}

// checkRingMove: resizing the snapshot ring in place. With E the current slot,
// K the old and N the new size, the code's own diagrams (and the statement:
// the most recent min(K,N) maps survive unchanged, nothing older is left
// behind) fix, as sets of slots,
//
//	grow   (K < N): slot t := slot t−(N−K) for t = N−1 … E+1+(N−K), downwards; slots E+1 … min(E+1+(N−K), K)−1 deleted
//	shrink (N < K), E < N: slot t := slot t+(K−N) for t = E+1 … N−1, upwards; slots N … K−1 deleted
//	shrink (N < K), E ≥ N: slot t := slot t+(E−N+1) for t = 0 … N−1, upwards; current := N−1; slots N … K−1 deleted
//
// All comparisons are made on canonical linear terms (any re-spelling of the
// same arithmetic is the same term) and on the facts of the branch conditions.
func checkRingMove(cx *CheckCtx, a *Analysis, m *Method, count, old, id *Term, curPut *Site) {
	w, tb := cx.W, a.tb
	key := "netmap.UpdateSnapshotCount"
	one := tb.constInt(1)
	sub := func(x, y *Term) *Term { return tb.binop(token.SUB, x, y, intType) }
	add := func(x, y *Term) *Term { return tb.binop(token.ADD, x, y, intType) }
	slotOf := func(k *Term) *Term {
		ps := keyParts(k)
		if len(ps) != 2 || keyFamily(k) != "snapshot_" {
			return nil
		}
		t := ps[1]
		for t.Op == "byte" || t.Op == "conv" {
			t = t.Args[0]
		}
		return t
	}
	type move struct {
		s        *Site
		dst, src *Term
	}
	var moves []move
	var del *Site
	for _, s := range a.RealEffects() {
		switch {
		case s.Effect == "put" && keyFamily(s.Args[1]) == "snapshot_" && s.Args[2].Op == "read":
			if d, sr := slotOf(s.Args[1]), slotOf(s.Args[2].Args[0]); d != nil && sr != nil {
				moves = append(moves, move{s, d, sr})
			}
		case s.Effect == "delete" && keyFamily(s.Args[1]) == "snapshot_":
			del = s
		}
	}
	var grow, shrink *move
	ltOldNew := a.litLt(old, count)
	diff := sub(count, old)
	x := add(add(id, one), diff)
	ax := a.orderAxioms([2]*Term{old, count}, [2]*Term{id, count}, [2]*Term{old, x})
	var eqRoots []*Term // the terms whose equalities the rules ask about (chains through helper parameters)
	axFor := func(st *CNF) [][]int32 { return append(append([][]int32{}, ax...), a.eqAxioms(st, eqRoots...)...) }
	ent := func(st *CNF, lits ...int32) bool { return a.entails(st, axFor(st), lits...) }
	for i := range moves {
		mv := &moves[i]
		switch {
		case ent(mv.s.In, ltOldNew):
			grow = mv
		case ent(mv.s.In, -ltOldNew):
			shrink = mv
		}
	}
	if grow == nil || shrink == nil || del == nil || len(moves) != 2 {
		cx.violated("ring-move", key, fmt.Sprintf("UpdateSnapshotCount no longer has one slot move under 'old < new', one under 'new < old' and one slot delete (found %d moves)", len(moves)), w.pos(m.Fn.Pos()))
		return
	}
	// ---- grow
	{
		var why []string
		if sub(grow.dst, grow.src) != diff {
			why = append(why, "a slot is moved by "+sub(grow.dst, grow.src).pretty()+" instead of new − old")
		}
		start, step, cond, ok := loopVarOf(tb, grow.dst)
		if !ok {
			why = append(why, "the moved slot is not the variable of a counting loop")
		} else {
			if step != -1 || start != sub(count, one) {
				why = append(why, fmt.Sprintf("the loop starts at %s with step %d instead of new−1 downwards (a move upwards overwrites slots that are still to be moved)", start.pretty(), step))
			}
			lo := boundOf(tb, grow.dst, cond, false)
			want := add(add(id, one), diff)
			if lo == nil || a.Canon(grow.s.In, lo) != a.Canon(grow.s.In, want) && lo != want {
				got := "?"
				if lo != nil {
					got = lo.pretty()
				}
				why = append(why, "the lowest target slot is "+got+" instead of current+1+(new−old): the slot after the current one is the oldest map — one more move copies the current map into a freed slot (it reappears as an old epoch's), one less loses the oldest retained map")
			}
		}
		cx.decide(len(why) == 0, "ring-move", key+"/grow", "slot t := slot t−(new−old) for t = new−1 … current+1+(new−old), downwards", "growing the ring does not move exactly the tail behind the current slot: "+joinWhy(why), grow.s.Where(w))
	}
	// ---- shrink
	{
		var why []string
		st := shrink.s.In
		ltIdNew := a.litLt(id, count)
		stepT := sub(shrink.src, shrink.dst)
		start, step, cond, ok := loopVarOf(tb, shrink.dst)
		eqRoots = []*Term{start, stepT}
		if !ok {
			why = append(why, "the moved slot is not the variable of a counting loop")
		} else {
			if step != 1 {
				why = append(why, "the loop does not go upwards by one (a move downwards overwrites slots that are still to be moved)")
			}
			if hi := boundOf(tb, shrink.dst, cond, true); hi != sub(count, one) {
				why = append(why, "the highest target slot is not new−1")
			}
			// current < new: the tail behind the current slot moves down by old − new
			if !(start == add(id, one) || ent(st, -ltIdNew, a.eqLit(start, add(id, one)))) {
				why = append(why, "with current < new the first target slot is not current+1")
			}
			if !(stepT == sub(old, count) && ent(st, ltIdNew) || ent(st, -ltIdNew, a.eqLit(stepT, sub(old, count)))) {
				why = append(why, "with current < new a slot is not taken from old−new slots further up")
			}
			// current ≥ new: the last new slots up to the current one move to the front
			z, isZ := start.IntConst()
			if !(isZ && z == 0 && ent(st, -ltIdNew) || ent(st, ltIdNew, a.litEqC(start, 0))) {
				why = append(why, "with current ≥ new the first target slot is not 0")
			}
			if !ent(st, ltIdNew, a.eqLit(stepT, add(sub(id, count), one))) {
				why = append(why, "with current ≥ new a slot is not taken from current−new+1 slots further up")
			}
			if curPut == nil || !ent(st, ltIdNew, a.eLit(curPut)) {
				why = append(why, "with current ≥ new the ring index is not rewritten before the slots are moved")
			}
		}
		cx.decide(len(why) == 0, "ring-move", key+"/shrink", "current < new: slot t := slot t+(old−new) for t = current+1 … new−1; current ≥ new: slot t := slot t+(current−new+1) for t = 0 … new−1 and current := new−1", "shrinking the ring does not keep exactly the most recent maps: "+joinWhy(why), shrink.s.Where(w))
	}
	// ---- every target slot is written: no iteration of a move loop goes round its Put (a move that is
	// skipped for an empty source leaves the target's old map in place — the slot keeps answering for an
	// epoch it no longer belongs to; an empty source cannot be stored, which makes such a resize fault and
	// change nothing, and that is the behaviour the statement allows)
	for _, mv := range []*move{grow, shrink} {
		ok, why := everyElement(a, mv.s, nil)
		dir := "grow"
		if mv == shrink {
			dir = "shrink"
		}
		cx.decide(ok, "ring-move", key+"/"+dir+"/every-slot", "every iteration of the move loop writes its target slot", "a target slot of the resize can be left as it was ("+why+"): its stale map stays readable as the snapshot of an epoch that has left the ring", mv.s.Where(w))
	}
	// ---- deleted slots
	{
		var why []string
		st := del.In
		k := slotOf(del.Args[1])
		start, step, cond, ok := loopVarOf(tb, k)
		if !ok || step != 1 {
			why = append(why, "the deleted slot is not the variable of a loop going upwards by one")
		} else {
			hi := boundOf(tb, k, cond, true)
			if hi == nil {
				why = append(why, "the loop has no upper bound on the slot")
			} else {
				end := add(hi, one) // exclusive
				eqRoots = []*Term{start, end}
				// shrink: new … old−1
				if !ent(st, ltOldNew, a.eqLit(start, count)) {
					why = append(why, "shrinking: the first deleted slot is not new")
				}
				if !ent(st, ltOldNew, a.eqLit(end, old)) {
					why = append(why, "shrinking: the last deleted slot is not old−1")
				}
				// grow: current+1 … min(current+1+(new−old), old)−1
				if !ent(st, -ltOldNew, a.eqLit(start, add(id, one))) {
					why = append(why, "growing: the first deleted slot is not current+1")
				}
				// the end is min(x, old), x = current+1+(new−old): it is one of the two, and each only when it is
				// the smaller one (the order is asymmetric: an axiom the fact engine does not know by itself)
				asym := axFor(st)
				if a.satisfiable(st, []int32{ltOldNew, -a.eqLit(end, x), -a.eqLit(end, old)}, asym) {
					why = append(why, "growing: the deleted range ends neither at current+1+(new−old) nor at the old size")
				}
				if a.satisfiable(st, []int32{ltOldNew, a.litLt(old, x), -a.eqLit(end, old)}, asym) {
					why = append(why, "growing: the deleted range does not stop at the old size when current+1+(new−old) lies beyond the old ring")
				}
				if a.satisfiable(st, []int32{ltOldNew, a.litLt(x, old), -a.eqLit(end, x)}, asym) {
					why = append(why, "growing: the deleted range does not stop at current+1+(new−old) when that lies inside the old ring (moved slots are deleted, or freed ones kept)")
				}
			}
		}
		cx.decide(len(why) == 0, "ring-move", key+"/freed", "grow: slots current+1 … min(current+1+(new−old), old)−1 are deleted; shrink: slots new … old−1", "the slots freed by the resize are not exactly the ones that hold no retained map: "+joinWhy(why)+" — a stale map stays readable as some epoch's snapshot, or a retained one is deleted", del.Where(w))
	}
}

func joinWhy(why []string) string {
	s := ""
	for i, x := range why {
		if i > 0 {
			s += "; "
		}
		s += x
	}
	return s
}
