package main

// Loader (DESIGN §3.1): type-checked packages + SSA of the whole module, the
// contract table (packages with a sibling config.yml) and their ABI methods.

import (
	"fmt"
	"go/token"
	"go/types"
	"os"
	"path/filepath"
	"sort"
	"strings"
	"unicode"

	"golang.org/x/tools/go/packages"
	"golang.org/x/tools/go/ssa"
	"golang.org/x/tools/go/ssa/ssautil"
	"gopkg.in/yaml.v3"
)

const modPath = "github.com/nspcc-dev/neofs-contract"
const modPrefix = modPath + "/"
const interopPrefix = "github.com/nspcc-dev/neo-go/pkg/interop"

type ContractConfig struct {
	Name        string            `yaml:"name"`
	SafeMethods []string          `yaml:"safemethods"`
	Overloads   map[string]string `yaml:"overloads"`
	Events      []struct {
		Name       string `yaml:"name"`
		Parameters []struct {
			Name string `yaml:"name"`
			Type string `yaml:"type"`
		} `yaml:"parameters"`
	} `yaml:"events"`
	Permissions []struct {
		Methods any `yaml:"methods"`
	} `yaml:"permissions"`
}

type Method struct {
	C       *Contract
	ABI     string // manifest name (after overloads), e.g. "put"
	GoName  string
	Fn      *ssa.Function
	NParams int
	Safe    bool
}

func (m *Method) String() string {
	return fmt.Sprintf("%s.%s/%d", m.C.Name, m.ABI, m.NParams)
}

type Contract struct {
	Name    string // directory name
	Dir     string
	Pkg     *packages.Package
	SSA     *ssa.Package
	Config  ContractConfig
	Methods []*Method
	Deploy  *ssa.Function
}

func (c *Contract) Method(goName string) *Method {
	for _, m := range c.Methods {
		if m.GoName == goName {
			return m
		}
	}
	return nil
}

type World struct {
	Repo      string
	Fset      *token.FileSet
	Pkgs      []*packages.Package
	ByPath    map[string]*packages.Package
	AllPkgs   map[string]*packages.Package
	Prog      *ssa.Program
	Contracts map[string]*Contract
	CNames    []string
	Common    *ssa.Package
	LoadErrs  []string
}

func setEnv() {
	for _, kv := range [][2]string{{"GOFLAGS", "-mod=mod"}, {"GOPROXY", "off"}, {"GOSUMDB", "off"}, {"GOTOOLCHAIN", "local"}} {
		os.Setenv(kv[0], kv[1])
	}
	os.Unsetenv("GOWORK")
}

func loadWorld(repo string) (*World, error) {
	setEnv()
	cfg := &packages.Config{Mode: packages.LoadAllSyntax, Dir: repo, Tests: false}
	pkgs, err := packages.Load(cfg, "./...")
	if err != nil {
		return nil, err
	}
	w := &World{Repo: repo, Pkgs: pkgs, ByPath: map[string]*packages.Package{}, Contracts: map[string]*Contract{}}
	if len(pkgs) == 0 {
		return nil, fmt.Errorf("no packages loaded from %s", repo)
	}
	w.Fset = pkgs[0].Fset
	w.AllPkgs = map[string]*packages.Package{}
	packages.Visit(pkgs, nil, func(p *packages.Package) {
		w.AllPkgs[p.PkgPath] = p
		if strings.HasPrefix(p.PkgPath, modPath) {
			for _, e := range p.Errors {
				w.LoadErrs = append(w.LoadErrs, e.Error())
			}
		}
	})
	prog, spkgs := ssautil.AllPackages(pkgs, ssa.InstantiateGenerics)
	prog.Build()
	w.Prog = prog
	for i, p := range pkgs {
		w.ByPath[p.PkgPath] = p
		if spkgs[i] == nil {
			continue
		}
		if p.PkgPath == modPrefix+"common" {
			w.Common = spkgs[i]
		}
		rel := strings.TrimPrefix(p.PkgPath, modPrefix)
		if !strings.HasPrefix(rel, "contracts/") || strings.Count(rel, "/") != 1 {
			continue
		}
		dir := filepath.Join(repo, rel)
		raw, err := os.ReadFile(filepath.Join(dir, "config.yml"))
		if err != nil {
			continue
		}
		c := &Contract{Name: filepath.Base(rel), Dir: dir, Pkg: p, SSA: spkgs[i]}
		if err := yaml.Unmarshal(raw, &c.Config); err != nil {
			w.LoadErrs = append(w.LoadErrs, fmt.Sprintf("%s/config.yml: %v", rel, err))
		}
		safe := map[string]bool{}
		for _, s := range c.Config.SafeMethods {
			safe[s] = true
		}
		var names []string
		for n := range spkgs[i].Members {
			names = append(names, n)
		}
		sort.Strings(names)
		for _, n := range names {
			f, ok := spkgs[i].Members[n].(*ssa.Function)
			if !ok || f.Blocks == nil {
				continue
			}
			if n == "_deploy" {
				c.Deploy = f
				continue
			}
			if !token.IsExported(n) || f.Signature.Recv() != nil {
				continue
			}
			abi := lowerFirst(n)
			if o, ok := c.Config.Overloads[abi]; ok {
				abi = o
			}
			c.Methods = append(c.Methods, &Method{C: c, ABI: abi, GoName: n, Fn: f, NParams: len(f.Params), Safe: safe[abi]})
		}
		w.Contracts[c.Name] = c
		w.CNames = append(w.CNames, c.Name)
	}
	sort.Strings(w.CNames)
	if len(w.Contracts) == 0 {
		return nil, fmt.Errorf("no contract packages (contracts/<c> with config.yml) found under %s", repo)
	}
	scanFixedWidth(w)
	return w, nil
}

func lowerFirst(s string) string {
	r := []rune(s)
	r[0] = unicode.ToLower(r[0])
	return string(r)
}

func (w *World) pos(p token.Pos) string {
	if !p.IsValid() {
		return "?"
	}
	q := w.Fset.Position(p)
	return fmt.Sprintf("%s:%d", strings.TrimPrefix(q.Filename, w.Repo+"/"), q.Line)
}

// fq gives a short fully-qualified name: "storage.Put", "common.CheckWitness",
// "contracts/balance.Token.transfer".
func fq(fn *ssa.Function) string {
	if fn == nil {
		return "?"
	}
	if fn.Pkg == nil {
		if o := fn.Origin(); o != nil && o != fn {
			return fq(o)
		}
		if fn.Parent() != nil {
			return fq(fn.Parent()) + "$" + fn.Name()
		}
		return fn.String()
	}
	p := fn.Pkg.Pkg.Path()
	p = strings.TrimPrefix(p, interopPrefix+"/")
	if p == interopPrefix {
		p = "interop"
	}
	p = strings.TrimPrefix(p, modPrefix)
	if fn.Parent() != nil {
		return fq(fn.Parent()) + "$" + fn.Name()
	}
	if recv := fn.Signature.Recv(); recv != nil {
		t := recv.Type()
		if pt, ok := t.(*types.Pointer); ok {
			t = pt.Elem()
		}
		return p + "." + types.TypeString(t, func(*types.Package) string { return "" }) + "." + fn.Name()
	}
	return p + "." + fn.Name()
}

func isInterop(fn *ssa.Function) bool {
	return fn != nil && fn.Pkg != nil && strings.HasPrefix(fn.Pkg.Pkg.Path(), interopPrefix)
}

// inlinable: the callee has a body inside the contract part of the module.
func inlinable(fn *ssa.Function) bool {
	if fn == nil || fn.Blocks == nil {
		return false
	}
	var pkg *ssa.Package = fn.Pkg
	if pkg == nil && fn.Parent() != nil {
		pkg = fn.Parent().Pkg
	}
	if pkg == nil {
		return false
	}
	p := pkg.Pkg.Path()
	return strings.HasPrefix(p, modPrefix+"contracts/") || strings.HasPrefix(p, modPrefix+"common")
}
