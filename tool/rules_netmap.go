package main

// C06, C07, C08 — the Netmap contract (DESIGN §5).

import (
	"fmt"
	"go/constant"
	"go/token"
	"go/types"
	"strings"

	"golang.org/x/tools/go/ssa"
)

const nmPkg = "contracts/netmap"

func init() {
	register(&Check{
		ID:        "C06",
		Level:     "other",
		Technique: "must-facts at every effect of NewEpoch (epoch guard), write-set exclusion, term checks of the published keys/values, loop-shape analysis of the subscriber fan-out and of the subscription de-duplication (membership loop dominates the write)",
		Explanation: "D1 every effect of NewEpoch is preceded by epochNum > stored epoch (and the Alphabet witness, C03); the epoch key is written with Param(epochNum) and has no other writer except the fresh deploy. D2 NewEpoch writes neither candidate family. " +
			"D3 publication: 'snapshot_'‖id receives the list built from the scan of 'candidate' filtered by State != Offline, 'p'‖BE4(epochNum)‖key → value for every item of the scan of '2', snapshotBlock = current height, exactly one NewEpoch(epochNum) notification on every path. " +
			"D4 fan-out: one contract.Call(hash, \"newEpoch\", All, epochNum) per item of the forward scan of 'e' (hash = key without the index byte), loop left only on exhaustion, no exception-catching frame; subscription keys are 'e'‖byte(index)‖hash so scan order is subscription order. " +
			"D5 SubscribeForNewEpoch writes only after the candidate contract was compared with every stored subscriber and found different (membership loop dominates the write), the index is the number of stored entries. M: the contract's own code faults only without the Alphabet witness or with epochNum ≤ the stored epoch (converse of the epoch guard); snapshot loader. R8: a fixed-width key encoder reverses the padded buffer, not the variable-length source (otherwise 1, 256, 65536 share a key). R10: no stored value the tick divides by can be written as 0 (shared with C08). R13 catching-frame: no function with a deferred recover that a method of the property's contracts can reach lies outside the who-may-catch table (container.deleteNNSRecords).",
		NotCovered: "equality of the published maps with a model after arbitrary histories; behaviour of subscribers.",
		Run:        runC06,
	})
	register(&Check{
		ID:        "C07",
		Level:     "other",
		Technique: "term agreement between witnessed key and storage key, must-facts at the stores (state guards), exit-fact equivalences (both representations touched together), dispatch coverage of the state enumeration",
		Explanation: "D1 the key under which a candidate is stored is the witnessed term (AddPeer: nodeInfo[2:35], AddNode: n.Key, UpdateState: publicKey) and both witnesses are required (C03). D2 the state stored on add is Online. " +
			"D3 every effect of updateCandidateState happens under state ∈ {Online, Offline, Maintenance} (= the declared enumeration), the default arm cannot return. D4 removeFromNetmap deletes 'candidate'‖k and '2'‖k with the same k on every path; updateNetmapState rewrites every representation that is present (exit facts: absent ∨ rewritten) as the stored record with only State replaced by the requested state, and cannot return normally with no write. " +
			"D5 exactly one UpdateStateSuccess(key, state) per successful update, AddPeerSuccess/AddNode exactly with their store, no other emitters. D0 every effect of AddPeer/AddPeerIR/AddNode/UpdateState/UpdateStateIR/DeleteNode is gated by the documented witnesses (the gate rule of C03). R6: every normal return of AddPeer/AddPeerIR/AddNode has stored the candidate. R9: no fault of DeleteNode/UpdateState* is decided on the presence of one candidate representation alone. S3: the legacy listing (NetmapCandidates) collects every scanned candidate record (collect-every; the accumulating append has a loop-carried base). The update/remove rules speak about sets of sites (a fast path may repeat a delete, a rewrite, the notification); UpdateStateSuccess is emitted only on behalf of the update/remove entry points. R13 catching-frame: no function with a deferred recover that a method of the property's contracts can reach lies outside the who-may-catch table (container.deleteNNSRecords).",
		NotCovered: "agreement with a reference model over operation histories; well-formedness of the node BLOB.",
		Run:        runC07,
	})
	register(&Check{
		ID:        "C08",
		Level:     "other",
		Technique: "divisor-non-zero rule over storage writers (must-facts at every writer of the count key), sibling agreement of the retention bounds read off the loop header as canonical linear terms, must-facts at the ring index computation",
		Explanation: "D1 NewEpoch and Snapshot compute '% stored snapshotCount'; every writer of that key stores a value established > 0 (so any accepted count leaves the contract able to tick). D2 NewEpoch keeps the per-epoch lists of epochs (e−N, e] (drops e−N under e > N); the drop loop of UpdateSnapshotCount covers exactly [cur−old+1, cur−new] (bounds read off the loop as linear terms over the stored epoch, the stored old count and the parameter). " +
			"D3 Snapshot establishes 0 ≤ diff < count before indexing the ring; ListNodesEpoch scans 'p'‖BE4(epoch) with the same fixed-width encoder that NewEpoch and dropNetmap use. D4 every normal path of UpdateSnapshotCount on which the window shrinks runs the drop loop (skip-edge rule); writer, reader and dropper of the per-epoch lists use one structurally identified fixed-width encoder. M: Snapshot reads slot (current − diff + count) % count and faults only for diff outside 0 … count−1; NewEpoch advances the ring index by one modulo count. R6 ring-move: a single resize moves and frees exactly the slots of the in-place algorithm — grow: slot t := slot t−(new−old) for t = new−1 … current+1+(new−old) downwards, slots current+1 … min(current+1+(new−old), old)−1 freed; shrink: slot t := slot t+(old−new) for t = current+1 … new−1 (current < new) or slot t := slot t+(current−new+1) for t = 0 … new−1 with current := new−1 (current ≥ new), slots new … old−1 freed — compared as canonical linear terms under the branch facts and the order axioms of the integers. R7: no iteration of a move loop goes round its Put (every target slot is written). R10: a fixed-width key encoder is total (no fault for any number). R13 catching-frame: no function with a deferred recover that a method of the property's contracts can reach lies outside the who-may-catch table (container.deleteNNSRecords).",
		NotCovered: "what the ring holds after sequences of resizes and ticks (modular positions over histories): a relation between run-time integers over time, not decidable by this family; the per-call slot sets of a single resize are decided (ring-move).",
		Run:        runC08,
	})
}

func nodeStateConsts(cx *CheckCtx) map[string]int64 {
	out := map[string]int64{}
	p := cx.W.ByPath[modPrefix+"contracts/netmap/nodestate"]
	if p == nil {
		return out
	}
	sc := p.Types.Scope()
	for _, n := range sc.Names() {
		if c, ok := sc.Lookup(n).(*types.Const); ok {
			if v, exact := constant.Int64Val(c.Val()); exact {
				out[n] = v
			}
		}
	}
	return out
}

func findSite(a *Analysis, prefix *Term) *Site {
	for _, s := range a.Sites(func(s *Site) bool { return s.Callee == "storage.Find" }) {
		if s.Args[1] == prefix {
			return s
		}
	}
	return nil
}

func runC06(cx *CheckCtx) {
	w := cx.W
	checkLoaders(cx, nmPkg)
	// "succeeds iff it is Alphabet-witnessed": the T-witness gates of the tick and of the subscription
	for _, name := range []string{"NewEpoch", "SubscribeForNewEpoch"} {
		if m := cx.method("netmap", name); m != nil {
			gateRule(cx, m)
		}
	}
	// … "succeeds iff Alphabet-witnessed, the epoch grows and no subscriber rejects": nothing else may make
	// a tick fault — in particular no stored value the tick divides by can be written as 0 (shared with C08)
	if nc := cx.contract("netmap"); nc != nil {
		checkStoredDivisors(cx, nc)
	}
	c := cx.contract("netmap")
	if c == nil {
		return
	}
	if m := cx.method("netmap", "NewEpoch"); m != nil {
		a := cx.run(m)
		tb := a.tb
		epoch := paramTerm(tb, m, "epochNum")
		effs := a.RealEffects()
		cx.count("newepoch_effects", len(effs))
		// D1: guard at every effect
		for _, s := range effs {
			ok := false
			for _, f := range a.unitFacts(s.In) {
				if f.kind == KLt && f.pos && f.B == epoch && f.A.Op == "read" {
					if k, _ := f.A.Args[0].BytesConst(); k == "snapshotEpoch" {
						ok = true
					}
				}
			}
			cx.decide(ok, "epoch-guard", "netmap.NewEpoch/"+siteConstruct(a, s), "stored epoch < epochNum established", "an effect of NewEpoch is reachable without epochNum > current epoch: a non-increasing tick would change state", s.Where(w))
		}
		// converse ("succeeds iff"): the contract's own code faults only without the Alphabet witness
		// or with epochNum ≤ the stored epoch (a subscriber's fault is the third documented reason and
		// is raised outside this code)
		{
			var ltLits []int32
			for id := int32(1); id < int32(len(a.lt.lits)); id++ {
				l := a.lt.lits[id]
				if l.Kind == KLt && l.B == epoch && l.A.Op == "read" {
					if k, _ := l.A.Args[0].BytesConst(); k == "snapshotEpoch" {
						ltLits = append(ltLits, -id)
					}
				}
			}
			wl := witnessLits(a, []string{"A23"})
			var reasons []int32
			reasons = append(reasons, ltLits...)
			for _, l := range wl {
				reasons = append(reasons, -l)
			}
			okAcc, nAcc, whereAcc := len(ltLits) > 0, 0, w.pos(m.Fn.Pos())
			for k := range a.in {
				if k.idx != 0 {
					continue
				}
				if _, isPanic := k.b.Instrs[len(k.b.Instrs)-1].(*ssa.Panic); !isPanic {
					continue
				}
				for _, p := range k.b.Preds {
					if st2 := a.edgeState(k.ctx, p, k.b); st2 != nil {
						nAcc++
						if !a.holdsAt(st2, reasons...) {
							okAcc, whereAcc = false, blockPos(w, p)
						}
					}
				}
			}
			cx.decide(okAcc && nAcc > 0, "epoch-guard", "netmap.NewEpoch/accepts", "faults only without the Alphabet witness or with epochNum ≤ the stored epoch", "an Alphabet-witnessed tick with a larger epoch number can be refused (at "+whereAcc+")", whereAcc)
		}
		var ePut, bPut, pPut, snapPut, notif, fan *Site
		for _, s := range effs {
			fam := ""
			if isStore(s) {
				fam = keyFamily(s.Args[1])
			}
			switch {
			case s.Effect == "put" && fam == "snapshotEpoch":
				ePut = s
			case s.Effect == "put" && fam == "snapshotBlock":
				bPut = s
			case s.Effect == "put" && fam == "p":
				pPut = s
			case s.Effect == "put" && fam == "snapshot_":
				snapPut = s
			case notifyName(s) == "NewEpoch":
				notif = s
			case s.Effect == "call":
				fan = s
			}
			// D2
			if isStore(s) && (fam == "candidate" || fam == "2") {
				cx.violated("candidates-untouched", "netmap.NewEpoch/"+siteConstruct(a, s), "NewEpoch writes the candidate set ("+s.Args[1].pretty()+")", s.Where(w))
			}
		}
		cx.holds("candidates-untouched", "netmap.NewEpoch", fmt.Sprintf("%d effects inspected", len(effs)))
		if ePut == nil || bPut == nil || pPut == nil || snapPut == nil || notif == nil || fan == nil {
			cx.violated("publication", "netmap.NewEpoch/shape", "NewEpoch no longer writes the epoch, the tick height, the per-epoch list, the legacy snapshot, the notification and the subscriber calls", w.pos(m.Fn.Pos()))
		} else {
			cx.decide(ePut.Args[2] == epoch, "publication", "netmap.NewEpoch/epoch", "stores Param(epochNum)", "the stored epoch is "+ePut.Args[2].pretty(), ePut.Where(w))
			cx.decide(isCall(bPut.Args[2], "native/ledger.CurrentIndex"), "publication", "netmap.NewEpoch/block", "stores the current height", "the stored tick height is "+bPut.Args[2].pretty(), bPut.Where(w))
			// p ‖ BE4(epoch) ‖ k → v over scan of "2"
			ps := keyParts(pPut.Args[1])
			okP := len(ps) == 3 && fixedEnc(ps[1], epoch) && ps[2].Op == "field" && ps[2].Name == "k" &&
				pPut.Args[2].Op == "field" && pPut.Args[2].Name == "v" && ps[2].Args[0] == pPut.Args[2].Args[0]
			if okP {
				it := ps[2].Args[0]
				okP = it.Op == "iterval" && it.Args[0].Op == "find" && it.Args[0].Args[0] == tb.constBytes("2")
				if fl, isC := it.Args[0].Args[1].IntConst(); okP && (!isC || fl != 2) { // RemovePrefix only
					okP = false
				}
			}
			cx.decide(okP, "publication", "netmap.NewEpoch/structured", "'p'‖BE4(epochNum)‖key → value for every item of the scan of '2'", "the structured list for the epoch is written as "+pPut.Args[1].pretty()+" → "+pPut.Args[2].pretty(), pPut.Where(w))
			okL, _ := everyElement(a, pPut, nil)
			cx.decide(okL, "publication", "netmap.NewEpoch/structured/all", "every scanned candidate is copied (the loop ends only on exhaustion)", "the copy loop of structured candidates can stop early or skip items", pPut.Where(w))
			// legacy snapshot: the stored value is the result of one helper call, and that helper is a filter
			sv := unserialize(snapPut.Args[2])
			okS := false
			for _, alt := range tb.Alts(sv) {
				if alt.Op == "ret" || alt.Op == "phi" || alt.Op == "append" || alt.Op == "arr" {
					okS = true
				}
			}
			var fcall *Site
			for _, s := range a.Sites(func(s *Site) bool { return s.Inlined && s.Val == sv }) {
				fcall = s
			}
			if fcall != nil {
				if ff := fcall.Instr.(ssa.CallInstruction).Common().StaticCallee(); ff != nil {
					offline := nodeStateConsts(cx)["Offline"]
					ok, why := filterShape(newTermBuilder(w, ff), ff, offline)
					cx.decide(ok, "publication", "netmap.filterNetmap", "keeps exactly the candidates with State != Offline", why, w.pos(ff.Pos()))
				}
			}
			cx.decide(okS && fcall != nil && sv == fcall.Val, "publication", "netmap.NewEpoch/legacy", "the legacy snapshot is the filtered candidate list", "the legacy snapshot stores "+sv.pretty()+", not the result of filtering the candidates", snapPut.Where(w))
			// candidate scan
			cs := findSite(a, tb.constBytes("candidate"))
			okC := cs != nil
			if okC {
				fl, isC := cs.Args[2].IntConst()
				okC = isC && fl == (4|8) // ValuesOnly|DeserializeValues
			}
			cx.decide(okC, "publication", "netmap.NewEpoch/legacy/scan", "candidates come from the scan of family 'candidate'", "the legacy snapshot is not built from the scan of the 'candidate' family", snapPut.Where(w))
			// snapshot id and current id agree
			var cur *Site
			for _, s := range effs {
				if s.Effect == "put" && keyFamily(s.Args[1]) == "snapshotCurrent" {
					cur = s
				}
			}
			okID := cur != nil && len(keyParts(snapPut.Args[1])) == 2 && keyParts(snapPut.Args[1])[1] == tb.byteOf(cur.Args[2])
			cx.decide(okID, "publication", "netmap.NewEpoch/legacy/slot", "the snapshot is stored in the slot that becomes current", "the legacy snapshot is stored in slot "+snapPut.Args[1].pretty()+" while snapshotCurrent becomes "+fmt.Sprint(cur != nil && true), snapPut.Where(w))
			// notification
			na := notifyArgs(notif)
			cx.decide(len(na) == 1 && na[0] == epoch, "publication", "netmap.NewEpoch/notify/arg", "NewEpoch(epochNum)", "the notification carries "+termList(na), notif.Where(w))
			okN := !siteInLoop(notif)
			for _, ex := range a.Exits() {
				if !a.holdsAt(ex.State, a.eLit(notif)) {
					okN = false
				}
			}
			cx.decide(okN, "publication", "netmap.NewEpoch/notify/once", "emitted exactly once on every normal path", "a tick can complete without (or with several) NewEpoch notifications", notif.Where(w))
			// D4 fan-out
			okF := len(fan.Args) >= 4 && fan.Args[3].Op == "arr" && len(fan.Args[3].Args) == 1 && fan.Args[3].Args[0] == epoch
			mname, _ := fan.Args[1].BytesConst()
			fl, _ := fan.Args[2].IntConst()
			h := fan.Args[0]
			okH := h.Op == "slice" && h.Args[0].Op == "iterval" && h.Args[0].Args[0].Op == "find" && h.Args[0].Args[0].Args[0] == tb.constBytes("e")
			if okH {
				lo, _ := h.Args[1].IntConst()
				ff, isC := h.Args[0].Args[0].Args[1].IntConst()
				okH = lo == 1 && h.Args[2].Op == "none" && isC && ff == (1|2) // KeysOnly|RemovePrefix, forward
			}
			cx.decide(okF && mname == "newEpoch" && fl == 15 && okH, "fan-out", "netmap.cleanup/call", "Call(key[1:], \"newEpoch\", All, epochNum) for every key of the forward scan of 'e'", "subscribers are not called with newEpoch(epochNum) for every stored subscription in key order", fan.Where(w))
			okE, _ := everyElement(a, fan, nil)
			catching := false
			for cc := fan.Ctx; cc != nil; cc = cc.parent {
				if cc.catching {
					catching = true
				}
			}
			cx.decide(okE && !catching, "fan-out", "netmap.cleanup/all", "the loop ends only on exhaustion and no frame catches a subscriber's exception", "a subscriber can be skipped, or a failing subscriber does not fail the tick", fan.Where(w))
			okOrd := a.holdsAt(fan.In, a.eLit(ePut)) && a.holdsAt(fan.In, a.eLit(snapPut))
			cx.decide(okOrd, "fan-out", "netmap.cleanup/after-publication", "subscribers are called after the epoch and the map were published", "subscribers are called before the new epoch/map is stored: they observe the old state", fan.Where(w))
		}
		cx.floor("newepoch_effects", 7)
	}
	// who-may-write the epoch key
	roots := append([]*Method{}, c.Methods...)
	for _, m := range roots {
		a := cx.run(m)
		for _, s := range a.RealEffects() {
			if isStore(s) && keyFamily(s.Args[1]) == "snapshotEpoch" {
				cx.decide(m.GoName == "NewEpoch" && rootFrame(s), "epoch-writer", "netmap."+m.GoName+"/"+siteConstruct(a, s), "written by NewEpoch", "the epoch counter is written outside NewEpoch: it could decrease", s.Where(w))
			}
			if s.Effect == "put" && keyFamily(s.Args[1]) == "e" {
				cx.decide(m.GoName == "SubscribeForNewEpoch", "subscriber-writer", "netmap."+m.GoName+"/"+siteConstruct(a, s), "written by SubscribeForNewEpoch", "a subscription entry is written outside SubscribeForNewEpoch", s.Where(w))
			}
			if s.Effect == "delete" && keyFamily(s.Args[1]) == "e" {
				cx.violated("subscriber-writer", "netmap."+m.GoName+"/"+siteConstruct(a, s), "a subscription entry is deleted: later subscribers change their position", s.Where(w))
			}
		}
	}
	if dm := cx.method("netmap", "_deploy"); dm != nil {
		a := cx.runWith(dm, map[int]constant.Value{1: constant.MakeBool(true)}, "upd")
		for _, s := range a.RealEffects() {
			if isStore(s) && keyFamily(s.Args[1]) == "snapshotEpoch" {
				cx.violated("epoch-writer", "netmap._deploy(update)/"+siteConstruct(a, s), "an update rewrites the epoch counter", s.Where(w))
			}
		}
	}
	// D5 subscription
	if m := cx.method("netmap", "SubscribeForNewEpoch"); m != nil {
		a := cx.run(m)
		tb := a.tb
		var put, notif *Site
		for _, s := range a.RealEffects() {
			if s.Effect == "put" {
				put = s
			}
			if s.Effect == "notify" {
				notif = s
			}
		}
		if put == nil || notif == nil {
			cx.violated("subscribe", "netmap.SubscribeForNewEpoch", "no subscription write/notification found", w.pos(m.Fn.Pos()))
		} else {
			con := paramTerm(tb, m, "contract")
			ps := keyParts(put.Args[1])
			okK := len(ps) == 3 && ps[2] == con && ps[1].Op == "byte"
			okIdx := false
			if okK {
				idx := ps[1].Args[0]
				// index = count of stored entries: phi over {0, phi+1}
				alts := tb.Alts(idx)
				zero, inc := false, false
				for _, al := range alts {
					if n, isC := al.IntConst(); isC && n == 0 {
						zero = true
					} else if al == tb.binop(token.ADD, idx, tb.constInt(1), intType) {
						inc = true
					} else {
						zero = false
						inc = false
						break
					}
				}
				okIdx = idx.Op == "phi" && zero && inc
			}
			cx.decide(okK && okIdx, "subscribe", "netmap.SubscribeForNewEpoch/key", "'e'‖byte(number of stored entries)‖contract", "the subscription key is "+put.Args[1].pretty()+": order of calls is not subscription order", put.Where(w))
			var conParam ssa.Value
			for _, p := range m.Fn.Params {
				if p.Name() == "contract" {
					conParam = p
				}
			}
			okM, memIf, coll := membershipGuard(m.Fn, func(v ssa.Value) bool { return v == conParam }, put.Instr.Block())
			where := put.Where(w)
			if memIf != nil {
				where = w.pos(memIf.Pos())
			}
			okColl := false
			if coll != nil {
				ct := tb.Term(tb.root, coll)
				okColl = ct.Op == "find" && ct.Args[0] == tb.constBytes("e")
			}
			// what is compared is the contract part of the stored key: 'e'‖index(1)‖contract, scanned
			// with the family prefix removed, so the contract starts at byte 1 of the item
			if okM && okColl && memIf != nil {
				okPart := false
				x, y, isEq := isEqualityCall(memIf.Cond)
				if isEq {
					for _, v := range []ssa.Value{x, y} {
						t := tb.Term(tb.root, v)
						if t.Op == "slice" && len(t.Args) == 3 && t.Args[0].Op == "iterval" {
							lo, isC := t.Args[1].IntConst()
							fl, isF := t.Args[0].Args[0].Args[1].IntConst()
							ps := keyParts(put.Args[1])
							// RemovePrefix strips the constant family; the put key is family ‖ byte ‖ contract
							okPart = isC && isF && fl&2 != 0 && t.Args[2].Op == "none" && len(ps) == 3 && ps[1].Op == "byte" && lo == 1
						}
					}
				}
				cx.decide(okPart, "subscribe", "netmap.SubscribeForNewEpoch/compared-part", "the stored item is compared from byte 1 on (after the one-byte index)", "the subscriber test does not compare the contract part of the stored key: a subscribed contract is not recognised and is stored again", where)
			}
			cx.decide(okM && okColl, "subscribe", "netmap.SubscribeForNewEpoch/dedup", "the write is reached only after the contract was compared with every stored subscriber and found different", "a contract that is already subscribed can be stored again (the comparison with stored subscribers does not dominate the write): it would be called twice per tick", where)
			checkNotifyEquiv(cx, a, "netmap.SubscribeForNewEpoch/NewEpochSubscription", notif, put)
		}
	}
}

// filterShape: fn returns a list that starts empty and receives exactly the
// elements x of its source list with x.State != offline.
func filterShape(tb *TermBuilder, fn *ssa.Function, offline int64) (bool, string) {
	var app *ssa.Call
	viaWrapper := false
	for _, b := range fn.Blocks {
		for _, ins := range b.Instrs {
			if c, ok := ins.(*ssa.Call); ok {
				if bi, ok := c.Common().Value.(*ssa.Builtin); ok && bi.Name() == "append" {
					if app != nil {
						return false, "more than one append in the filter"
					}
					app = c
				}
				// a helper of the package that is nothing but `return append(list, item)` is an append
				if cal := c.Common().StaticCallee(); cal != nil && cal.Pkg == fn.Pkg && isAppendWrapper(cal) {
					if app != nil {
						return false, "more than one append in the filter"
					}
					app, viaWrapper = c, true
				}
			}
		}
	}
	if app == nil {
		return false, "the filter no longer appends candidates to its result"
	}
	base, elems, _ := appendOf(app)
	if viaWrapper {
		base, elems = stripConv(app.Common().Args[0]), []ssa.Value{stripConv(app.Common().Args[1])}
	}
	if len(elems) != 1 {
		return false, "the filter appends something other than one candidate per step"
	}
	item := tb.Term(tb.root, elems[0])
	if item.Op != "elem" {
		return false, "the appended value (" + item.pretty() + ") is not an element of the candidate list"
	}
	// returned value is the phi closure containing the append
	retOK := false
	for _, b := range fn.Blocks {
		if r, ok := b.Instrs[len(b.Instrs)-1].(*ssa.Return); ok && len(r.Results) == 1 {
			cl := phiClosure(r.Results[0])
			if cl[ssa.Value(app)] && cl[base] {
				retOK = true
			}
			// initial value must be empty
			for v := range cl {
				if v == ssa.Value(app) {
					continue
				}
				if _, isPhi := v.(*ssa.Phi); isPhi {
					continue
				}
				if !isEmptySlice(v) {
					retOK = false
				}
			}
		}
	}
	if !retOK {
		return false, "the filter's result is not (empty list + appended candidates)"
	}
	// guard: the append block is dominated by the State != offline side of one test on the item
	ab := app.Block()
	for _, b := range fn.Blocks {
		i, ok := b.Instrs[len(b.Instrs)-1].(*ssa.If)
		if !ok {
			continue
		}
		bo, ok := i.Cond.(*ssa.BinOp)
		if !ok || (bo.Op != token.NEQ && bo.Op != token.EQL) {
			continue
		}
		ct := tb.Term(tb.root, i.Cond)
		if ct.Op != "bin" || len(ct.Args) != 2 {
			continue
		}
		x, y := ct.Args[0], ct.Args[1]
		if n, isC := x.IntConst(); isC && n == offline {
			x, y = y, x
		}
		if n, isC := y.IntConst(); !isC || n != offline {
			continue
		}
		if x != tb.field(item, "State") {
			continue
		}
		side := b.Succs[0]
		if bo.Op == token.EQL {
			side = b.Succs[1]
		}
		other := b.Succs[1]
		if bo.Op == token.EQL {
			other = b.Succs[0]
		}
		if side.Dominates(ab) && !blockReaches(other, ab, innermostLoop(ab)) {
			return true, ""
		}
	}
	return false, "candidates are appended to the published map without the test State != Offline (or under a different test)"
}

// ---------- C07 ----------

func runC07(cx *CheckCtx) {
	w := cx.W
	// "only with both the node's own witness and the Alphabet's": the T-witness gates of the
	// candidate entry points (the same rule C03 runs for every method)
	for _, name := range []string{"AddPeer", "AddPeerIR", "AddNode", "UpdateState", "UpdateStateIR", "DeleteNode"} {
		if m := cx.method("netmap", name); m != nil {
			gateRule(cx, m)
		}
	}
	consts := nodeStateConsts(cx)
	online, haveOnline := consts["Online"]
	if !haveOnline || len(consts) < 3 {
		cx.undecided("anchor", "contracts/netmap/nodestate", "the node state enumeration is gone", "")
		return
	}
	type addSpec struct {
		name, fam string
		key       func(tb *TermBuilder, m *Method) *Term
		notify    string
	}
	for _, sp := range []addSpec{
		{"AddPeer", "candidate", func(tb *TermBuilder, m *Method) *Term {
			return tb.mk("slice", "", 0, paramTerm(tb, m, "nodeInfo"), tb.constInt(2), tb.constInt(35))
		}, "AddPeerSuccess"},
		{"AddPeerIR", "candidate", func(tb *TermBuilder, m *Method) *Term {
			return tb.mk("slice", "", 0, paramTerm(tb, m, "nodeInfo"), tb.constInt(2), tb.constInt(35))
		}, "AddPeerSuccess"},
		{"AddNode", "2", func(tb *TermBuilder, m *Method) *Term { return tb.field(paramTerm(tb, m, "n"), "Key") }, "AddNode"},
	} {
		m := cx.method("netmap", sp.name)
		if m == nil {
			continue
		}
		a := cx.run(m)
		tb := a.tb
		var put, notif *Site
		for _, s := range a.RealEffects() {
			if s.Effect == "put" {
				put = s
			}
			if notifyName(s) == sp.notify {
				notif = s
			}
		}
		key := "netmap." + sp.name
		if put == nil || notif == nil {
			cx.violated("add", key, sp.name+" no longer stores the candidate and emits "+sp.notify, w.pos(m.Fn.Pos()))
			continue
		}
		k := sp.key(tb, m)
		cx.decide(put.Args[1] == tb.cat(tb.constBytes(sp.fam), k), "add", key+"/key", "stored under '"+sp.fam+"'‖"+k.pretty(), "the candidate is stored under "+put.Args[1].pretty()+", not under its own public key "+k.pretty(), put.Where(w))
		// witness of the same key (for the self-service methods)
		if sp.name != "AddPeerIR" {
			cx.decide(a.holdsAt(put.In, a.litW(k)), "add", key+"/witness-key", "the witnessed key is the storage key", "the key that is witnessed is not the key the candidate is stored under", put.Where(w))
		}
		v := unserialize(put.Args[2])
		okState := false
		if sp.fam == "candidate" {
			st, isC := tb.field(v, "State").IntConst()
			okState = isC && st == online && tb.field(v, "BLOB") == paramTerm(tb, m, "nodeInfo")
		} else {
			okState = v == paramTerm(tb, m, "n") && a.holdsAt(put.In, a.litEqC(tb.field(v, "State"), online)) &&
				a.holdsAt(put.In, a.litEqC(a.litLen(k), 33))
		}
		cx.decide(okState, "add", key+"/state", "stored as Online with the submitted information", "a candidate can be added in a state other than Online (or with other information than submitted)", put.Where(w))
		na := notifyArgs(notif)
		cx.decide(len(na) >= 1 && na[0] == k, "add", key+"/notify-arg", "the notification names the stored key", sp.notify+" names "+termList(na), notif.Where(w))
		checkNotifyEquiv(cx, a, key+"/"+sp.notify, notif, put)
		// presence: there is no successful add that stores nothing (a node that re-announces itself comes back Online)
		cx.decide(executedAtEveryExit(a, put), "add", key+"/always", "every normal return has stored the candidate", sp.name+" can return normally without having stored the candidate: a node that was switched to Maintenance (or whose record differs only in state) stays as it was although its add succeeded", put.Where(w))
		cx.count("add_methods", 1)
	}
	cx.floor("add_methods", 3)
	// update/remove: analysed through every entry point
	for _, name := range []string{"UpdateState", "UpdateStateIR", "DeleteNode"} {
		m := cx.method("netmap", name)
		if m == nil {
			continue
		}
		a := cx.run(m)
		tb := a.tb
		pkName := "publicKey"
		if name == "DeleteNode" {
			pkName = "pkey"
		}
		pk := paramTerm(tb, m, pkName)
		var state *Term
		if name == "DeleteNode" {
			state = tb.constInt(consts["Offline"])
		} else {
			state = paramTerm(tb, m, "state")
		}
		key := "netmap." + name
		// every kind of site may occur several times (a fast path of one entry point, a helper per family):
		// the rules speak about "some site of the kind was executed", never about one particular site
		var del1s, del2s, put1s, put2s, notifs []*Site
		for _, s := range a.RealEffects() {
			fam := ""
			if isStore(s) {
				fam = keyFamily(s.Args[1])
			}
			switch {
			case s.Effect == "delete" && fam == "candidate":
				del1s = append(del1s, s)
			case s.Effect == "delete" && fam == "2":
				del2s = append(del2s, s)
			case s.Effect == "put" && fam == "candidate":
				put1s = append(put1s, s)
			case s.Effect == "put" && fam == "2":
				put2s = append(put2s, s)
			case notifyName(s) == "UpdateStateSuccess":
				notifs = append(notifs, s)
			default:
				cx.violated("update", key+"/"+siteConstruct(a, s), "unexpected effect on the candidate update path: "+siteDesc(a, s), s.Where(w))
			}
		}
		if len(del1s) == 0 || len(del2s) == 0 || len(notifs) == 0 || (name != "DeleteNode" && (len(put1s) == 0 || len(put2s) == 0)) {
			cx.violated("update", key+"/shape", name+" no longer reaches the remove (both families) / rewrite (both families) / notify sites", w.pos(m.Fn.Pos()))
			continue
		}
		eAny := func(ss ...[]*Site) []int32 {
			var out []int32
			for _, l := range ss {
				for _, x := range l {
					out = append(out, a.eLit(x))
				}
			}
			return out
		}
		k1, k2 := tb.cat(tb.constBytes("candidate"), pk), tb.cat(tb.constBytes("2"), pk)
		okKeys, badKeys := true, ""
		for _, d := range del1s {
			if d.Args[1] != k1 {
				okKeys, badKeys = false, d.Args[1].pretty()
			}
		}
		for _, d := range del2s {
			if d.Args[1] != k2 {
				okKeys, badKeys = false, d.Args[1].pretty()
			}
		}
		cx.decide(okKeys, "remove-both", key+"/keys", "deletes 'candidate'‖k and '2'‖k for the same k", "removal deletes "+badKeys, del1s[0].Where(w))
		both := true
		for _, ex := range a.Exits() {
			for _, d := range del1s {
				if !a.holdsAt(ex.State, append([]int32{-a.eLit(d)}, eAny(del2s)...)...) {
					both = false
				}
			}
			for _, d := range del2s {
				if !a.holdsAt(ex.State, append([]int32{-a.eLit(d)}, eAny(del1s)...)...) {
					both = false
				}
			}
		}
		cx.decide(both, "remove-both", key+"/always", "both representations are removed together", "a candidate can be removed from one list and stay in the other", del1s[0].Where(w))
		// converse: a removal is not refused because *one* representation is missing — a fault decided on a
		// read of the candidate families looks at both of them (a node added in one format only can be removed)
		if name == "DeleteNode" || name == "UpdateState" || name == "UpdateStateIR" {
			okBothRead := true
			for _, b := range m.Fn.Blocks {
				if _, isPanic := b.Instrs[len(b.Instrs)-1].(*ssa.Panic); !isPanic {
					continue
				}
				for _, p := range b.Preds {
					ifi, isIf := p.Instrs[len(p.Instrs)-1].(*ssa.If)
					if !isIf || a.edgeState(tb.root, p, b) == nil {
						continue
					}
					ct := tb.Term(tb.root, ifi.Cond)
					fams := map[string]bool{}
					ct.walk(func(x *Term) bool {
						if x.Op == "read" && len(x.Args) > 0 {
							if f := keyFamily(x.Args[0]); f == "candidate" || f == "2" {
								fams[f] = true
							}
						}
						return true
					})
					if len(fams) == 1 {
						okBothRead = false
					}
				}
			}
			cx.decide(okBothRead, "remove-both", key+"/accepts", "no fault is decided on the presence of one representation alone", name+" can refuse a candidate because one of its two representations is missing: a node added in one format only cannot be removed (or updated) although it is a candidate", w.pos(m.Fn.Pos()))
		}
		if name != "DeleteNode" {
			for i, puts := range [][]*Site{put1s, put2s} {
				kk := []*Term{k1, k2}[i]
				fam := []string{"candidate", "2"}[i]
				okV, badV := true, ""
				for _, p := range puts {
					v := unserialize(a.canonAt(p, p.Args[2]))
					okOne := p.Args[1] == kk && tb.field(v, "State") == state && v.Op == "struct"
					if okOne {
						names := strings.Split(v.Name[strings.Index(v.Name, ":")+1:], ",")
						for j, fn := range names {
							if fn == "State" {
								continue
							}
							fv := v.Args[j]
							if !(fv.Op == "field" && fv.Name == fn) {
								okOne = false
								continue
							}
							if rk, isRec := recordOf(tb, fv.Args[0]); !isRec || rk != kk {
								okOne = false
							}
						}
					}
					if !okOne {
						okV, badV = false, v.pretty()
					}
				}
				cx.decide(okV, "update-both", key+"/"+fam+"/value", "rewrites the stored record with only State := requested state", "the "+fam+" record is rewritten as "+badV+": more than the state changes, or another state is stored", puts[0].Where(w))
				// present ⇒ rewritten, on every exit that rewrote anything or returned through the update arm
				okP := true
				var rd *Term
				for _, f := range a.lt.lits {
					if f.Kind == KNil && f.A != nil && f.A.Op == "read" && f.A.Args[0] == kk {
						rd = f.A
					}
				}
				if rd == nil {
					okP = false
				} else {
					others := [][]*Site{put2s, put1s}[i]
					for _, ex := range a.Exits() {
						// on update paths (some put executed or none of the deletes executed)
						base := append([]int32{a.litNil(rd)}, eAny(puts, del1s)...)
						for _, o := range others {
							if !a.holdsAt(ex.State, append(append([]int32{}, base...), -a.eLit(o))...) {
								okP = false
							}
						}
					}
				}
				cx.decide(okP, "update-both", key+"/"+fam+"/present-rewritten", "every normal exit of an update has the record absent or rewritten", "an update can succeed while the "+fam+" representation of the candidate keeps its old state", puts[0].Where(w))
			}
			// no exit with zero writes
			okW := true
			for _, ex := range a.Exits() {
				if !a.holdsAt(ex.State, eAny(put1s, put2s, del1s)...) {
					okW = false
				}
			}
			cx.decide(okW, "update-both", key+"/unknown-fails", "no normal exit without a write: updating an unknown candidate fails", "updating an unknown candidate succeeds silently", put1s[0].Where(w))
			// D3 dispatch: every effect under a declared state
			var lits []int32
			for _, v := range consts {
				lits = append(lits, a.litEqC(state, v))
			}
			okD := true
			for _, s := range a.RealEffects() {
				if !a.holdsAt(s.In, lits...) {
					okD = false
				}
			}
			cx.decide(okD, "dispatch", key, "every effect happens under a declared node state", "an undeclared state value reaches an effect instead of failing", w.pos(m.Fn.Pos()))
			// Offline removes, Online/Maintenance rewrite
			okArm := true
			for _, d := range del1s {
				if !a.holdsAt(d.In, a.litEqC(state, consts["Offline"])) {
					okArm = false
				}
			}
			for _, p := range put1s {
				if !a.holdsAt(p.In, a.litEqC(state, consts["Online"]), a.litEqC(state, consts["Maintenance"])) {
					okArm = false
				}
			}
			cx.decide(okArm, "dispatch", key+"/arms", "Offline removes, Online/Maintenance rewrite", "the state dispatch maps a state to the wrong action", w.pos(m.Fn.Pos()))
		}
		okA, badA := true, ""
		okN := true
		for _, n := range notifs {
			na := notifyArgs(n)
			if !(len(na) == 2 && na[0] == pk && na[1] == state) {
				okA, badA = false, termList(na)
			}
			if siteInLoop(n) {
				okN = false
			}
		}
		cx.decide(okA, "update-notify", key+"/args", "UpdateStateSuccess(key, state)", "UpdateStateSuccess carries "+badA, notifs[0].Where(w))
		for _, ex := range a.Exits() {
			if !a.holdsAt(ex.State, eAny(notifs)...) {
				okN = false
			}
			for i := range notifs {
				for j := i + 1; j < len(notifs); j++ {
					if !a.holdsAt(ex.State, -a.eLit(notifs[i]), -a.eLit(notifs[j])) {
						okN = false
					}
				}
			}
		}
		cx.decide(okN, "update-notify", key+"/once", "emitted once on every normal path", "an update can succeed without (or with several) UpdateStateSuccess", notifs[0].Where(w))
		cx.count("update_methods", 1)
	}
	cx.floor("update_methods", 3)
	// "the candidate set is exactly what the calls imply" as read back: the legacy listing collects every
	// scanned candidate record (a record is not left out because the node also has a structured one)
	checkCollectEveryIn(cx, map[string][]string{"netmap": {"NetmapCandidates"}}, 1)
	// single emitters / writers over all methods
	addFn := cx.locate(nmPkg, "addToNetmap", "emits AddPeerSuccess", func(f *ssa.Function) bool { return notifiesDirect(f, "AddPeerSuccess") })
	if c := cx.contract("netmap"); c != nil {
		for _, m := range c.Methods {
			a := cx.run(m)
			for _, s := range a.RealEffects() {
				skey := "netmap." + m.GoName + "/" + siteConstruct(a, s)
				switch notifyName(s) {
				case "UpdateStateSuccess":
					// stated per entry point, not per helper: the three update/remove entry points are decided above
					// (arguments, exactly once, under the dispatch); no other method announces a state update
					cx.decide(m.GoName == "UpdateState" || m.GoName == "UpdateStateIR" || m.GoName == "DeleteNode", "single-emitter", skey, "emitted on behalf of an update/remove entry point", "UpdateStateSuccess is emitted by "+m.GoName+", which is not one of the update/remove entry points: a state change is announced outside the update protocol", s.Where(w))
				case "AddPeerSuccess":
					cx.decide(addFn != nil && s.Ctx.fn == addFn, "single-emitter", skey, "emitted by the one add helper", "AddPeerSuccess is emitted by a second function: an admission path exists that bypasses the add protocol", s.Where(w))
				case "AddNode":
					cx.decide(m.GoName == "AddNode", "single-emitter", skey, "emitted by AddNode", "AddNode emitted elsewhere", s.Where(w))
				}
				if isStore(s) {
					fam := keyFamily(s.Args[1])
					if fam == "candidate" || fam == "2" {
						cx.decide(candidateWriters[m.GoName], "who-may-write", skey, "candidate families are written only by the add/update/remove/tick entry points", "method "+m.GoName+" writes a candidate record although it is not one of the add/update/remove entry points", s.Where(w))
					}
				}
			}
		}
	}
}

// candidateWriters: the ABI methods that may reach a write of the candidate
// families (v1 "candidate"‖key, v2 '2'‖key). Confirmed by reading: add
// (AddPeer*, AddNode), update (UpdateState*), remove (DeleteNode, the
// UpdateState→Offline path), the epoch tick (expiry of v2 nodes) and the
// deploy-time migration.
var candidateWriters = map[string]bool{
	"AddPeer": true, "AddPeerIR": true, "AddNode": true, "UpdateState": true, "UpdateStateIR": true,
	"DeleteNode": true, "NewEpoch": true, "_deploy": true,
}

// ---------- C08 ----------

func runC08(cx *CheckCtx) {
	w := cx.W
	c := cx.contract("netmap")
	if c == nil {
		return
	}
	checkStoredDivisors(cx, c)
	// D2: retention agreement
	var keepLower *Term // NewEpoch drops epoch e - N
	if m := cx.method("netmap", "NewEpoch"); m != nil {
		a := cx.run(m)
		tb := a.tb
		epoch := paramTerm(tb, m, "epochNum")
		var drop *Site
		dropName := fq(netmapDropFn(cx))
		for _, s := range a.Sites(func(s *Site) bool { return s.Inlined && s.Callee == dropName }) {
			drop = s
		}
		if drop == nil {
			cx.violated("retention", "netmap.NewEpoch/drop", "NewEpoch no longer drops an old per-epoch list", w.pos(m.Fn.Pos()))
		} else {
			d := drop.Args[1]
			ok := d.Op == "sum" && len(d.Args) == 2
			var n *Term
			if ok {
				for i, x := range d.Args {
					if x == epoch && d.Name[i] == '+' {
						continue
					}
					if d.Name[i] == '-' {
						n = x
					}
				}
				ok = n != nil && n.Op == "read"
				if ok {
					kk, _ := n.Args[0].BytesConst()
					ok = kk == "snapshotCount"
				}
			}
			okG := ok && a.factGE(drop.In, epoch, a.tb.binop(token.ADD, n, tb.constInt(1), intType)) || (ok && hasLt(a, drop.In, n, epoch))
			cx.decide(ok, "retention", "netmap.NewEpoch/drop", "drops the list of epoch epochNum − stored count", "NewEpoch drops epoch "+d.pretty()+": the retained window is not the last N epochs", drop.Where(w))
			cx.decide(okG, "retention", "netmap.NewEpoch/drop/guard", "only when epochNum > count", "the drop runs for non-positive epochs", drop.Where(w))
			if ok {
				keepLower = n
			}
		}
	}
	if m := cx.method("netmap", "UpdateSnapshotCount"); m != nil {
		a := cx.run(m)
		tb := a.tb
		count := paramTerm(tb, m, "count")
		var drop *Site
		dropName := fq(netmapDropFn(cx))
		for _, s := range a.Sites(func(s *Site) bool { return s.Inlined && s.Callee == dropName }) {
			drop = s
		}
		if drop == nil {
			cx.violated("retention", "netmap.UpdateSnapshotCount/drop", "UpdateSnapshotCount no longer drops the per-epoch lists that fall out of the window", w.pos(m.Fn.Pos()))
		} else {
			k := drop.Args[1]
			var cur, old *Term
			for _, s := range a.Sites(func(s *Site) bool { return s.Callee == "storage.Get" }) {
				if kk, _ := s.Args[1].BytesConst(); kk == "snapshotEpoch" {
					cur = s.Val
				}
				if kk, _ := s.Args[1].BytesConst(); kk == "snapshotCount" && old == nil {
					old = s.Val
				}
			}
			okB := false
			detail := ""
			if k.Op == "phi" && cur != nil && old != nil {
				// init: cur - old + 1 ; step +1
				wantInit := tb.binop(token.ADD, tb.binop(token.SUB, cur, old, intType), tb.constInt(1), intType)
				init, step := false, false
				for _, al := range tb.Alts(k) {
					switch al {
					case wantInit:
						init = true
					case tb.binop(token.ADD, k, tb.constInt(1), intType):
						step = true
					default:
						detail += " start/step " + al.pretty()
					}
				}
				// bound from the loop header condition
				in := tb.insts[k.Inst]
				hdr := in.ins.Block()
				bound := false
				if ifi, ok := hdr.Instrs[len(hdr.Instrs)-1].(*ssa.If); ok {
					ct := tb.Term(in.ctx, ifi.Cond)
					last := tb.binop(token.SUB, cur, count, intType)
					if ct.Op == "bin" && ct.Args[0] == k {
						switch ct.Name {
						case "<=":
							bound = ct.Args[1] == last
						case "<":
							bound = ct.Args[1] == tb.binop(token.ADD, last, tb.constInt(1), intType)
						}
					}
					if !bound {
						detail += " loop condition " + ct.pretty()
					}
				}
				okB = init && step && bound
			}
			cx.decide(okB, "retention", "netmap.UpdateSnapshotCount/drop-range", "drops the epochs cur−old+1 … cur−new (inclusive), i.e. exactly those NewEpoch would have dropped with the new count",
				"the drop loop does not cover [cur−old+1, cur−new]:"+detail+" — NewEpoch keeps epochs (e−N, e], so an epoch outside the new window stays readable for ever (or a retained one is dropped)", drop.Where(w))
			_ = keepLower
			// the drop loop is reached on every normal path, unless nothing falls out of the window (new ≥ old)
			okAlways := false
			whyA := "the drop is not in a loop"
			if hdr := innermostLoop(drop.Instr.Block()); hdr != nil && old != nil {
				okAlways, whyA = true, ""
				for _, sk := range a.skipEdges(drop.Ctx, hdr, nil) {
					if a.holdsAt(sk.St, -a.litLt(count, old)) {
						continue
					}
					okAlways = false
					whyA = "a normal path goes round the drop loop (at " + blockPos(w, sk.From) + ") although the window shrinks"
				}
			}
			cx.decide(okAlways, "retention", "netmap.UpdateSnapshotCount/drop-always", "every normal path on which the window shrinks runs the drop loop", "UpdateSnapshotCount can shrink the window without dropping the per-epoch lists that fall out of it: "+whyA+"; listNodes(e) keeps answering for epochs older than the window", drop.Where(w))
			// the ring index stays inside the ring: at every exit the stored snapshotCurrent is
			// < the new count (necessary for the next tick and for Snapshot to address a stored slot)
			var curPut *Site
			var idRead *Term
			for _, s := range a.RealEffects() {
				if kk, _ := s.Args[1].BytesConst(); s.Effect == "put" && kk == "snapshotCurrent" {
					curPut = s
				}
			}
			for _, s := range a.Sites(func(s *Site) bool { return s.Callee == "storage.Get" }) {
				if kk, _ := s.Args[1].BytesConst(); kk == "snapshotCurrent" {
					idRead = s.Val
				}
			}
			okRange := curPut != nil && idRead != nil && old != nil
			if okRange {
				// the rewritten index is count − 1
				if curPut.Args[2] != tb.binop(token.SUB, count, tb.constInt(1), intType) {
					okRange = false
				}
				ltIdCount := a.litLt(idRead, count)
				ltOldCount := a.litLt(old, count) // growing: id < old (induction hypothesis) < count
				// the tests may be spelled `old <= count` (old ≠ count is established) or `id+1 <= count`
				ax := a.orderAxioms([2]*Term{old, count}, [2]*Term{idRead, count})
				for _, ex := range a.Exits() {
					if !a.entails(ex.State, ax, a.eLit(curPut), ltIdCount, ltOldCount) {
						okRange = false
					}
				}
			}
			if idRead != nil && old != nil {
				checkRingMove(cx, a, m, count, old, idRead, curPut)
			}
			cx.decide(okRange, "ring-index", "netmap.UpdateSnapshotCount/in-range", "at every exit the stored ring index is < the new count (rewritten to count − 1, or id < count established, or the ring grew)", "UpdateSnapshotCount can return with snapshotCurrent ≥ the new count: the current map's slot is deleted/out of range, netmap() and snapshot(0) answer with nothing or another epoch's map", w.pos(m.Fn.Pos()))
			// the count is written before it is used and the old one read before the write
			var cput *Site
			for _, s := range a.RealEffects() {
				if kk, _ := s.Args[1].BytesConst(); s.Effect == "put" && kk == "snapshotCount" {
					cput = s
				}
			}
			okOld := cput != nil && old != nil
			if okOld {
				in := tb.insts[old.Inst]
				rs := a.siteIdx[siteKey{in.ctx, in.ins}]
				okOld = rs != nil && a.holdsAt(rs.In, -a.eLit(cput))
			}
			cx.decide(okOld, "retention", "netmap.UpdateSnapshotCount/old-count", "the old count is read before the new one is stored", "the 'old' count is read after the new one was stored: nothing is dropped", w.pos(m.Fn.Pos()))
		}
	}
	// D3: Snapshot index guard + ListNodesEpoch prefix
	if m := cx.method("netmap", "Snapshot"); m != nil {
		a := cx.run(m)
		tb := a.tb
		diff := paramTerm(tb, m, "diff")
		ok := true
		n := 0
		for _, wt := range a.watches {
			bo := wt.Instr.(*ssa.BinOp)
			if bo.Op != token.REM {
				continue
			}
			n++
			cnt := a.Canon(wt.In, tb.Term(wt.Ctx, bo.Y))
			if !(a.holdsAt(wt.In, -a.litLtC(diff, 0)) && hasLt(a, wt.In, diff, cnt)) {
				ok = false
			}
		}
		cx.decide(ok && n > 0, "ring-index", "netmap.Snapshot", "0 ≤ diff < count established before the ring index is computed", "Snapshot indexes the ring without establishing 0 ≤ diff < count: older (or future) epochs are answered with some other epoch's map", w.pos(m.Fn.Pos()))
		// index form: the slot read is (current − diff + count) % count, the slot NewEpoch wrote diff
		// ticks ago given that it advances by one modulo count (ring-advance below)
		var curR, cntR *Term
		for _, s := range a.Sites(func(s *Site) bool { return s.Callee == "storage.Get" }) {
			switch kk, _ := s.Args[1].BytesConst(); kk {
			case "snapshotCurrent":
				curR = s.Val
			case "snapshotCount":
				cntR = s.Val
			}
		}
		okForm := false
		if curR != nil && cntR != nil {
			want := tb.binop(token.REM, tb.binop(token.ADD, tb.binop(token.SUB, curR, diff, intType), cntR, intType), cntR, intType)
			for _, s := range a.Sites(func(s *Site) bool { return s.Callee == "storage.Get" }) {
				if ps := keyParts(s.Args[1]); len(ps) == 2 && keyFamily(s.Args[1]) == "snapshot_" && ps[1].Op == "byte" && a.Canon(s.In, ps[1].Args[0]) == want {
					okForm = true
				}
			}
		}
		cx.decide(okForm, "ring-index", "netmap.Snapshot/slot", "reads slot (current − diff + count) % count", "Snapshot(diff) does not read the slot that was current diff ticks ago ((current − diff + count) % count)", w.pos(m.Fn.Pos()))
		// rejects only what is out of range: a fault is raised only with diff < 0 ∨ diff ≥ count
		okRej, nRej := true, 0
		for _, b := range m.Fn.Blocks {
			if _, isPanic := b.Instrs[len(b.Instrs)-1].(*ssa.Panic); !isPanic || cntR == nil {
				continue
			}
			for _, p := range b.Preds {
				st := a.edgeState(tb.root, p, b)
				if st == nil {
					continue
				}
				nRej++
				good := false
				for _, c := range append(a.eqClass(st, cntR), cntR) {
					if a.holdsAt(st, a.litLtC(diff, 0), -a.litLt(diff, c)) {
						good = true
					}
				}
				if !good {
					okRej = false
				}
			}
		}
		cx.decide(okRej && nRej > 0, "ring-index", "netmap.Snapshot/accepts", "faults only for diff < 0 or diff ≥ count", "Snapshot rejects a diff inside 0 … count−1 (for example the current map, diff 0)", w.pos(m.Fn.Pos()))
	}
	if m := cx.method("netmap", "NewEpoch"); m != nil {
		a := cx.run(m)
		tb := a.tb
		var curR, cntR *Term
		for _, s := range a.Sites(func(s *Site) bool { return s.Callee == "storage.Get" }) {
			switch kk, _ := s.Args[1].BytesConst(); kk {
			case "snapshotCurrent":
				curR = s.Val
			case "snapshotCount":
				cntR = s.Val
			}
		}
		okAdv := false
		for _, s := range a.RealEffects() {
			if kk, _ := s.Args[1].BytesConst(); s.Effect == "put" && kk == "snapshotCurrent" && curR != nil && cntR != nil {
				okAdv = a.Canon(s.In, s.Args[2]) == tb.binop(token.REM, tb.binop(token.ADD, curR, tb.constInt(1), intType), cntR, intType)
			}
		}
		cx.decide(okAdv, "ring-index", "netmap.NewEpoch/advance", "the ring index becomes (current + 1) % count", "a tick does not advance the ring by exactly one slot modulo the stored count: Snapshot(diff) reads (current − diff + count) % count and answers with another epoch's map", w.pos(m.Fn.Pos()))
	}
	// snapshotByEpoch(e) = snapshot(current epoch − e)
	if m := cx.method("netmap", "SnapshotByEpoch"); m != nil {
		a := cx.run(m)
		tb := a.tb
		ok := false
		for _, s := range a.Sites(func(s *Site) bool { return s.Inlined && s.Ctx.parent == nil && len(s.Args) == 1 }) {
			d := a.Canon(s.In, s.Args[0])
			if d.Op == "sum" && len(d.Args) == 2 {
				var cur *Term
				for _, x := range d.Args {
					if x.Op == "read" {
						cur = x
					}
				}
				if cur != nil {
					if k, _ := cur.Args[0].BytesConst(); k == "snapshotEpoch" && d == tb.binop(token.SUB, cur, paramTerm(tb, m, "epoch"), intType) {
						ok = true
					}
				}
			}
		}
		cx.decide(ok, "ring-index", "netmap.SnapshotByEpoch", "asks for the snapshot (stored epoch − epoch) ticks back", "snapshotByEpoch(e) does not translate the epoch into 'current epoch − e' ticks back", w.pos(m.Fn.Pos()))
	}
	// the per-epoch list: writer, reader and dropper use one fixed-width epoch encoder
	writeEnc := ""
	var dropFn *ssa.Function
	if m := cx.method("netmap", "NewEpoch"); m != nil {
		a := cx.run(m)
		epoch := paramTerm(a.tb, m, "epochNum")
		for _, s := range a.RealEffects() {
			if s.Effect == "put" && keyFamily(s.Args[1]) == "p" {
				if ps := keyParts(s.Args[1]); len(ps) == 3 && fixedEnc(ps[1], epoch) {
					writeEnc = ps[1].Name
				}
			}
		}
		dropFn = netmapDropFn(cx)
	}
	if m := cx.method("netmap", "ListNodesEpoch"); m != nil {
		a := cx.run(m)
		tb := a.tb
		ok := false
		for _, ex := range a.Exits() {
			for _, r := range ex.Results {
				if r.Op != "find" {
					continue
				}
				if ps := keyParts(r.Args[0]); len(ps) == 2 && ps[0] == tb.constBytes("p") && fixedEnc(ps[1], paramTerm(tb, m, "epoch")) && ps[1].Name == writeEnc {
					ok = true
				}
			}
		}
		cx.decide(ok, "epoch-list-key", "netmap.ListNodesEpoch", "scans 'p'‖BE4(epoch), the fixed-width prefix NewEpoch writes under", "listNodes(e) does not scan the prefix NewEpoch writes the list of epoch e under (or uses a variable-width encoding: epoch 1 would also list epoch 257)", w.pos(m.Fn.Pos()))
	}
	if ff := dropFn; ff != nil {
		a := cx.analyze(&Query{Name: "std", Root: ff})
		tb := a.tb
		var f *Site
		for _, s := range a.Sites(func(s *Site) bool { return s.Callee == "storage.Find" }) {
			if ps := keyParts(s.Args[1]); len(ps) == 2 && ps[0] == tb.constBytes("p") && len(ff.Params) == 2 && fixedEnc(ps[1], fnParam(tb, ff, 1)) && ps[1].Name == writeEnc {
				f = s
			}
		}
		okD := f != nil
		if okD {
			okD = false
			for _, s := range a.RealEffects() {
				if s.Effect == "delete" && s.Args[1].Op == "iterval" && s.Args[1].Args[0] == f.Val {
					okD = true
				}
			}
		}
		cx.decide(okD, "epoch-list-key", "netmap.dropNetmap", "deletes every key of the scan of 'p'‖BE4(epoch)", "the drop helper does not delete exactly the keys stored for the epoch", w.pos(ff.Pos()))
	} else {
		cx.violated("epoch-list-key", "netmap.dropNetmap", "NewEpoch no longer deletes the keys of an old per-epoch list", "")
	}
}

// netmapDropFn: the helper that deletes a per-epoch list, found from NewEpoch:
// the function containing the delete of the keys of a scan of family 'p'.
func netmapDropFn(cx *CheckCtx) *ssa.Function {
	m := cx.method("netmap", "NewEpoch")
	if m == nil {
		return nil
	}
	a := cx.run(m)
	return siteFunc(a, func(s *Site) bool {
		if s.Effect != "delete" || s.Args[1].Op != "iterval" {
			return false
		}
		f := s.Args[1].Args[0]
		return f.Op == "find" && keyFamily(f.Args[0]) == "p"
	})
}

// hasLt: x < y is a unit fact at st.
func hasLt(a *Analysis, st *CNF, x, y *Term) bool {
	x, y = a.Canon(st, x), a.Canon(st, y)
	for _, f := range a.unitFacts(st) {
		if f.kind == KLt && f.pos && f.A == x && f.B == y {
			return true
		}
	}
	return false
}

// checkStoredDivisors: D1 of C08, shared with C06 ("a tick succeeds iff …": a stored divisor of the tick
// that can be written as 0 makes every later tick fault).
func checkStoredDivisors(cx *CheckCtx, c *Contract) {
	w := cx.W
	// D1: divisors that are storage reads, and every writer of their key
	divKeys := map[string]string{}
	for _, m := range c.Methods {
		a := cx.run(m)
		for _, wt := range a.watches {
			bo := wt.Instr.(*ssa.BinOp)
			d := a.tb.Term(wt.Ctx, bo.Y)
			for _, alt := range a.tb.Alts(d) {
				if alt.Op == "read" {
					if k, ok := alt.Args[0].BytesConst(); ok {
						divKeys[k] = w.pos(bo.Pos())
					}
				}
			}
		}
	}
	cx.count("stored_divisors", len(divKeys))
	roots := append([]*Method{}, c.Methods...)
	if dm := cx.method("netmap", "_deploy"); dm != nil {
		roots = append(roots, dm)
	}
	nW := 0
	for _, m := range roots {
		a := cx.run(m)
		for _, s := range a.RealEffects() {
			if s.Effect != "put" {
				if s.Effect == "delete" {
					if k, ok := s.Args[1].BytesConst(); ok && divKeys[k] != "" {
						cx.violated("divisor-nonzero", "netmap."+m.GoName+"/"+siteConstruct(a, s), "the key "+k+" used as a divisor at "+divKeys[k]+" is deleted", s.Where(w))
					}
				}
				continue
			}
			k, ok := s.Args[1].BytesConst()
			if !ok || divKeys[k] == "" {
				continue
			}
			nW++
			v := a.canonAt(s, s.Args[2])
			pos := false
			if n, isC := v.IntConst(); isC {
				pos = n > 0
			} else {
				pos = a.holdsAt(s.In, -a.litLtC(v, 1))
			}
			cx.decide(pos, "divisor-nonzero", "netmap."+m.GoName+"/"+siteConstruct(a, s), "stores a value established > 0", "'"+k+"' is used as a divisor ("+divKeys[k]+") but "+m.GoName+" can store a value that is not > 0 ("+v.pretty()+"): every later tick would fault", s.Where(w))
		}
	}
	cx.count("divisor_writers", nW)
	cx.floor("stored_divisors", 1)
	cx.floor("divisor_writers", 2)
}

// isAppendWrapper: fn is `func(list []T, item T) []T { return append(list, item) }`.
func isAppendWrapper(fn *ssa.Function) bool {
	if fn == nil || len(fn.Blocks) != 1 || len(fn.Params) != 2 {
		return false
	}
	b := fn.Blocks[0]
	r, ok := b.Instrs[len(b.Instrs)-1].(*ssa.Return)
	if !ok || len(r.Results) != 1 {
		return false
	}
	base, elems, isApp := appendOf(r.Results[0])
	return isApp && base == ssa.Value(fn.Params[0]) && len(elems) == 1 && elems[0] == ssa.Value(fn.Params[1])
}
