package main

// C17, C19 — vote-collected actions and GAS accounting (DESIGN §5).

import (
	"fmt"
	"go/constant"
	"go/token"
	"go/types"
	"strings"

	"golang.org/x/tools/go/ssa"
)

const neofsPkg = "contracts/neofs"

func init() {
	register(&Check{
		ID:        "C17",
		Level:     "other",
		Technique: "must-facts at the vote call and at the action effects (member, threshold literal over the same key list), exit-fact exclusion of the action on the quiet return, operator-normalised boundary agreement of the 20-block window between sibling functions, term check of the refreshed ballot, membership-loop dominance of the voter insertion",
		Explanation: "For cheque, alphabetUpdate, setConfig and innerRingCandidateRemove in notary-disabled mode: D1 the voter passed to common.Vote is established non-empty and is the element of the stored Alphabet list whose witness was checked. " +
			"D2 the action's effects are reachable only under ¬(n < ⌊2·len(K)/3⌋+1) with n the result of that Vote call and K the same stored list, the return under n < threshold executes none of them, and RemoveVotes is called with the same decision id before the action. " +
			"D3 Vote treats a ballot as expired exactly when TryPurgeVotes does not treat it as alive (gap > 20, the same constant), a counted vote stores the ballot with Height = current height and a new ballot starts at the current height. D4 distinct-principal counting: the voter is appended only after it was compared with every recorded voter and found different; the count returned is the length of the voter list; ballots of other ids are carried over unchanged. M: vote actions fire at every non-quiet return; common.Vote keeps a ballot only on the not-expired side, appends a new ballot only when none was found and visits every ballot; TryPurgeVotes answers false only on the alive side and purges after all were found expired; RemoveVotes removes at the index of the id match; loaders getBallots/getAlphabetNodes. R6: the ballot id handed to Vote may depend on the decision id the method was called with (SSA backward slice; certain independence is reported). R10: the stored layout of common.Ballot is decided here as well. R11 decode-absent: an item that some method of the contract deletes is decoded with std.Deserialize only where the read was found non-nil (the ballot list). R13 catching-frame: no function with a deferred recover that a method of the property's contracts can reach lies outside the who-may-catch table (container.deleteNNSRecords).",
		NotCovered: "timing over block schedules and competing ids at run time; the notary-enabled branch is C03.",
		Run:        runC17,
	})
	register(&Check{
		ID:        "C19",
		Level:     "other",
		Technique: "must-facts at the notification/transfer sites (caller, amount bounds, checked results), canonical arithmetic terms of the shares, loop-shape of the per-node transfers",
		Explanation: "D1 neofs.OnNEP17Payment notifies Deposit only under caller = GAS ∧ 0 < amount ≤ 9000·10^8 with receiver ∈ {20-byte data, sender}. D2 Withdraw: W(user), 0 ≤ amount ≤ 9000, exactly one fee transfer to the stored Processing address with Notary or one per stored Alphabet key without, amount = configured WithdrawFee, every transfer result checked, notified amount = amount·10^8. " +
			"D3 Cheque pays exactly gas.Transfer(self → user, amount) once, result checked, and notifies the same terms. D4 InnerRingCandidateAdd charges the configured fee from the standard account of the witnessed key to the contract with the marker OnNEP17Payment ignores. " +
			"D5 alphabet.Emit: proxy share = g/2, node share = (g − g/2)·7/8/len(InnerRing) with the same list that is iterated, one transfer per element, loop-invariant amount. D6 OnNEP17Payment of Proxy/Processing (GAS) and Alphabet (GAS ∨ NEO) cannot return normally otherwise. D7 Cheque runs the vote-protocol rules of C17 itself (paid once: the ballot of the same id is removed before the payout). M: the deposit callback aborts only for the documented reasons and reports every accepted payment but the marker one; Withdraw faults only without W(user), outside [0, 9000] or after a failed fee transfer; a candidate is charged and stored exactly when not stored yet; the Emit loop is gone round only for a zero share. R6: no abort of the deposit callback is reachable with the candidate-fee marker as data (the fee is a setting, the deposit limits do not apply to it). R7: the documented gate of alphabet.Emit (the gate rule of C03) is decided here as well. R8: the documented gate of Cheque (Alphabet multisignature with Notary; gate rule shared with C03) is decided here as well. R9: a payment made by the accepted native token is never refused by Proxy/Processing/Alphabet (no abort is satisfiable with that caller). R11: decode-absent for the ballot list read by Cheque (shared with C17). S3: the vote protocol of all four voting methods (they share one ballot list: RemoveVotes is handed the id the method voted with). R13 catching-frame: no function with a deferred recover that a method of the property's contracts can reach lies outside the who-may-catch table (container.deleteNNSRecords). R13 abort-not-throw: payment refusals end in util.Abort, not in a catchable panic.",
		NotCovered: "the GAS balance identity over histories; behaviour of the native contracts.",
		Run:        runC19,
	})
}

// thr23: ⌊2·len(K)/3⌋+1
func thr23(tb *TermBuilder, K *Term) *Term {
	n := tb.mk("len", "", 0, K)
	return tb.binop(token.ADD, tb.binop(token.QUO, tb.binop(token.MUL, n, tb.constInt(2), intType), tb.constInt(3), intType), tb.constInt(1), intType)
}

func runC17(cx *CheckCtx) {
	w := cx.W
	nCalls := voteProtocol(cx, []string{"Cheque", "AlphabetUpdate", "SetConfig", "InnerRingCandidateRemove"})
	cx.count("vote_call_sites", nCalls)
	cx.floor("vote_call_sites", 4)
	runC17Common(cx, w)
}

// voteProtocol: the per-method rules of a notary-disabled vote (the voter is the
// witnessed member, the action fires exactly at the threshold, the ballot of the
// same id is removed first). Used by C17 for every voting method and by C19 for
// Cheque (a cheque is paid once).
func voteProtocol(cx *CheckCtx, names []string) int {
	w := cx.W
	nCalls := 0
	for _, name := range names {
		m := cx.method("neofs", name)
		if m == nil {
			continue
		}
		a := cx.run(m)
		tb := a.tb
		var votes []*Site
		for _, s := range a.Sites(func(s *Site) bool { return s.Inlined && isVoteFn(cx, s.Callee, 0) }) {
			votes = append(votes, s)
		}
		key := "contracts/neofs." + name
		checkDecodeAbsent(cx, a, "neofs", key)
		if len(votes) != 1 {
			cx.violated("vote-call", key, fmt.Sprintf("%s has %d common.Vote call sites, expected exactly one", name, len(votes)), w.pos(m.Fn.Pos()))
			continue
		}
		nCalls++
		v := votes[0]
		voteFrame := v.Ctx.kids[v.Instr]
		// D0 the ballot is the decision's: the id handed to Vote may depend on the decision id the method was
		// called with (for the candidate removal, which has no id, on the candidate key). Decided on the SSA
		// form by a backward slice that over-approximates dependence: "independent" is certain.
		{
			pn := "id"
			if name == "InnerRingCandidateRemove" {
				pn = "key"
			}
			var dp *ssa.Parameter
			for _, p := range m.Fn.Params {
				if p.Name() == pn {
					dp = p
				}
			}
			if dp == nil {
				if pi, ok := abiParamOrder["neofs."+name]; ok {
					for i, n := range pi {
						if n == pn && i < len(m.Fn.Params) {
							dp = m.Fn.Params[i]
						}
					}
				}
			}
			var vc ssa.CallInstruction
			if v.Instr != nil && v.Instr.Parent() == m.Fn {
				vc = v.Instr
			}
			switch {
			case dp == nil:
				cx.undecided("ballot-id", key, name+" has no parameter "+pn+" any more: the decision the ballot belongs to cannot be identified", w.pos(m.Fn.Pos()))
			case vc == nil || len(vc.Common().Args) < 2:
				cx.holds("ballot-id", key, "the Vote call is made through a helper: dependence of the ballot id on the decision "+pn+" not decided here")
			default:
				cx.decide(ssaMayDependOn(vc.Common().Args[1], dp), "ballot-id", key, "the ballot id handed to Vote is computed from the decision "+pn+" of the call", name+" collects its votes under "+v.Args[1].pretty()+", which is computed without the decision "+pn+" the method was called with: votes for different decisions are counted together (and votes for one decision may be split)", v.Where(w))
			}
		}
		// D1 voter
		voter := a.Canon(v.In, v.Args[2])
		okMem := false
		var K *Term
		for _, alt := range append([]*Term{voter}, tb.Alts(voter)...) {
			if alt.Op == "elem" && keySource(tb, alt.Args[0]) == "stored" {
				K = alt.Args[0]
				if a.holdsAt(v.In, a.litW(a.generalize(alt))) {
					okMem = true
				}
			}
		}
		nonEmpty := false
		for _, x := range a.eqClass(v.In, v.Args[2]) {
			if a.holdsAt(v.In, -a.litEqC(a.litLen(x), 0)) {
				nonEmpty = true
			}
		}
		cx.decide(okMem && nonEmpty, "voter-is-member", key, "the voter key is established non-empty and is the stored Alphabet key whose witness was checked", name+" can count a vote whose voter key is empty or not the witnessed member of the stored Alphabet list: a stranger's invocation is counted", v.Where(w))
		// D2 threshold
		n := v.Val
		var ballotSites, actions []*Site
		var rmFrame *Ctx
		var rm *Site
		for _, s := range a.Sites(func(s *Site) bool { return s.Inlined && isVoteFn(cx, s.Callee, 1) }) {
			rm = s
			rmFrame = s.Ctx.kids[s.Instr]
		}
		for _, e := range a.RealEffects() {
			switch {
			case voteFrame != nil && e.Ctx.isDescOrSelf(voteFrame), rmFrame != nil && e.Ctx.isDescOrSelf(rmFrame):
				ballotSites = append(ballotSites, e)
			default:
				actions = append(actions, e)
			}
		}
		if K == nil || rm == nil || len(actions) == 0 {
			cx.violated("threshold", key, name+" no longer removes the ballot and acts after the vote", w.pos(m.Fn.Pos()))
			continue
		}
		thr := thr23(tb, K)
		// literal "notary disabled": the branch literal on the stored flag
		var ndLit int32
		for id := int32(1); id < int32(len(a.lt.lits)); id++ {
			l := a.lt.lits[id]
			if l.Kind == KB && l.A.Op == "read" && len(l.A.Args) == 1 {
				if k, _ := l.A.Args[0].BytesConst(); k == "notary" {
					ndLit = id
				}
			}
		}
		// the comparison literal n < threshold, with the threshold term read modulo the
		// equalities known at the vote call (the key list is held in a variable)
		// "below the threshold" as a signed literal: n < thr, or — the same thing for integers —
		// ¬(thr−1 < n), which is how `n <= twoThirds` reads
		var ltLit int32
		thrM1 := tb.binop(token.SUB, thr, tb.constInt(1), intType)
		for id := int32(1); id < int32(len(a.lt.lits)); id++ {
			l := a.lt.lits[id]
			if l.Kind == KLt && l.A == n && a.Canon(v.In, l.B) == thr {
				ltLit = id
			}
			if l.Kind == KLt && l.B == n && a.Canon(v.In, l.A) == thrM1 && ltLit == 0 {
				ltLit = -id
			}
		}
		if ltLit == 0 {
			cx.violated("threshold", key+"/effect", name+" does not compare the vote count with ⌊2·len(K)/3⌋+1 over the stored Alphabet list the voter was taken from", v.Where(w))
			continue
		}
		okThr := ndLit != 0
		detail := ""
		for _, e := range actions {
			// notary-disabled ⇒ ¬(n < thr) at the action (a candidate removing itself needs no vote)
			q := []int32{-ndLit, -ltLit}
			if name == "InnerRingCandidateRemove" {
				q = append(q, a.litW(paramTerm(tb, m, "key")))
			}
			if !a.holdsAt(e.In, q...) {
				okThr = false
				detail = siteDesc(a, e)
			}
		}
		cx.decide(okThr, "threshold", key+"/effect", "every action effect is reachable (without Notary) only under ¬(n < ⌊2·len(K)/3⌋+1), n = result of the Vote call, K = the stored list the voter was taken from",
			name+": "+detail+" is reachable in notary-disabled mode without n ≥ ⌊2n/3⌋+1 over the stored Alphabet list (threshold weakened, computed over another list, or compared the wrong way)", v.Where(w))
		// quiet return executes no action: exits with n < thr
		okQuiet := true
		for _, ex := range a.Exits() {
			for _, e := range actions {
				q := []int32{-ndLit, -ltLit, -a.eLit(e)}
				if name == "InnerRingCandidateRemove" {
					q = append(q, a.litW(paramTerm(tb, m, "key")))
				}
				if !a.holdsAt(ex.State, q...) {
					okQuiet = false
				}
			}
		}
		cx.decide(okQuiet, "threshold", key+"/quiet", "n < threshold ⇒ no action effect executed", "the action can be executed although the vote count is below the threshold", v.Where(w))
		// the decision takes effect: every exit that is not the quiet "below threshold" return has
		// executed the documented action of the method (its store / delete and its notification)
		type want struct {
			desc string
			pick func(e *Site) bool
		}
		var wants []want
		byNotify := func(n string) want {
			return want{"Notify " + n, func(e *Site) bool { return notifyName(e) == n }}
		}
		switch name {
		case "AlphabetUpdate":
			wants = []want{{"the store of the new Alphabet list", func(e *Site) bool {
				k, _ := e.Args[1].BytesConst()
				return e.Effect == "put" && k == "alphabet"
			}}, byNotify("AlphabetUpdate")}
		case "SetConfig":
			wants = []want{{"the store of the configuration value", func(e *Site) bool {
				return e.Effect == "put" && keyFamily(e.Args[1]) == "config" && e.Args[2] == paramTerm(tb, m, "val")
			}}, byNotify("SetConfig")}
		case "Cheque":
			wants = []want{{"the GAS transfer", func(e *Site) bool { return e.Effect == "transfer" }}, byNotify("Cheque")}
		case "InnerRingCandidateRemove":
			wants = []want{{"the delete of the candidate", func(e *Site) bool {
				return e.Effect == "delete" && keyFamily(e.Args[1]) == "candidates"
			}}}
		}
		okFire, whyFire := true, ""
		for _, wn := range wants {
			var site *Site
			for _, e := range actions {
				if wn.pick(e) {
					site = e
				}
			}
			if site == nil {
				okFire, whyFire = false, wn.desc+" is gone"
				continue
			}
			for _, ex := range a.Exits() {
				q := []int32{a.eLit(site), ltLit}
				if name == "InnerRingCandidateRemove" {
					// nothing to delete when the candidate is not stored
					for id := int32(1); id < int32(len(a.lt.lits)); id++ {
						if l := a.lt.lits[id]; l.Kind == KNil && l.A.Op == "read" && len(l.A.Args) > 0 && l.A.Args[0] == site.Args[1] {
							q = append(q, id)
						}
					}
				}
				if !a.holdsAt(ex.State, q...) {
					okFire, whyFire = false, wn.desc+" is not executed on the path to the exit at "+exitPos(w, ex)
				}
			}
		}
		cx.decide(okFire && len(wants) > 0, "threshold", key+"/fires", "every return other than the quiet one below the threshold has executed the action", name+" can return normally at (or above) the threshold without taking effect: "+whyFire, v.Where(w))
		// RemoveVotes before the action, same id
		okRm := rm.Args[1] == v.Args[1]
		for _, e := range actions {
			var marks []int32
			for _, b := range ballotSites {
				if rmFrame != nil && b.Ctx.isDescOrSelf(rmFrame) {
					marks = append(marks, a.eLit(b))
				}
			}
			q := append([]int32{-ndLit}, marks...)
			if name == "InnerRingCandidateRemove" {
				q = append(q, a.litW(paramTerm(tb, m, "key")))
			}
			if !a.holdsAt(e.In, q...) {
				okRm = false
			}
		}
		cx.decide(okRm, "threshold", key+"/remove-votes", "the ballot of the same id is removed before the action", "the accepted decision's ballot is not removed (or another id's is): the action fires again with the next vote", rm.Where(w))
	}
	return nCalls
}

func runC17Common(cx *CheckCtx, w *World) {
	checkLoaders(cx, "common")
	checkStoredLayouts(cx, "common")
	checkLoaders(cx, "contracts/neofs")
	// ---- common.Vote / TryPurgeVotes
	voteFn, _, purgeFn := voteFns(cx)
	if voteFn == nil || purgeFn == nil {
		return
	}
	// D3 boundary agreement
	type bnd struct {
		op  string
		c   int64
		pos token.Pos
	}
	window := func(fn *ssa.Function) []bnd {
		tb := newTermBuilder(w, fn)
		var out []bnd
		for _, b := range fn.Blocks {
			for _, ins := range b.Instrs {
				// the comparison itself, or a call of a helper whose (inlined) result is the comparison
				var t *Term
				var pos token.Pos
				switch x := ins.(type) {
				case *ssa.BinOp:
					t, pos = tb.Term(tb.root, x), x.Pos()
				case *ssa.Call:
					if cal := x.Common().StaticCallee(); cal != nil && cal.Blocks != nil && isBool(x.Type()) {
						t, pos = tb.Term(tb.root, x), x.Pos()
					}
				}
				if t == nil || t.Op != "bin" || len(t.Args) != 2 {
					continue
				}
				isGap := func(z *Term) bool {
					return z.Op == "sum" && z.contains(func(x *Term) bool { return isCall(x, "native/ledger.CurrentIndex") }) && z.contains(func(x *Term) bool { return x.Op == "field" && x.Name == "Height" })
				}
				x, y := t.Args[0], t.Args[1]
				cx2, okx := x.IntConst()
				cy, oky := y.IntConst()
				switch {
				case t.Name == "<" && okx && isGap(y): // c < gap
					out = append(out, bnd{">", cx2, pos})
				case t.Name == "<=" && okx && isGap(y): // c <= gap
					out = append(out, bnd{">=", cx2, pos})
				case t.Name == "<=" && oky && isGap(x): // gap <= c ≡ ¬(gap > c)
					out = append(out, bnd{">", cy, pos})
				case t.Name == "<" && oky && isGap(x): // gap < c ≡ ¬(gap >= c)
					out = append(out, bnd{">=", cy, pos})
				}
			}
		}
		return out
	}
	bv, bp := window(voteFn), window(purgeFn)
	okW := len(bv) == 1 && len(bp) == 1 && bv[0].op == ">" && bp[0].op == ">" && bv[0].c == 20 && bp[0].c == 20
	detail := ""
	if !okW {
		detail = fmt.Sprintf("Vote expires a ballot under %v, TryPurgeVotes treats it as alive unless %v: the 20-block window is not the same predicate (gap > 20) at both sites", bv, bp)
	}
	cx.decide(okW, "window", "common.Vote|TryPurgeVotes", "both sites use gap > 20 as 'expired'", detail, w.pos(voteFn.Pos()))
	// refreshed ballot and new ballot carry the current height, the id and the extended voter list
	{
		tb := newTermBuilder(w, voteFn)
		id, from := tb.mk("param", "1:id", 0), tb.mk("param", "2:from", 0)
		cur := tb.mk("call", "native/ledger.CurrentIndex", 0)
		nApp, okRefresh, okNew, okCarry := 0, false, false, false
		var newBlock, carryBlock *ssa.BasicBlock
		var fromParam ssa.Value
		for _, p := range voteFn.Params {
			if p.Name() == "from" {
				fromParam = p
			}
		}
		for _, b := range voteFn.Blocks {
			for _, ins := range b.Instrs {
				c, ok := ins.(*ssa.Call)
				if !ok {
					continue
				}
				base, elems, isApp := appendOf(c)
				if !isApp || len(elems) != 1 {
					continue
				}
				_ = base
				et := tb.Term(tb.root, elems[0])
				if et == from {
					continue // voters = append(voters, from)
				}
				nApp++
				if et.Op != "struct" {
					continue
				}
				setOf := func(t *Term) map[*Term]bool {
					m := map[*Term]bool{}
					for _, x := range tb.Alts(t) {
						m[x] = true
					}
					return m
				}
				ids, vts, hts := setOf(tb.field(et, "ID")), setOf(tb.field(et, "Voters")), setOf(tb.field(et, "Height"))
				if len(ids) == 1 && ids[id] && len(hts) == 1 && hts[cur] {
					newBlock = c.Block()
					// brand-new ballot
					for vt := range vts {
						if vt.Op == "arr" && len(vt.Args) == 1 && vt.Args[0] == from && len(vts) == 1 {
							okNew = true
						}
					}
					continue
				}
				// loop ballot: either carried over unchanged or refreshed as a whole
				var el *Term
				for x := range ids {
					if x.Op == "field" && x.Name == "ID" && x.Args[0].Op == "elem" {
						el = x.Args[0]
					}
				}
				if el == nil {
					continue
				}
				app := false
				for vt := range vts {
					if vt.Op == "append" && len(vt.Args) == 2 && vt.Args[0] == tb.field(el, "Voters") && vt.Args[1].Op == "arr" && len(vt.Args[1].Args) == 1 && vt.Args[1].Args[0] == from {
						app = true
					}
				}
				carryBlock = c.Block()
				okCarry = ids[tb.field(el, "ID")] && vts[tb.field(el, "Voters")] && hts[tb.field(el, "Height")]
				okRefresh = app && len(vts) == 2 && hts[cur] && len(hts) == 2 && (len(ids) == 1 || (len(ids) == 2 && ids[id]))
			}
		}
		// polarity and loop shape: a ballot of the loop is kept (carried or refreshed) only on the
		// "not expired" side of the window test; the new ballot is appended only on the "not found"
		// side; the loop over the ballots is left only on exhaustion or by returning the count of a
		// voter who already voted
		okSides, whySides := carryBlock != nil && newBlock != nil, "the carry / new-ballot appends are gone"
		if okSides {
			whySides = ""
			nWin, nFound := 0, 0
			for _, b := range voteFn.Blocks {
				ifi, isIf := b.Instrs[len(b.Instrs)-1].(*ssa.If)
				if !isIf {
					continue
				}
				t := tb.Term(tb.root, ifi.Cond)
				if side, isWin := expiredSide(t); isWin {
					nWin++
					if !viaEdge(b, 1-side, carryBlock) {
						okSides, whySides = false, "an expired ballot can be kept (or a live one dropped): the window test guards the wrong side"
					}
				}
				if t.Op == "bin" && t.Name == "<" && len(t.Args) == 2 && t.Args[0].Op == "phi" {
					if n, isC := t.Args[1].IntConst(); isC && n == 0 {
						nFound++
						if !viaEdge(b, 0, newBlock) {
							okSides, whySides = false, "a new ballot is created although the decision's ballot was found (or not created when it was not)"
						}
					}
				}
			}
			if nWin != 1 || nFound != 1 {
				okSides, whySides = false, "the window test or the 'found' test is gone"
			}
			if h := innermostLoop(carryBlock); h != nil {
				for _, e := range loopExits(h) {
					if e.from == h {
						continue
					}
					if _, isRet := e.to.Instrs[len(e.to.Instrs)-1].(*ssa.Return); isRet && len(e.to.Instrs) <= 3 {
						continue // "already voted": return the count
					}
					okSides, whySides = false, "the loop over the ballots can be left before every ballot was carried over"
				}
			} else {
				okSides, whySides = false, "the carry is not in a loop over the ballots"
			}
		}
		// TryPurgeVotes: 'false' only on the alive side of its window test, the purge only after every
		// ballot was found expired
		okPurge, whyPurge := false, "the window test of TryPurgeVotes is gone"
		ptb := newTermBuilder(w, purgeFn)
		for _, b := range purgeFn.Blocks {
			ifi, isIf := b.Instrs[len(b.Instrs)-1].(*ssa.If)
			if !isIf {
				continue
			}
			side, isWin := expiredSide(ptb.Term(ptb.root, ifi.Cond))
			if !isWin {
				continue
			}
			okPurge, whyPurge = true, ""
			for _, rb := range purgeFn.Blocks {
				r, isR := rb.Instrs[len(rb.Instrs)-1].(*ssa.Return)
				if !isR || len(r.Results) != 1 {
					continue
				}
				c, isC := r.Results[0].(*ssa.Const)
				if !isC || c.Value == nil {
					okPurge, whyPurge = false, "the result is not a constant per path"
					continue
				}
				if !constant.BoolVal(c.Value) && !guardedBy(b, 1-side, rb) {
					okPurge, whyPurge = false, "'ballots in progress' is answered on the expired side of the window test"
				}
				if constant.BoolVal(c.Value) {
					h := innermostLoop(b)
					if h == nil {
						okPurge, whyPurge = false, "the window test is not in a loop over the ballots"
						continue
					}
					for _, e := range loopExits(h) {
						if e.from != h && blockReaches(e.to, rb, nil) && !purgeBehindFlag(h, b, side, rb) {
							// (in the flag form the break shares its target with exhaustion; the purge then
							// has to sit on the expired-only side of the flag test)
							okPurge, whyPurge = false, "the purge can be reached before every ballot was found expired"
						}
					}
				}
			}
		}
		cx.decide(okPurge, "window", "common.TryPurgeVotes/sides", "false exactly when a ballot inside the window is met; the purge after all were found expired", "common.TryPurgeVotes: "+whyPurge, w.pos(purgeFn.Pos()))
		// RemoveVotes removes the ballot at the index where the id matched
		if _, rmFn, _ := voteFns(cx); rmFn != nil {
			okRmI, whyRmI := false, "no util.Remove call"
			for _, b := range rmFn.Blocks {
				for _, ins := range b.Instrs {
					c, isC := ins.(*ssa.Call)
					if !isC || c.Common().StaticCallee() == nil || fq(c.Common().StaticCallee()) != "util.Remove" || len(c.Common().Args) != 2 {
						continue
					}
					okRmI, whyRmI = false, "the removed index is not the loop index at which the ballot id matched"
					phi, isPhi := stripConv(c.Common().Args[1]).(*ssa.Phi)
					if !isPhi {
						// the search extracted into a helper: it returns a loop index only on the equal
						// side of an id test and a constant only after exhaustion
						if hc, isCall := stripConv(c.Common().Args[1]).(*ssa.Call); isCall {
							if h := hc.Common().StaticCallee(); h != nil && h.Pkg == rmFn.Pkg && h.Blocks != nil {
								goodH, nIdx := true, 0
								for _, hb := range h.Blocks {
									r, isR := hb.Instrs[len(hb.Instrs)-1].(*ssa.Return)
									if !isR || len(r.Results) != 1 {
										continue
									}
									if _, isConst := r.Results[0].(*ssa.Const); isConst {
										exh := false
										for _, p := range hb.Preds {
											if isLoopHeader(p) && !loopBlocks(p)[hb] {
												exh = true
											}
										}
										if !exh || len(hb.Preds) != 1 {
											goodH = false
										}
										continue
									}
									nIdx++
									onEq := false
									for _, tb2 := range h.Blocks {
										ifi, isIf := tb2.Instrs[len(tb2.Instrs)-1].(*ssa.If)
										if !isIf {
											continue
										}
										if _, _, isEq := isEqualityCall(ifi.Cond); isEq && viaEdge(tb2, 0, hb) {
											onEq = true
										}
									}
									if !onEq {
										goodH = false
									}
								}
								if goodH && nIdx >= 1 {
									okRmI, whyRmI = true, ""
								}
							}
						}
						continue
					}
					// one edge from the loop header (not found: 0) and the others from the equal side of an id test
					good := true
					nMatch := 0
					for i, p := range phi.Block().Preds {
						if isLoopHeader(p) {
							continue
						}
						nMatch++
						// the value on this edge is the loop index, the edge is on the equal side of the id test
						found := false
						for _, tb2 := range rmFn.Blocks {
							ifi, isIf := tb2.Instrs[len(tb2.Instrs)-1].(*ssa.If)
							if !isIf {
								continue
							}
							if _, _, isEq := isEqualityCall(ifi.Cond); isEq && viaEdge(tb2, 0, p) {
								found = true
							}
						}
						if _, isConst := phi.Edges[i].(*ssa.Const); isConst || !found {
							good = false
						}
					}
					if good && nMatch >= 1 {
						okRmI, whyRmI = true, ""
					}
				}
			}
			cx.decide(okRmI, "window", "common.RemoveVotes/index", "removes the ballot at the index where the id matched", "common.RemoveVotes: "+whyRmI+" — another decision's ballot is removed", w.pos(rmFn.Pos()))
		}
		cx.decide(okSides, "window", "common.Vote/sides", "expired ballots are dropped and only those; a new ballot only when none was found; every ballot is visited", "common.Vote: "+whySides, w.pos(voteFn.Pos()))
		cx.decide(okRefresh, "window", "common.Vote/refresh", "a counted vote stores {id, voters+from, Height = current height}", "a counted vote does not refresh the ballot's height (or id/voters): the 20-block window is measured from the first vote instead of the previous one", w.pos(voteFn.Pos()))
		cx.decide(okNew, "window", "common.Vote/new", "a new ballot is {id, [from], Height = current height}", "a new ballot is not created as {id, [voter], current height}", w.pos(voteFn.Pos()))
		cx.decide(okCarry, "window", "common.Vote/carry", "ballots of other decisions are carried over unchanged", "ballots of other decision ids are not carried over", w.pos(voteFn.Pos()))
		// D4 distinct-principal counting
		var appFrom *ssa.Call
		for _, b := range voteFn.Blocks {
			for _, ins := range b.Instrs {
				if c, ok := ins.(*ssa.Call); ok {
					if _, elems, isApp := appendOf(c); isApp && len(elems) == 1 && elems[0] == fromParam {
						appFrom = c
					}
				}
			}
		}
		if appFrom == nil {
			cx.violated("distinct-principal", "common.Vote/insert", "the voter is not appended to the ballot's voter list", w.pos(voteFn.Pos()))
		} else {
			okM, memIf, coll := membershipGuard(voteFn, func(v ssa.Value) bool { return v == fromParam }, appFrom.Block())
			base, _, _ := appendOf(appFrom)
			where := w.pos(appFrom.Pos())
			if memIf != nil {
				where = w.pos(memIf.Pos())
			}
			cx.decide(okM && coll == base, "distinct-principal", "common.Vote/membership-dominates", "the voter is appended only after it was compared with every recorded voter of that ballot and found different", "a key that already voted can be appended again: repeated votes of one Alphabet key are counted", where)
			// id match guards the branch
			okId := false
			for _, b := range voteFn.Blocks {
				if i, ok := b.Instrs[len(b.Instrs)-1].(*ssa.If); ok {
					if x, y, isEq := isEqualityCall(i.Cond); isEq {
						tx, ty := tb.Term(tb.root, x), tb.Term(tb.root, y)
						if (tx == id && ty.Op == "field" && ty.Name == "ID") || (ty == id && tx.Op == "field" && tx.Name == "ID") {
							if viaEdge(b, 0, appFrom.Block()) {
								okId = true
							}
						}
					}
				}
			}
			cx.decide(okId, "distinct-principal", "common.Vote/same-id", "the voter is added only to the ballot whose id equals the decision id", "votes for different decision ids can be mixed", where)
		}
		// returned count = len(voters) (both when already voted and after appending)
		okCnt := true
		for _, t := range returnTerms(tb, voteFn) {
			for _, alt := range tb.Alts(t) {
				if n, isC := alt.IntConst(); isC && (n == 1 || n == -1) {
					continue
				}
				if alt.Op == "len" {
					continue
				}
				if alt.Op == "phi" || alt.Op == "cyc" {
					continue
				}
				okCnt = false
			}
		}
		cx.decide(okCnt, "distinct-principal", "common.Vote/count", "the returned count is the length of the voter list (1 for a new ballot)", "the returned vote count is not the number of distinct voters", w.pos(voteFn.Pos()))
		_ = strings.Join
	}
}

// ---------- C19 ----------

// resultChecked: the boolean result of the call is branched on and the
// "false" side cannot continue (it panics).
func resultChecked(a *Analysis, s *Site, after *Site) bool {
	v := s.Instr.Value()
	if v == nil || v.Referrers() == nil {
		return false
	}
	dead := func(b *ssa.BasicBlock) bool {
		seen := map[*ssa.BasicBlock]bool{}
		work := []*ssa.BasicBlock{b}
		for len(work) > 0 {
			x := work[len(work)-1]
			work = work[:len(work)-1]
			if seen[x] {
				continue
			}
			seen[x] = true
			switch x.Instrs[len(x.Instrs)-1].(type) {
			case *ssa.Panic:
				continue
			case *ssa.Return:
				return false
			}
			if len(x.Succs) == 0 {
				continue
			}
			if len(seen) > 8 {
				return false
			}
			work = append(work, x.Succs...)
		}
		return true
	}
	for _, r := range *v.Referrers() {
		switch x := r.(type) {
		case *ssa.If:
			if dead(x.Block().Succs[1]) {
				return true
			}
		case *ssa.UnOp:
			if x.Op == token.NOT && x.Referrers() != nil {
				for _, r2 := range *x.Referrers() {
					if i, ok := r2.(*ssa.If); ok && dead(i.Block().Succs[0]) {
						return true
					}
				}
			}
		}
	}
	return false
}

func runC19(cx *CheckCtx) {
	w := cx.W
	// a cheque is paid once: the ballot of the same id is removed before the payout
	// (every voting method shares the one ballot list: a method that removes another id's ballot — its
	// RemoveVotes handed something else than the id it voted with — wipes a pending cheque)
	voteProtocol(cx, []string{"Cheque", "AlphabetUpdate", "SetConfig", "InnerRingCandidateRemove"})
	// … and the ballot box itself counts distinct members within the window (the rules on common.Vote,
	// shared with C17/C03/C16): "once the Alphabet approves" is a count of distinct signers
	runC17Common(cx, w)
	// "emit can be triggered only by its own Alphabet node": the documented gate of Emit (shared with C03)
	if m := cx.method("alphabet", "Emit"); m != nil {
		gateRule(cx, m)
	}
	// "pays out … once the Alphabet approves": with Notary the approval is the documented Alphabet
	// multisignature (2/3+1 of the committee) — the gate of Cheque (shared with C03)
	if m := cx.method("neofs", "Cheque"); m != nil {
		gateRule(cx, m)
	}
	const maxGAS = int64(9000) * 1_0000_0000
	// ---- D1 deposit
	if m := cx.method("neofs", "OnNEP17Payment"); m != nil {
		a := cx.run(m)
		tb := a.tb
		amt, from := paramTerm(tb, m, "amount"), paramTerm(tb, m, "from")
		var dep *Site
		for _, s := range a.RealEffects() {
			if notifyName(s) == "Deposit" {
				dep = s
			} else {
				cx.violated("deposit", "neofs.OnNEP17Payment/"+siteConstruct(a, s), "unexpected effect in the payment callback", s.Where(w))
			}
		}
		if dep == nil {
			cx.violated("deposit", "neofs.OnNEP17Payment", "no Deposit notification", w.pos(m.Fn.Pos()))
		} else {
			st := dep.In
			okB := a.holdsAt(st, -a.litLtC(amt, 1)) && a.holdsAt(st, a.litLtC(amt, maxGAS+1))
			cx.decide(okB, "deposit", "neofs.OnNEP17Payment/bounds", "0 < amount ≤ 9000·10^8 established", "a deposit outside (0, 9000 GAS] is reported", dep.Where(w))
			okC := false
			for _, f := range a.unitFactsRaw(st) {
				if f.kind == KCaller && f.pos {
					if s, isC := f.A.BytesConst(); isC && len(s) == 20 {
						okC = gasHashIs(cx, s)
					}
				}
			}
			cx.decide(okC, "deposit", "neofs.OnNEP17Payment/caller", "caller = native GAS established", "tokens other than GAS are reported as deposits", dep.Where(w))
			args := notifyArgs(dep)
			okA := len(args) == 4 && args[0] == from && args[1] == amt
			if okA {
				data := paramTerm(tb, m, "data")
				for _, alt := range tb.Alts(args[2]) {
					if alt != data && alt != from {
						okA = false
					}
				}
				// data is used only when it is 20 bytes long
				if !a.holdsAt(st, a.eqLit(args[2], from), a.litEqC(a.litLen(data), 20)) && args[2] != from {
					okA = false
				}
			}
			// accepts every documented deposit: an abort is raised only with amount ≤ 0, amount > 9000
			// GAS, a caller other than GAS or data of a wrong length established
			okRej, nRej := true, 0
			data := paramTerm(tb, m, "data")
			var callerLits []int32
			for id := int32(1); id < int32(len(a.lt.lits)); id++ {
				if a.lt.lits[id].Kind == KCaller {
					callerLits = append(callerLits, -id)
				}
			}
			for _, s := range a.Sites(func(s *Site) bool { return isAbortSite(cx, s) }) {
				nRej++
				// an abort is incompatible with a documented deposit: 0 < amount ≤ 9000 GAS, caller GAS,
				// data of 20 bytes or empty
				units := []int32{-a.litLtC(amt, 1), a.litLtC(amt, maxGAS+1)}
				for _, l := range callerLits {
					units = append(units, -l)
				}
				clauses := [][]int32{{a.litEqC(a.litLen(data), 20), a.litEqC(a.litLen(data), 0)}}
				if a.satisfiable(s.In, units, clauses) {
					okRej = false
				}
			}
			// … and the only quiet return is the one for the candidate-fee marker
			okQuiet := true
			var markerLits []int32
			for id := int32(1); id < int32(len(a.lt.lits)); id++ {
				l := a.lt.lits[id]
				if l.Kind == KEq && (l.A == data && l.B.Op == "const" || l.B == data && l.A.Op == "const") {
					markerLits = append(markerLits, id)
				}
			}
			for _, ex := range a.Exits() {
				if !a.holdsAt(ex.State, append([]int32{a.eLit(dep)}, markerLits...)...) {
					okQuiet = false
				}
			}
			// the marked payment (the candidate fee the contract sends to itself) is never refused: no abort
			// can be reached with data equal to the marker, whatever the amount — the fee is a setting
			okMarked := len(markerLits) > 0
			for _, s := range a.Sites(func(s *Site) bool { return isAbortSite(cx, s) }) {
				for _, ml := range markerLits {
					if a.satisfiable(s.In, []int32{ml}, nil) {
						okMarked = false
					}
				}
			}
			cx.decide(okMarked, "deposit", "neofs.OnNEP17Payment/marker-first", "a payment carrying the candidate-fee marker is accepted whatever its amount", "a payment carrying the candidate-fee marker can be refused (the deposit limits are applied to it): with a candidate fee configured as 0 or above 9000 GAS no candidate can register", dep.Where(w))
			cx.decide(okQuiet && len(markerLits) > 0, "deposit", "neofs.OnNEP17Payment/reported", "every accepted payment is reported, except the one carrying the candidate-fee marker", "a GAS payment can be accepted without a Deposit notification (received GAS is not accounted to anybody)", dep.Where(w))
			cx.decide(okRej && nRej > 0, "deposit", "neofs.OnNEP17Payment/accepts", "aborts only for amount ≤ 0, amount > 9000 GAS, a non-GAS caller or data that is not 20 bytes (or empty)", "a deposit inside (0, 9000 GAS] paid in GAS is refused", dep.Where(w))
			cx.decide(okA, "deposit", "neofs.OnNEP17Payment/args", "Deposit(sender, amount, 20-byte data | sender, tx)", "the Deposit notification carries "+termList(args)+": amount or receiver differ from what was paid", dep.Where(w))
		}
	}
	// ---- D2 withdraw
	if m := cx.method("neofs", "Withdraw"); m != nil {
		a := cx.run(m)
		tb := a.tb
		user, amt := paramTerm(tb, m, "user"), paramTerm(tb, m, "amount")
		var tr []*Site
		var nt *Site
		for _, s := range a.RealEffects() {
			if s.Effect == "transfer" {
				tr = append(tr, s)
			}
			if notifyName(s) == "Withdraw" {
				nt = s
			}
		}
		if len(tr) != 2 || nt == nil {
			cx.violated("withdraw", "neofs.Withdraw/shape", "Withdraw no longer has the two fee-transfer sites (per Alphabet key / to Processing) and the notification", w.pos(m.Fn.Pos()))
		} else {
			okFee, okTo, okChk := true, true, true
			nLoop, nProc := 0, 0
			for _, s := range tr {
				f := s.Args[2]
				isFee := f.Op == "read"
				if isFee {
					k, _ := f.Args[0].BytesConst()
					isFee = k == "configWithdrawFee"
				}
				if !isFee || s.Args[0] != user {
					okFee = false
				}
				to := s.Args[1]
				switch {
				case isCall(to, "contract.CreateStandardAccount") && to.Args[0].Op == "elem" && keySource(tb, to.Args[0].Args[0]) == "stored":
					nLoop++
					if ok, _ := everyElement(a, s, nil); !ok {
						okTo = false
					}
				case to.Op == "read":
					k, _ := to.Args[0].BytesConst()
					if k == "processingScriptHash" && !siteInLoop(s) {
						nProc++
					} else {
						okTo = false
					}
				default:
					okTo = false
				}
				if !resultChecked(a, s, nt) {
					okChk = false
				}
			}
			cx.decide(okFee, "withdraw", "neofs.Withdraw/fee", "every fee transfer moves config WithdrawFee from the user", "the withdrawal fee is not the configured WithdrawFee taken from the requesting user", tr[0].Where(w))
			cx.decide(okTo && nLoop == 1 && nProc == 1, "withdraw", "neofs.Withdraw/receivers", "one transfer to the stored Processing address with Notary, one per stored Alphabet key without", "the withdrawal fee is not paid once to Processing (Notary) / once per stored Alphabet key (no Notary)", tr[0].Where(w))
			cx.decide(okChk, "withdraw", "neofs.Withdraw/checked", "the notification is reachable only if every executed fee transfer returned true", "a failed fee transfer does not abort the withdrawal request", nt.Where(w))
			// exclusive: notary ⇒ only processing; else only alphabet loop
			st := nt.In
			// converse: a request is refused only without the user's witness, outside [0, 9000] or
			// when a fee transfer failed
			okAcc, nAcc := true, 0
			reasons := []int32{a.litLtC(amt, 0), -a.litLtC(amt, 9001), -a.litW(user)}
			for _, s := range tr {
				if s.Val != nil {
					reasons = append(reasons, -a.litB(s.Val))
				}
			}
			for k := range a.in {
				if k.idx != 0 {
					continue
				}
				if _, isPanic := k.b.Instrs[len(k.b.Instrs)-1].(*ssa.Panic); !isPanic {
					continue
				}
				for _, p := range k.b.Preds {
					if st2 := a.edgeState(k.ctx, p, k.b); st2 != nil {
						nAcc++
						if !a.holdsAt(st2, reasons...) {
							okAcc = false
						}
					}
				}
			}
			cx.decide(okAcc && nAcc > 0, "withdraw", "neofs.Withdraw/accepts", "faults only without W(user), outside 0 ≤ amount ≤ 9000 or after a failed fee transfer", "a witnessed withdrawal request inside [0, 9000] can be refused", nt.Where(w))
			cx.decide(a.holdsAt(st, -a.litLtC(amt, 0)) && a.holdsAt(st, a.litLtC(amt, 9001)) && a.holdsAt(st, a.litW(user)), "withdraw", "neofs.Withdraw/bounds", "W(user) ∧ 0 ≤ amount ≤ 9000 established", "a withdrawal outside [0, 9000] or without the user's witness is announced", nt.Where(w))
			args := notifyArgs(nt)
			okA := len(args) == 3 && args[0] == user && args[1] == tb.binop(token.MUL, amt, tb.constInt(100000000), intType)
			cx.decide(okA, "withdraw", "neofs.Withdraw/args", "Withdraw(user, amount·10^8, tx)", "the Withdraw notification carries "+termList(args), nt.Where(w))
			// with Notary the transfer to Processing is executed on every path
			okOne := true
			var procT *Site
			for _, s := range tr {
				if s.Args[1].Op == "read" {
					procT = s
				}
			}
			nd := ndLiteral(a)
			for _, ex := range a.Exits() {
				if procT == nil || nd == 0 || !a.holdsAt(ex.State, nd, a.eLit(procT)) {
					okOne = false
				}
			}
			cx.decide(okOne, "withdraw", "neofs.Withdraw/charged", "with Notary the fee transfer to Processing is executed on every path", "a withdrawal can be announced without the fee having been charged", nt.Where(w))
		}
	}
	// ---- D3 cheque
	if m := cx.method("neofs", "Cheque"); m != nil {
		a := cx.run(m)
		tb := a.tb
		user, amt := paramTerm(tb, m, "user"), paramTerm(tb, m, "amount")
		var tr []*Site
		var nt *Site
		for _, s := range a.RealEffects() {
			if s.Effect == "transfer" {
				tr = append(tr, s)
			}
			if notifyName(s) == "Cheque" {
				nt = s
			}
		}
		if len(tr) != 1 || nt == nil {
			cx.violated("cheque", "neofs.Cheque/shape", "Cheque no longer has exactly one payout transfer and its notification", w.pos(m.Fn.Pos()))
		} else {
			t := tr[0]
			okT := isCall(t.Args[0], "runtime.GetExecutingScriptHash") && t.Args[1] == user && t.Args[2] == amt && !siteInLoop(t)
			cx.decide(okT, "cheque", "neofs.Cheque/payout", "gas.Transfer(self, user, amount) at one site outside loops", "the cheque pays "+termList(t.Args[:3])+" instead of exactly the cheque amount from the contract to the user, once", t.Where(w))
			cx.decide(resultChecked(a, t, nt), "cheque", "neofs.Cheque/checked", "the notification is reachable only if the payout returned true", "a failed payout is still announced as a Cheque", nt.Where(w))
			args := notifyArgs(nt)
			cx.decide(len(args) == 4 && args[0] == paramTerm(tb, m, "id") && args[1] == user && args[2] == amt && args[3] == paramTerm(tb, m, "lockAcc"), "cheque", "neofs.Cheque/args", "Cheque(id, user, amount, lockAcc)", "the Cheque notification carries "+termList(args), nt.Where(w))
			checkNotifyEquiv(cx, a, "neofs.Cheque/Cheque", nt, t)
		}
	}
	// ---- D4 candidate fee
	if m := cx.method("neofs", "InnerRingCandidateAdd"); m != nil {
		a := cx.run(m)
		tb := a.tb
		key := paramTerm(tb, m, "key")
		var t, put *Site
		for _, s := range a.RealEffects() {
			if s.Effect == "transfer" {
				t = s
			}
			if s.Effect == "put" {
				put = s
			}
		}
		if t == nil || put == nil {
			cx.violated("candidate-fee", "neofs.InnerRingCandidateAdd/shape", "no fee transfer / candidate store", w.pos(m.Fn.Pos()))
		} else {
			fk := ""
			if t.Args[2].Op == "read" {
				fk, _ = t.Args[2].Args[0].BytesConst()
			}
			marker, _ := t.Args[3].BytesConst()
			okT := t.Args[0] == tb.mk("call", "contract.CreateStandardAccount", 0, key) && isCall(t.Args[1], "runtime.GetExecutingScriptHash") && fk == "configInnerRingCandidateFee"
			cx.decide(okT && a.holdsAt(t.In, a.litW(key)), "candidate-fee", "neofs.InnerRingCandidateAdd/transfer", "configured fee from the standard account of the witnessed key to the contract", "the candidate fee is "+termList(t.Args[:3]), t.Where(w))
			// the fee is charged once per candidate: only a key that is not stored yet is charged and stored
			okNew := false
			for _, f := range a.unitFactsRaw(t.In) {
				if f.kind == KNil && f.pos && f.A.Op == "read" && len(f.A.Args) > 0 && f.A.Args[0] == put.Args[1] {
					okNew = true
				}
			}
			cx.decide(okNew && executedAtEveryExit(a, t, put), "candidate-fee", "neofs.InnerRingCandidateAdd/once", "charged and stored only for a key that is not a candidate yet, and then always", "a key that already is a candidate can be charged again (or a new one is refused / not stored)", t.Where(w))
			cx.decide(resultChecked(a, t, put), "candidate-fee", "neofs.InnerRingCandidateAdd/checked", "the candidate is stored only if the fee transfer returned true", "a candidate is registered although the fee was not paid", put.Where(w))
			// the marker is what OnNEP17Payment compares against
			okM := false
			if pm := cx.method("neofs", "OnNEP17Payment"); pm != nil {
				pa := cx.run(pm)
				for _, ex := range pa.Exits() {
					for _, f := range pa.unitFactsRaw(ex.State) {
						if (f.kind == KEq && f.pos) && ((isConstBytes(f.A, marker) && f.B == paramTerm(pa.tb, pm, "data")) || (isConstBytes(f.B, marker) && f.A == paramTerm(pa.tb, pm, "data"))) {
							okM = true
						}
					}
				}
			}
			cx.decide(okM && marker != "", "candidate-fee", "neofs.InnerRingCandidateAdd/marker", "the transfer data is the marker on which OnNEP17Payment returns without a Deposit", "the candidate fee transfer is not marked with the constant OnNEP17Payment ignores: the fee is reported as a user deposit (or the payment is refused)", t.Where(w))
		}
	}
	// ---- D5 emit
	if m := cx.method("alphabet", "Emit"); m != nil {
		a := cx.run(m)
		tb := a.tb
		var neoT, proxyT, nodeT *Site
		for _, s := range a.RealEffects() {
			switch {
			case s.Callee == "native/neo.Transfer":
				neoT = s
			case s.Callee == "native/gas.Transfer" && s.Args[1].Op == "read":
				proxyT = s
			case s.Callee == "native/gas.Transfer":
				nodeT = s
			}
		}
		if neoT == nil || proxyT == nil || nodeT == nil {
			cx.violated("emit", "alphabet.Emit/shape", "Emit no longer transfers NEO to itself, GAS to Proxy and GAS to every Inner Ring node", w.pos(m.Fn.Pos()))
		} else {
			self := tb.mk("call", "runtime.GetExecutingScriptHash", 0)
			g := proxyT.Args[2]
			var gb *Term
			if g.Op == "bin" && g.Name == "/" {
				gb = g.Args[0]
			}
			okP := gb != nil && gb.Op == "icall" && gb.Name == "native/gas.BalanceOf" && len(gb.Args) == 1 && gb.Args[0] == self && g == tb.binop(token.QUO, gb, tb.constInt(2), intType) && proxyT.Args[0] == self
			pk, _ := proxyT.Args[1].Args[0].BytesConst()
			cx.decide(okP && pk == "proxyScriptHash", "emit", "alphabet.Emit/proxy-share", "⌊g/2⌋ of the contract's GAS balance to the stored Proxy address", "the Proxy share is "+g.pretty()+" to "+proxyT.Args[1].pretty(), proxyT.Where(w))
			if okP {
				// g read after the NEO self-transfer (which produces the GAS)
				in := tb.insts[gb.Inst]
				bs := a.siteIdx[siteKey{in.ctx, in.ins}]
				cx.decide(bs != nil && a.holdsAt(bs.In, a.eLit(neoT)) && resultChecked(a, neoT, proxyT), "emit", "alphabet.Emit/after-claim", "the balance is read after the checked NEO self-transfer", "the GAS balance is read before the NEO self-transfer that produces it", proxyT.Where(w))
				to := nodeT.Args[1]
				okN := isCall(to, "contract.CreateStandardAccount") && to.Args[0].Op == "elem" && keySource(tb, to.Args[0].Args[0]) == "fsalphabet" && nodeT.Args[0] == self
				var want *Term
				if okN {
					ir := to.Args[0].Args[0]
					rest := tb.binop(token.SUB, gb, g, intType)
					want = tb.binop(token.QUO, tb.binop(token.QUO, tb.binop(token.MUL, rest, tb.constInt(7), intType), tb.constInt(8), intType), tb.mk("len", "", 0, ir), intType)
					alt := tb.binop(token.QUO, tb.binop(token.MUL, rest, tb.constInt(7), intType), tb.binop(token.MUL, tb.constInt(8), tb.mk("len", "", 0, ir), intType), intType)
					okN = nodeT.Args[2] == want || nodeT.Args[2] == alt
				}
				cx.decide(okN, "emit", "alphabet.Emit/node-share", "⌊(g − ⌊g/2⌋)·7/8/N⌋ to the standard account of each of the N Inner Ring keys, N = length of the iterated list", "the per-node share is "+nodeT.Args[2].pretty()+" to "+to.pretty()+": not (g − g/2)·7/8 divided by the number of Inner Ring nodes that are paid", nodeT.Where(w))
				h := innermostLoop(nodeT.Instr.Block())
				okL := h != nil && !a.termInLoop(nodeT.Args[2], nodeT.Ctx, h)
				if okL {
					okL, _ = everyElement(a, nodeT, nil)
				}
				if okL {
					// the loop is gone round only when the share is 0
					okL, _ = alwaysReached(a, nodeT, func(st *CNF) bool {
						return a.holdsAt(st, a.litEqC(a.Canon(st, nodeT.Args[2]), 0)) || a.holdsAt(st, a.litEqC(nodeT.Args[2], 0))
					})
				}
				cx.decide(okL, "emit", "alphabet.Emit/all-nodes", "one transfer per Inner Ring key, loop-invariant amount, no early exit", "not every Inner Ring node receives the same share", nodeT.Where(w))
			}
			cx.decide(neoT.Args[0] == self && neoT.Args[1] == self, "emit", "alphabet.Emit/claim", "NEO is transferred from the contract to itself", "Emit moves NEO elsewhere", neoT.Where(w))
		}
	}
	// ---- D6 payment callbacks
	for _, c := range []struct {
		name string
		neo  bool
	}{{"proxy", false}, {"processing", false}, {"alphabet", true}} {
		m := cx.method(c.name, "OnNEP17Payment")
		if m == nil {
			continue
		}
		a := cx.run(m)
		ok := true
		for _, ex := range a.Exits() {
			var q []int32
			for id := int32(1); id < int32(len(a.lt.lits)); id++ {
				l := a.lt.lits[id]
				if l.Kind == KCaller {
					if s, isC := l.A.BytesConst(); isC && len(s) == 20 && (gasHashIs(cx, s) || (c.neo && neoHashIs(cx, s))) {
						q = append(q, id)
					}
				}
			}
			if len(q) == 0 || !a.holdsAt(ex.State, q...) {
				ok = false
			}
		}
		cx.count("payment_callbacks", 1)
		what := "GAS"
		if c.neo {
			what = "GAS or NEO"
		}
		cx.decide(ok, "accepts-only", c.name+".OnNEP17Payment", "returns normally only if the caller is native "+what, c.name+" accepts tokens other than "+what, w.pos(m.Fn.Pos()))
		// converse: nothing but the token is looked at — a payment made by the accepted native contract is
		// never refused (the fees sent here are settings: a withdrawal fee of 0 is a payment of 0)
		okConv := true
		for _, s := range a.Sites(func(s *Site) bool { return isAbortSite(cx, s) }) {
			for id := int32(1); id < int32(len(a.lt.lits)); id++ {
				l := a.lt.lits[id]
				if l.Kind != KCaller {
					continue
				}
				if sb, isC := l.A.BytesConst(); isC && len(sb) == 20 && (gasHashIs(cx, sb) || (c.neo && neoHashIs(cx, sb))) {
					if a.satisfiable(s.In, []int32{id}, nil) {
						okConv = false
					}
				}
			}
		}
		for _, b := range m.Fn.Blocks {
			if _, isPanic := b.Instrs[len(b.Instrs)-1].(*ssa.Panic); !isPanic {
				continue
			}
			for _, p := range b.Preds {
				st := a.edgeState(a.tb.root, p, b)
				if st == nil {
					continue
				}
				for id := int32(1); id < int32(len(a.lt.lits)); id++ {
					l := a.lt.lits[id]
					if l.Kind != KCaller {
						continue
					}
					if sb, isC := l.A.BytesConst(); isC && len(sb) == 20 && (gasHashIs(cx, sb) || (c.neo && neoHashIs(cx, sb))) {
						if a.satisfiable(st, []int32{id}, nil) {
							okConv = false
						}
					}
				}
			}
		}
		cx.decide(okConv, "accepts-only", c.name+".OnNEP17Payment/accepts", "a payment made by native "+what+" is never refused", c.name+" can refuse a payment made by native "+what+" (for its amount, sender or data): a fee configured as 0 — or any other legal payment — makes the paying method fault", w.pos(m.Fn.Pos()))
	}
	cx.floor("payment_callbacks", 3)
}

func isConstBytes(t *Term, s string) bool {
	x, ok := t.BytesConst()
	return ok && x == s
}

// ndLiteral: the branch literal on the stored "notary" flag.
func ndLiteral(a *Analysis) int32 {
	for id := int32(1); id < int32(len(a.lt.lits)); id++ {
		l := a.lt.lits[id]
		if l.Kind == KB && l.A.Op == "read" {
			if k, _ := l.A.Args[0].BytesConst(); k == "notary" {
				return id
			}
		}
	}
	return 0
}

// native contract hashes are string constants of the interop packages.
func constHashIs(cx *CheckCtx, pkg, s string) bool {
	p := cx.W.AllPkgs[interopPrefix+"/native/"+pkg]
	if p == nil || p.Types == nil {
		return false
	}
	c, ok := p.Types.Scope().Lookup("Hash").(*types.Const)
	if !ok || c.Val().Kind() != constant.String {
		return false
	}
	return constant.StringVal(c.Val()) == s
}

func gasHashIs(cx *CheckCtx, s string) bool { return constHashIs(cx, "gas", s) }
func neoHashIs(cx *CheckCtx, s string) bool { return constHashIs(cx, "neo", s) }

// expiredSide: t is the window test over (current height − ballot height) and
// the constant 20; returns which successor of the If (0 = true side) is the
// "expired" one.
func expiredSide(t *Term) (int, bool) {
	if t.Op != "bin" || len(t.Args) != 2 {
		return 0, false
	}
	isGap := func(z *Term) bool {
		return z.Op == "sum" && z.contains(func(x *Term) bool { return isCall(x, "native/ledger.CurrentIndex") }) && z.contains(func(x *Term) bool { return x.Op == "field" && x.Name == "Height" })
	}
	x, y := t.Args[0], t.Args[1]
	cx, okx := x.IntConst()
	cy, oky := y.IntConst()
	switch {
	case t.Name == "<" && okx && cx == 20 && isGap(y): // 20 < gap: true = expired
		return 0, true
	case t.Name == "<=" && oky && cy == 20 && isGap(x): // gap <= 20: true = alive
		return 1, true
	}
	return 0, false
}

// purgeBehindFlag: the flag form of TryPurgeVotes — "a live ballot was met" is
// remembered in a flag (false only from exhaustion, true only from the alive
// side of the window test) and the purge sits on the false side of its test.
func purgeBehindFlag(h, winIf *ssa.BasicBlock, expiredSide int, purge *ssa.BasicBlock) bool {
	var done *ssa.BasicBlock
	for _, s := range h.Succs {
		if !loopBlocks(h)[s] {
			done = s
		}
	}
	return done != nil && flagGuard(h, done, purge, winIf.Succs[1-expiredSide])
}

// deletedKeys: the constant keys some method of the contract deletes.
func deletedKeys(cx *CheckCtx, contract string) map[string]string {
	out := map[string]string{}
	c := cx.contract(contract)
	if c == nil {
		return out
	}
	ms := append([]*Method{}, c.Methods...)
	if d := cx.method(contract, "_deploy"); d != nil {
		ms = append(ms, d)
	}
	for _, m := range ms {
		a := cx.run(m)
		for _, s := range a.Effects() {
			if isStore(s) && s.Effect == "delete" {
				if k, ok := s.Args[1].BytesConst(); ok {
					out[k] = m.GoName + " at " + s.Where(cx.W)
				}
			}
		}
	}
	return out
}

// checkDecodeAbsent (decode-absent): writer/reader contradiction across functions. std.Deserialize faults on
// Null; an item that some method of the contract *deletes* (rather than storing an empty value) can be absent
// when the next invocation reads it, so every decode of that item is reached only with "the read found
// something" established. An item nobody deletes is present from deployment on and is not asked about.
func checkDecodeAbsent(cx *CheckCtx, a *Analysis, contract, key string) {
	del := deletedKeys(cx, contract)
	n := 0
	for _, s := range a.Sites(func(s *Site) bool { return s.Callee == "native/std.Deserialize" && len(s.Args) == 1 }) {
		arg := s.Args[0]
		for arg.Op == "tobytes" || arg.Op == "conv" {
			arg = arg.Args[0]
		}
		if arg.Op != "read" || len(arg.Args) == 0 {
			continue
		}
		k, isC := arg.Args[0].BytesConst()
		if !isC {
			continue
		}
		n++
		where, deleted := del[k]
		if !deleted {
			continue
		}
		cx.decide(a.holdsAt(s.In, -a.litNil(arg)), "decode-absent", key+"/"+strconvQuote(k), "the item can be deleted ("+where+") and is decoded only when the read found it", "the item "+strconvQuote(k)+" is deleted by "+where+" and decoded here without a test that the read found something: std.Deserialize faults on Null, so once the item is gone every later invocation of this method faults", s.Where(cx.W))
	}
	cx.count("decode_sites", n)
}

func strconvQuote(s string) string { return fmt.Sprintf("%q", s) }

// isAbortSite: the site is a refusal by ABORT: util.Abort itself or the helper of common that ends in it
// (found by that shape, whatever its name).
func isAbortSite(cx *CheckCtx, s *Site) bool {
	if s.Callee == "util.Abort" {
		return true
	}
	h := abortHelper(cx)
	return h != nil && s.Callee == fq(h)
}

var abortHelperCache = map[*World]*ssa.Function{}

func abortHelper(cx *CheckCtx) *ssa.Function {
	if f, ok := abortHelperCache[cx.W]; ok {
		return f
	}
	var ab *ssa.Function
	if p := cx.W.ByPath[modPrefix+"common"]; p != nil {
		for _, f := range allFuncs(cx.W.Prog.Package(p.Types)) {
			if f.Blocks != nil && directCallees(f)["util.Abort"] > 0 {
				ab = f
			}
		}
	}
	abortHelperCache[cx.W] = ab
	return ab
}

// voteFns: the three functions of the ballot box in package common, found by what they are, not by their
// names: the one that takes (ctx, id, voter), asks the chain height and answers a count; the one that takes
// (ctx, id), answers nothing and stores; the one that takes (ctx) only, asks the chain height and answers bool.
func voteFns(cx *CheckCtx) (vote, remove, purge *ssa.Function) {
	height := func(f *ssa.Function) bool {
		for k, n := range directCallees(f) {
			if n > 0 && strings.HasSuffix(k, "ledger.CurrentIndex") {
				return true
			}
		}
		return false
	}
	vote = cx.locate("common", "Vote", "takes (ctx, id, voter), asks the chain height and answers an integer", func(f *ssa.Function) bool {
		r := f.Signature.Results()
		return len(f.Params) == 3 && r.Len() == 1 && isInteger(r.At(0).Type()) && height(f)
	})
	purge = cx.locate("common", "TryPurgeVotes", "takes (ctx), asks the chain height and answers a bool", func(f *ssa.Function) bool {
		r := f.Signature.Results()
		return len(f.Params) == 1 && r.Len() == 1 && isBoolType(r.At(0).Type()) && height(f)
	})
	var loader *ssa.Function
	if vote != nil {
		for _, b := range vote.Blocks {
			for _, ins := range b.Instrs {
				if c, ok := ins.(*ssa.Call); ok {
					if cal := c.Common().StaticCallee(); cal != nil && cal.Pkg == vote.Pkg && len(cal.Params) == 1 && cal.Signature.Results().Len() == 1 {
						if _, isSl := cal.Signature.Results().At(0).Type().Underlying().(*types.Slice); isSl {
							loader = cal
						}
					}
				}
			}
		}
	}
	remove = cx.locate("common", "RemoveVotes", "takes (ctx, id), answers nothing, loads the ballots as the vote does", func(f *ssa.Function) bool {
		if len(f.Params) != 2 || f.Signature.Results().Len() != 0 || loader == nil {
			return false
		}
		for _, b := range f.Blocks {
			for _, ins := range b.Instrs {
				if c, ok := ins.(*ssa.Call); ok && c.Common().StaticCallee() == loader {
					return true
				}
			}
		}
		return false
	})
	return
}

// isVoteFn: callee is the vote (which = 0) or the removal (which = 1) function of the ballot box.
func isVoteFn(cx *CheckCtx, callee string, which int) bool {
	v, r, _ := voteFns(cx)
	f := v
	if which == 1 {
		f = r
	}
	return f != nil && callee == fq(f)
}
