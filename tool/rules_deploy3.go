package main

// C13 — contradiction rules on the SSA form of package deploy (session 3).
//
// nil-side-use: a value that a branch has just found to be nil (pointer, map,
// function, interface) is dereferenced, called or written through on that
// very side, before any other value could have been put in its place (SSA
// values are immutable, so "the same value" is exact). The test and the use
// contradict each other (Engler et al.: a checked-then-dereferenced pointer):
// the orchestration decides "is the contract / the NNS / the shared
// transaction already on the chain" with exactly such tests, and the side that
// found nothing must deploy / register / wait, never read the thing it did not
// find. Expected count on a correct tree: zero, hence the embedded positive
// control (SSA built from source on every run).

import (
	"fmt"
	"go/ast"
	"go/constant"
	"go/importer"
	"go/parser"
	"go/token"
	"go/types"
	"strings"

	"golang.org/x/tools/go/ssa"
	"golang.org/x/tools/go/ssa/ssautil"
)

const nilControlSrc = `package ctl3
type S struct{ H int }
func look() *S { return nil }
func a() int {
	st := look()
	if st == nil {
		return st.H
	}
	return 0
}
func b() int {
	st := look()
	if st != nil {
		return st.H
	}
	return 0
}
func c(m map[string]int, f func() int) int {
	if m == nil {
		m["x"] = 1
	}
	if f != nil {
		return f()
	}
	return 0
}
func d() int {
	st := look()
	if st == nil {
		st = &S{}
		return st.H
	}
	return st.H
}
`

type nilUse struct {
	fn   *ssa.Function
	pos  token.Pos
	what string
}

func nilable(t types.Type) bool {
	switch t.Underlying().(type) {
	case *types.Pointer, *types.Map, *types.Signature, *types.Interface:
		return true
	}
	return false
}

// nilSideUses returns the number of nil tests inspected and the uses found on a nil side.
func nilSideUses(fns []*ssa.Function) (int, []nilUse) {
	tests := 0
	var out []nilUse
	for _, fn := range fns {
		if len(fn.Blocks) == 0 {
			continue
		}
		for _, b := range fn.Blocks {
			if len(b.Instrs) == 0 {
				continue
			}
			iff, ok := b.Instrs[len(b.Instrs)-1].(*ssa.If)
			if !ok {
				continue
			}
			bo, ok := iff.Cond.(*ssa.BinOp)
			if !ok || (bo.Op != token.EQL && bo.Op != token.NEQ) {
				continue
			}
			var x ssa.Value
			if c, ok := bo.Y.(*ssa.Const); ok && c.IsNil() {
				x = bo.X
			} else if c, ok := bo.X.(*ssa.Const); ok && c.IsNil() {
				x = bo.Y
			}
			if x == nil || !nilable(x.Type()) {
				continue
			}
			if _, isConst := x.(*ssa.Const); isConst {
				continue
			}
			tests++
			nilSucc := b.Succs[0]
			if bo.Op == token.NEQ {
				nilSucc = b.Succs[1]
			}
			if len(nilSucc.Preds) != 1 {
				continue // also entered along other edges: x is not known nil there
			}
			for _, d := range fn.Blocks {
				if !nilSucc.Dominates(d) {
					continue
				}
				for _, in := range d.Instrs {
					what := ""
					switch v := in.(type) {
					case *ssa.FieldAddr:
						if v.X == x {
							what = "a field of it is addressed"
						}
					case *ssa.UnOp:
						if v.Op == token.MUL && v.X == x {
							what = "it is dereferenced"
						}
					case *ssa.IndexAddr:
						if v.X == x {
							what = "an element of it is addressed"
						}
					case *ssa.MapUpdate:
						if v.Map == x {
							what = "an entry is written into it"
						}
					case *ssa.Store:
						if v.Addr == x {
							what = "it is stored through"
						}
					case ssa.CallInstruction:
						cc := v.Common()
						if cc.Value == x {
							if cc.IsInvoke() {
								what = "a method of it is called"
							} else {
								what = "it is called"
							}
						}
					}
					if what != "" {
						out = append(out, nilUse{fn: fn, pos: in.Pos(), what: what})
					}
				}
			}
		}
	}
	return tests, out
}

func nilControlFuncs() ([]*ssa.Function, error) {
	fset := token.NewFileSet()
	f, err := parser.ParseFile(fset, "control3.go", nilControlSrc, 0)
	if err != nil {
		return nil, err
	}
	pkg := types.NewPackage("ctl3", "ctl3")
	sp, _, err := ssautil.BuildPackage(&types.Config{Importer: importer.Default()}, fset, pkg, []*ast.File{f}, 0)
	if err != nil {
		return nil, err
	}
	return allFuncs(sp), nil
}

func checkNilSideUse(cx *CheckCtx, sp *ssa.Package) {
	if cf, err := nilControlFuncs(); err != nil {
		cx.undecided("engine", "control3", "the nil-side positive control does not build: "+err.Error(), "")
	} else {
		n, fs := nilSideUses(cf)
		cx.decide(n == 5 && len(fs) == 2, "positive-control", "nil-side-use", "the rule sees the five embedded nil tests and fires on the two that use the value on its nil side", fmt.Sprintf("the nil-side-use rule matched %d tests / %d findings on its embedded example, expected 5 / 2: the rule is broken", n, len(fs)), "")
	}
	n, fs := nilSideUses(allFuncs(sp))
	cx.count("nil_tests", n)
	cx.floor("nil_tests", 100)
	for _, f := range fs {
		name := f.fn.Name()
		for p := f.fn.Parent(); p != nil; p = p.Parent() {
			name = p.Name()
		}
		cx.violated("nil-side-use", "deploy."+name, "a value just found to be nil is used on that side ("+f.what+"): the test and the use contradict each other — the side that found nothing on the chain reads what it did not find", cx.W.pos(f.pos))
	}
	if len(fs) == 0 {
		cx.holds("nil-side-use", "deploy", fmt.Sprintf("%d tests of a pointer, map, function or interface against nil: none uses the value on its nil side", n))
	}
}

// checkSubmissionTracked (submission-tracked): a call that submits transactions
// answers (id…, validUntilBlock, error). The in-flight query of D14 can only
// ever answer "pending" for a step if every such answer is handed to the
// monitor's tracker — the method of the monitor type that takes a uint32 and a
// variadic list of ids — with *that* call's validUntilBlock and *all* of its
// ids (a fallback transaction that is not tracked lets the step send a second
// main transaction while the first is still alive). Pure value flow on the SSA
// form: which extract of the submission's tuple reaches which argument of a
// tracker call of the same function.
func checkSubmissionTracked(cx *CheckCtx, sp *ssa.Package) {
	w := cx.W
	// monitor types = receiver types of the in-flight queries (same shape test as checkPendingGuards)
	monitorT := map[string]bool{}
	for _, fn := range allFuncs(sp) {
		if fn.Blocks == nil || fn.Signature.Recv() == nil || fn.Signature.Params().Len() != 0 || fn.Signature.Results().Len() != 1 || !isBoolType(fn.Signature.Results().At(0).Type()) {
			continue
		}
		for _, b := range fn.Blocks {
			for _, ins := range b.Instrs {
				if c, ok := ins.(*ssa.Call); ok {
					if cal := c.Common().StaticCallee(); cal != nil && cal.Name() == "Load" && cal.Signature.Recv() != nil && typeName(cal.Signature.Recv().Type()) != "" {
						if fa, ok := c.Common().Args[0].(*ssa.FieldAddr); ok && len(fn.Params) > 0 && fa.X == fn.Params[0] {
							monitorT[fn.Signature.Recv().Type().String()] = true
						}
					}
				}
			}
		}
	}
	isTracker := func(cal *ssa.Function) bool {
		if cal == nil || cal.Signature.Recv() == nil || !monitorT[cal.Signature.Recv().Type().String()] || !cal.Signature.Variadic() {
			return false
		}
		ps := cal.Signature.Params()
		sl, ok := ps.At(ps.Len() - 1).Type().(*types.Slice)
		return ok && sl.Elem().String() == "github.com/nspcc-dev/neo-go/pkg/util.Uint256"
	}
	nSub, nTrack := 0, 0
	for _, fn := range allFuncs(sp) {
		if fn.Blocks == nil {
			continue
		}
		var trackers []*ssa.Call
		for _, b := range fn.Blocks {
			for _, ins := range b.Instrs {
				if c, ok := ins.(*ssa.Call); ok && isTracker(c.Common().StaticCallee()) {
					trackers = append(trackers, c)
				}
			}
		}
		nTrack += len(trackers)
		if len(trackers) == 0 {
			continue // not a step with an in-flight monitor (e.g. the listener answering other members' requests)
		}
		// values handed to a tracker: uint32 arguments, and everything stored into its variadic array
		type handed struct{ vub, ids map[ssa.Value]bool }
		th := map[*ssa.Call]*handed{}
		for _, t := range trackers {
			h := &handed{vub: map[ssa.Value]bool{}, ids: map[ssa.Value]bool{}}
			th[t] = h
			args := t.Common().Args
			// a value handed over may be the join of several alternative submissions (a phi): every operand counts
			var spread func(m map[ssa.Value]bool, v ssa.Value, depth int)
			spread = func(m map[ssa.Value]bool, v ssa.Value, depth int) {
				v = stripConv(v)
				if m[v] || depth > 6 {
					return
				}
				m[v] = true
				if ph, ok := v.(*ssa.Phi); ok {
					for _, e := range ph.Edges {
						spread(m, e, depth+1)
					}
				}
			}
			for _, a := range args[:len(args)-1] {
				spread(h.vub, a, 0)
			}
			if sl, ok := args[len(args)-1].(*ssa.Slice); ok {
				if al, ok := sl.X.(*ssa.Alloc); ok {
					for _, r := range *al.Referrers() {
						if ia, ok := r.(*ssa.IndexAddr); ok {
							for _, r2 := range *ia.Referrers() {
								if st, ok := r2.(*ssa.Store); ok && st.Addr == ia {
									spread(h.ids, st.Val, 0)
								}
							}
						}
					}
				}
			}
		}
		for _, b := range fn.Blocks {
			for _, ins := range b.Instrs {
				c, ok := ins.(*ssa.Call)
				if !ok || !isSubmissionType(c.Type()) {
					continue
				}
				if cal := c.Common().StaticCallee(); cal != nil && cal.Pkg == sp {
					continue // a helper of this package that forwards a submission: its own body is inspected
				}
				n := c.Type().(*types.Tuple).Len()
				ex := map[int]ssa.Value{}
				for _, r := range *c.Referrers() {
					if e, ok := r.(*ssa.Extract); ok {
						ex[e.Index] = e
					}
				}
				// a submission whose whole answer is returned as it is (a forwarding helper) is the caller's to track
				forwarded := false
				for _, r := range *c.Referrers() {
					if _, ok := r.(*ssa.Return); ok {
						forwarded = true
					}
				}
				if forwarded {
					continue
				}
				nSub++
				key := fmt.Sprintf("deploy.%s@%s", outerName(fn), w.pos(c.Pos()))
				missing := ""
				var via *ssa.Call
				for _, t := range trackers {
					if ex[n-2] != nil && th[t].vub[ex[n-2]] {
						via = t
					}
				}
				if via == nil {
					missing = "its validUntilBlock reaches no call of the monitor's tracker in this function"
				} else {
					for i := 0; i < n-2; i++ {
						if ex[i] == nil || !th[via].ids[ex[i]] {
							missing = fmt.Sprintf("transaction id #%d of its answer is not among the ids handed to the tracker call at %s", i, w.pos(via.Pos()))
						}
					}
				}
				cx.decide(missing == "", "submission-tracked", key, "validUntilBlock and every transaction id of the answer are handed to one tracker call", "a submitted transaction is not tracked: "+missing+" — the step's in-flight query cannot see it and the step may send again while it is alive", w.pos(c.Pos()))
			}
		}
	}
	cx.count("submissions", nSub)
	cx.count("tracker_calls", nTrack)
	cx.floor("submissions", 12)
}

func outerName(fn *ssa.Function) string {
	name := fn.Name()
	for p := fn.Parent(); p != nil; p = p.Parent() {
		name = p.Name()
	}
	return name
}

// checkPackageState (no-local-progress/package-state): D4 asks that a run keeps no progress of its own —
// every decision is read off the chain, so a run that is cancelled and started again (in the same process
// too) behaves like a fresh one. A package-level variable that function bodies write, write through, or hand
// out by address (a cache, a memo table, a sync.Map) is progress kept outside the chain. Package-level
// variables that are only ever *loaded* outside the package initialiser (sentinel errors, compiled patterns,
// tables) are not state.
func checkPackageState(cx *CheckCtx, sp *ssa.Package) {
	nGlobals, bad, where := 0, "", ""
	globals := map[*ssa.Global]bool{}
	for _, mem := range sp.Members {
		if g, ok := mem.(*ssa.Global); ok && !strings.HasPrefix(g.Name(), "init$") {
			globals[g] = true
			nGlobals++
		}
	}
	for _, fn := range allFuncs(sp) {
		if fn.Blocks == nil || fn.Name() == "init" || strings.HasPrefix(fn.Name(), "init#") {
			continue
		}
		for _, b := range fn.Blocks {
			for _, in := range b.Instrs {
				var ops []*ssa.Value
				for _, op := range in.Operands(ops) {
					g, ok := (*op).(*ssa.Global)
					if !ok || !globals[g] {
						continue
					}
					if u, isLoad := in.(*ssa.UnOp); isLoad && u.Op == token.MUL && u.X == g {
						continue // a plain read of the variable
					}
					if bad == "" {
						bad, where = g.Name(), cx.W.pos(in.Pos())
						if where == "" || strings.HasPrefix(where, "-") {
							where = cx.W.pos(fn.Pos())
						}
					}
				}
			}
		}
	}
	cx.count("package_variables", nGlobals)
	cx.decide(bad == "", "no-local-progress", "deploy/package-state", fmt.Sprintf("%d package-level variables, each only read outside the initialiser", nGlobals), "package-level variable "+bad+" is written, written through or handed out by address in a function body: the procedure keeps state of its own between stages and between a cancelled run and its restart (a cached transaction, a memo table), decisions no longer come from the chain alone", where)
}

// checkFoundFlag (found-flag): a boolean local that chooses between two different submissions ("the record
// exists: replace it" / "it does not: add it") is the answer of a lookup. Where the flag is set to true on
// the side on which some call's error was found nil (the lookup succeeded), it is not left false anywhere
// on that side: whether what was found also *validates* (checksum, signature) is another question, and
// "found but stale" still has to be replaced, not added a second time.
func checkFoundFlag(cx *CheckCtx, sp *ssa.Package) {
	w := cx.W
	n := 0
	type edge struct {
		from *ssa.BasicBlock
		val  bool
	}
	for _, fn := range allFuncs(sp) {
		if fn.Blocks == nil {
			continue
		}
		// nil sides of error tests
		var nilSides []*ssa.BasicBlock
		for _, b := range fn.Blocks {
			iff, ok := b.Instrs[len(b.Instrs)-1].(*ssa.If)
			if !ok {
				continue
			}
			bo, ok := iff.Cond.(*ssa.BinOp)
			if !ok || (bo.Op != token.EQL && bo.Op != token.NEQ) {
				continue
			}
			var x ssa.Value
			if c, ok := bo.Y.(*ssa.Const); ok && c.IsNil() {
				x = bo.X
			} else if c, ok := bo.X.(*ssa.Const); ok && c.IsNil() {
				x = bo.Y
			}
			if x == nil || !isErrorType(x.Type()) {
				continue
			}
			side := b.Succs[0]
			if bo.Op == token.NEQ {
				side = b.Succs[1]
			}
			if len(side.Preds) == 1 {
				nilSides = append(nilSides, side)
			}
		}
		var subs []*ssa.Call
		for _, b := range fn.Blocks {
			for _, ins := range b.Instrs {
				if c, ok := ins.(*ssa.Call); ok && isSubmissionType(c.Type()) {
					subs = append(subs, c)
				}
			}
		}
		if len(subs) < 2 || len(nilSides) == 0 {
			continue
		}
		for _, b := range fn.Blocks {
			iff, ok := b.Instrs[len(b.Instrs)-1].(*ssa.If)
			if !ok {
				continue
			}
			phi, ok := iff.Cond.(*ssa.Phi)
			if !ok || !isBoolType(phi.Type()) {
				continue
			}
			// both sides lead to a submission of their own
			var s0, s1 *ssa.Call
			for _, sc := range subs {
				if viaEdge(b, 0, sc.Block()) {
					s0 = sc
				}
				if viaEdge(b, 1, sc.Block()) {
					s1 = sc
				}
			}
			if s0 == nil || s1 == nil {
				continue
			}
			// flatten the phi into (source block, constant) edges
			var edges []edge
			opaque := false
			var flat func(p *ssa.Phi, depth int)
			seen := map[*ssa.Phi]bool{}
			flat = func(p *ssa.Phi, depth int) {
				if seen[p] || depth > 8 {
					return
				}
				seen[p] = true
				for i, e := range p.Edges {
					switch v := e.(type) {
					case *ssa.Const:
						if v.Value != nil && v.Value.Kind() == constant.Bool {
							edges = append(edges, edge{p.Block().Preds[i], constant.BoolVal(v.Value)})
						} else {
							opaque = true
						}
					case *ssa.Phi:
						flat(v, depth+1)
					default:
						opaque = true
					}
				}
			}
			flat(phi, 0)
			if opaque || len(edges) < 2 {
				continue
			}
			n++
			bad := ""
			// the lookup = the innermost succeeded call around each assignment of true (outer successes — the
			// transaction was made, the client was created — enclose both answers and say nothing)
			chosen := map[*ssa.BasicBlock]bool{}
			for _, e := range edges {
				if !e.val {
					continue
				}
				var deepest *ssa.BasicBlock
				for _, ns := range nilSides {
					if ns.Dominates(e.from) && (deepest == nil || deepest.Dominates(ns)) {
						deepest = ns
					}
				}
				if deepest != nil {
					chosen[deepest] = true
				}
			}
			for ns := range chosen {
				for _, e := range edges {
					if !e.val && ns.Dominates(e.from) {
						bad = w.pos(e.from.Instrs[len(e.from.Instrs)-1].Pos())
						if p := e.from.Instrs[0].Pos(); bad == "" || bad == "?" || strings.HasPrefix(bad, "-") {
							bad = w.pos(p)
						}
					}
				}
			}
			cx.decide(bad == "", "found-flag", fmt.Sprintf("deploy.%s@%s", outerName(fn), w.pos(iff.Cond.Pos())), "the flag choosing between the two submissions is true wherever the lookup succeeded", "the flag that chooses between the two submissions is set on the side where the lookup's error was nil, yet can stay false on that side (around "+bad+"): a record that was found but did not validate is added a second time instead of being replaced", w.pos(s0.Pos()))
		}
	}
	cx.count("found_flags", n)
}

// checkPendingReleased (pending-released): the monitor's tracker marks the step as in flight and hands the
// wait to a goroutine; every path of that goroutine to its return releases the flag (a call of a method of
// the monitor that stores false into the in-flight flag, or that store itself, possibly deferred). A path
// that keeps the flag — "the waiter failed, the transaction may still be alive" — also keeps it when the
// transaction has expired unseen: the step never sends again and the run never ends.
func checkPendingReleased(cx *CheckCtx, sp *ssa.Package) {
	w := cx.W
	storesFalse := func(f *ssa.Function) bool {
		if f == nil || f.Blocks == nil {
			return false
		}
		for _, b := range f.Blocks {
			for _, ins := range b.Instrs {
				if c, ok := ins.(*ssa.Call); ok {
					if cal := c.Common().StaticCallee(); cal != nil && cal.Name() == "Store" && cal.Signature.Recv() != nil && strings.HasSuffix(typeName(cal.Signature.Recv().Type()), "atomic.Bool") {
						if k, isK := c.Common().Args[len(c.Common().Args)-1].(*ssa.Const); isK && k.Value != nil && k.Value.Kind() == constant.Bool && !constant.BoolVal(k.Value) {
							return true
						}
					}
				}
			}
		}
		return false
	}
	isRelease := func(ins ssa.Instruction) bool {
		var cc *ssa.CallCommon
		switch v := ins.(type) {
		case *ssa.Call:
			cc = v.Common()
		case *ssa.Defer:
			cc = v.Common()
		default:
			return false
		}
		cal := cc.StaticCallee()
		if cal == nil {
			return false
		}
		if cal.Pkg == sp && storesFalse(cal) {
			return true
		}
		if cal.Name() == "Store" && cal.Signature.Recv() != nil && strings.HasSuffix(typeName(cal.Signature.Recv().Type()), "atomic.Bool") {
			if k, isK := cc.Args[len(cc.Args)-1].(*ssa.Const); isK && k.Value != nil && k.Value.Kind() == constant.Bool && !constant.BoolVal(k.Value) {
				return true
			}
		}
		return false
	}
	n := 0
	for _, fn := range allFuncs(sp) {
		if fn.Blocks == nil || fn.Signature.Recv() == nil || !fn.Signature.Variadic() {
			continue
		}
		ps := fn.Signature.Params()
		sl, ok := ps.At(ps.Len() - 1).Type().(*types.Slice)
		if !ok || sl.Elem().String() != "github.com/nspcc-dev/neo-go/pkg/util.Uint256" {
			continue
		}
		// the tracker: its goroutines
		for _, b := range fn.Blocks {
			for _, ins := range b.Instrs {
				g, isGo := ins.(*ssa.Go)
				if !isGo {
					continue
				}
				var body *ssa.Function
				if mc, ok := g.Call.Value.(*ssa.MakeClosure); ok {
					body, _ = mc.Fn.(*ssa.Function)
				} else if f, ok := g.Call.Value.(*ssa.Function); ok {
					body = f
				}
				if body == nil || body.Blocks == nil {
					continue
				}
				n++
				// a deferred release in the entry block covers every path
				covered := false
				for _, i2 := range body.Blocks[0].Instrs {
					if _, isD := i2.(*ssa.Defer); isD && isRelease(i2) {
						covered = true
					}
				}
				bad := ""
				if !covered {
					seen := map[*ssa.BasicBlock]bool{}
					work := []*ssa.BasicBlock{body.Blocks[0]}
					for len(work) > 0 {
						blk := work[len(work)-1]
						work = work[:len(work)-1]
						if seen[blk] {
							continue
						}
						seen[blk] = true
						released := false
						for _, i2 := range blk.Instrs {
							if isRelease(i2) {
								released = true
							}
						}
						if released {
							continue
						}
						if _, isRet := blk.Instrs[len(blk.Instrs)-1].(*ssa.Return); isRet {
							bad = w.pos(blk.Instrs[len(blk.Instrs)-1].Pos())
							if bad == "" || bad == "?" || strings.HasPrefix(bad, "-") {
								bad = w.pos(body.Pos())
							}
						}
						work = append(work, blk.Succs...)
					}
				}
				cx.decide(bad == "", "pending-released", fmt.Sprintf("deploy.%s/goroutine", fn.Name()), "every path of the waiting goroutine releases the in-flight flag", "the waiting goroutine of the tracker can end without releasing the in-flight flag (return at "+bad+"): a transaction that expires unseen leaves the step 'pending' for ever, it never sends again and the run does not end", w.pos(g.Pos()))
			}
		}
	}
	cx.count("tracker_goroutines", n)
	cx.floor("tracker_goroutines", 1)
}
