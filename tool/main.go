package main

import (
	"fmt"
	"golang.org/x/tools/go/ssa"
	"os"
	"sort"
	"strings"
	"time"
)

func main() {
	if len(os.Args) < 2 {
		fmt.Fprintln(os.Stderr, "usage: nfsverif check <Cxx> [--tier quick|thorough] | all | dump <contract>.<Func|*> | explain <file>")
		os.Exit(2)
	}
	switch os.Args[1] {
	case "dump":
		cmdDump(os.Args[2:])
	case "layouts":
		w, err := loadWorld(repoPath())
		if err != nil {
			fmt.Fprintln(os.Stderr, err)
			os.Exit(2)
		}
		dumpLayouts(w)
	case "terms":
		cmdTerms(os.Args[2:])
	case "list":
		var ids []string
		for id := range checks {
			ids = append(ids, id)
		}
		sort.Strings(ids)
		for _, id := range ids {
			fmt.Println(id, checks[id].Level, "-", checks[id].Technique)
		}
	case "check", "all":
		tier := "quick"
		if t := os.Getenv("VERIF_TIER"); t == "thorough" || t == "quick" {
			tier = t
		}
		var ids []string
		args := os.Args[2:]
		for i := 0; i < len(args); i++ {
			switch {
			case args[i] == "--tier" && i+1 < len(args):
				tier = args[i+1]
				i++
			case strings.HasPrefix(args[i], "--tier="):
				tier = strings.TrimPrefix(args[i], "--tier=")
			default:
				ids = append(ids, args[i])
			}
		}
		if os.Args[1] == "all" {
			for id := range checks {
				ids = append(ids, id)
			}
			sort.Strings(ids)
		}
		if len(ids) == 0 {
			fmt.Fprintln(os.Stderr, "no property given")
			os.Exit(2)
		}
		t0 := time.Now()
		w, err := loadWorld(repoPath())
		if err == nil {
			fmt.Printf("loaded %d packages, %d contracts from %s in %.1fs\n", len(w.Pkgs), len(w.Contracts), w.Repo, time.Since(t0).Seconds())
		}
		status := 0
		for _, id := range ids {
			if st := runCheck(id, tier, w, err, t0); st > status {
				status = st
			}
			t0 = time.Now()
		}
		os.Exit(status)
	default:
		fmt.Fprintln(os.Stderr, "unknown command", os.Args[1])
		os.Exit(2)
	}
}

func repoPath() string {
	if r := os.Getenv("NFS_REPO"); r != "" {
		return r
	}
	return "/repo"
}

func cmdDump(args []string) {
	t0 := time.Now()
	w, err := loadWorld(repoPath())
	if err != nil {
		fmt.Fprintln(os.Stderr, err)
		os.Exit(2)
	}
	fmt.Println("loaded", len(w.Pkgs), "packages,", len(w.Contracts), "contracts in", time.Since(t0))
	for _, e := range w.LoadErrs {
		fmt.Println("LOAD ERROR:", e)
	}
	verbose := os.Getenv("V") != ""
	for _, arg := range args {
		parts := strings.SplitN(arg, ".", 2)
		c := w.Contracts[parts[0]]
		if c == nil {
			fmt.Println("no contract", parts[0])
			continue
		}
		var ms []*Method
		for _, m := range c.Methods {
			if parts[1] == "*" || m.GoName == parts[1] {
				ms = append(ms, m)
			}
		}
		if (parts[1] == "*" || parts[1] == "_deploy") && c.Deploy != nil {
			ms = append(ms, &Method{C: c, ABI: "_deploy", GoName: "_deploy", Fn: c.Deploy, NParams: 2})
		}
		for _, m := range ms {
			t1 := time.Now()
			a := analyze(w, &Query{Name: "dump", Root: m.Fn, WantCmp: func(x, y *Term) bool { return os.Getenv("CMP") != "" }})
			fmt.Printf("== %s safe=%v %s (%v)\n", m, m.Safe, a.stats(), time.Since(t1))
			for _, n := range a.notes {
				fmt.Println("   NOTE:", n)
			}
			if os.Getenv("DBGSITES") != "" {
				for _, s := range a.sites {
					fmt.Printf("   site %s %s inl=%v val=%s\n", s.Callee, s.Where(w), s.Inlined, s.Val)
					for i, ar := range s.Args {
						fmt.Printf("        arg%d = %s\n", i, ar)
					}
				}
			}
			if pat := os.Getenv("DBGSITE_STATE"); pat != "" {
				for _, s := range a.sites {
					if s.In != nil && strings.Contains(s.Callee, pat) {
						fmt.Printf("   STATE at site %s %s\n", s.Callee, s.Where(w))
						for i, ar := range s.Args {
							fmt.Printf("        canon arg%d = %s\n", i, a.Canon(s.In, ar).pretty())
						}
						for _, l := range s.In.dump(a.lt) {
							fmt.Println("          ", l)
						}
					}
				}
			}
			if os.Getenv("DBGEXITS") != "" {
				for i, ex := range a.Exits() {
					fmt.Printf("   EXIT %d results=%s\n", i, termList(ex.Results))
					for _, l := range ex.State.units() {
						fmt.Println("          unit", a.lt.str(l))
					}
				}
			}
			if os.Getenv("DBGSTATE") != "" {
				for _, s := range a.Effects() {
					fmt.Printf("   STATE at E(%d) %s\n", s.EIdx, s.Where(w))
					for i, ar := range s.Args {
						fmt.Printf("        canon arg%d = %s\n", i, a.Canon(s.In, ar).pretty())
					}
					for _, l := range s.In.units() {
						fmt.Println("          unit", a.lt.str(l))
					}
				}
			}
			for _, s := range a.Effects() {
				fmt.Printf("   effect E(%d) %-8s %s %s\n", s.EIdx, s.Effect, s.Callee, s.Where(w))
				for i, ar := range s.Args {
					fmt.Printf("        arg%d = %s\n", i, ar.pretty())
				}
				// which witness literals gate the effect at every exit?
				common := map[string]bool{}
				e := a.eLit(s)
				var wl []int32
				for id := int32(1); id < int32(len(a.lt.lits)); id++ {
					if k := a.lt.lits[id].Kind; k == KW || k == KCaller {
						wl = append(wl, id)
					}
				}
				// single literals, then pairs
				for i, x := range wl {
					okAll := true
					for _, ex := range a.Exits() {
						if !ex.State.refutes(a.lt, []int32{-e, x}) {
							okAll = false
						}
					}
					if okAll {
						common[a.lt.str(x)] = true
						continue
					}
					for _, y := range wl[i+1:] {
						okAll = true
						for _, ex := range a.Exits() {
							if !ex.State.refutes(a.lt, []int32{-e, x, y}) {
								okAll = false
							}
						}
						if okAll {
							common[a.lt.str(x)+" ∨ "+a.lt.str(y)] = true
						}
					}
				}
				var gs []string
				for k := range common {
					gs = append(gs, k)
				}
				sort.Strings(gs)
				fmt.Printf("        gates: %s\n", strings.Join(gs, "  ∧  "))
			}
			if os.Getenv("DBGSEL") != "" {
				for i, n := range a.selLoc {
					fmt.Printf("   sel s%d at ctx=%d fn=%s block=%d idx=%d (%s)\n", i, n.ctx.id, n.ctx.fn.Name(), n.b.Index, n.idx, n.b.Comment)
				}
			}
			if verbose {
				for _, ex := range a.Exits() {
					fmt.Printf("   exit %s results=%v\n", w.pos(ex.Instr.Pos()), ex.Results)
					for _, l := range ex.State.dump(a.lt) {
						fmt.Println("        ", l)
					}
				}
			}
		}
	}
}

// cmdTerms prints the term of every value-producing instruction of a function (debug aid).
func cmdTerms(args []string) {
	w, err := loadWorld(repoPath())
	if err != nil {
		fmt.Fprintln(os.Stderr, err)
		os.Exit(2)
	}
	for _, arg := range args {
		i := strings.LastIndex(arg, ".")
		p := w.ByPath[modPrefix+arg[:i]]
		if p == nil {
			fmt.Println("no package", arg[:i])
			continue
		}
		fn := w.Prog.Package(p.Types).Func(arg[i+1:])
		if fn == nil {
			fmt.Println("no function", arg)
			continue
		}
		tb := newTermBuilder(w, fn)
		for _, b := range fn.Blocks {
			fmt.Printf("block %d (%s)\n", b.Index, b.Comment)
			for _, ins := range b.Instrs {
				if v, ok := ins.(interface {
					Name() string
					String() string
				}); ok {
					if val, isV := ins.(ssaValue); isV {
						fmt.Printf("  %-6s = %-60.60s :: %s\n", v.Name(), v.String(), tb.Term(tb.root, val).pretty())
						continue
					}
				}
				fmt.Printf("           %s\n", ins.String())
			}
		}
	}
}

type ssaValue = ssa.Value
