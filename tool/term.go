package main

// Terms (DESIGN §3.3): a canonical name for every (context, SSA value) built by
// structural recursion over its definition, with callee parameters replaced by
// the caller's argument terms. Impure or path-dependent values carry an
// instance id, so that two terms are equal only if they denote the same
// run-time value within one invocation.

import (
	"fmt"
	"go/constant"
	"go/token"
	"go/types"
	"os"
	"sort"
	"strconv"
	"strings"

	"golang.org/x/tools/go/ssa"
)

// ---------- calling contexts (call strings) ----------

type Ctx struct {
	parent   *Ctx
	site     ssa.CallInstruction // nil for root
	fn       *ssa.Function
	id       int
	kids     map[ssa.Instruction]*Ctx
	catching bool            // fn has a deferred closure calling recover()
	cont     ssa.Instruction // instruction after which the caller continues
}

func (c *Ctx) onStack(fn *ssa.Function) bool {
	for x := c; x != nil; x = x.parent {
		if x.fn == fn {
			return true
		}
	}
	return false
}
func (c *Ctx) depth() int {
	n := 0
	for x := c; x != nil; x = x.parent {
		n++
	}
	return n
}

// isDescOrSelf: c == a or c is called (transitively) from a.
func (c *Ctx) isDescOrSelf(a *Ctx) bool {
	for x := c; x != nil; x = x.parent {
		if x == a {
			return true
		}
	}
	return false
}

// chain renders the call string as positions, outermost first.
func (c *Ctx) chain(w *World) []string {
	var out []string
	for x := c; x != nil && x.site != nil; x = x.parent {
		out = append([]string{w.pos(x.site.Pos())}, out...)
	}
	return out
}

// inFunc: some frame of the call string (including the innermost) is fn.
func (c *Ctx) inFunc(name string) bool {
	for x := c; x != nil; x = x.parent {
		if fq(x.fn) == name {
			return true
		}
	}
	return false
}

// ---------- terms ----------

type Term struct {
	Op    string
	Name  string
	Inst  int
	Args  []*Term
	s     string
	insts []int
}

func (t *Term) String() string {
	if t == nil {
		return "<nil>"
	}
	return t.s
}

type Instance struct {
	id  int
	ctx *Ctx
	val ssa.Value // defining value (its block gives loop membership)
	ins ssa.Instruction
	k   int
}

type elemIndex struct {
	ctx *Ctx
	v   ssa.Value
}

// indexOfElem: the index term that selects a "current element" term (nil when unknown).
func (tb *TermBuilder) indexOfElem(el *Term) *Term {
	if e, ok := tb.elemIdx[el]; ok {
		return tb.Term(e.ctx, e.v)
	}
	return nil
}

type TermBuilder struct {
	elemIdx  map[*Term]elemIndex // "current element" term → the loop-variant index that selects it
	w        *World
	root     *Ctx
	nctx     int
	terms    map[string]*Term
	insts    []*Instance // index = id (0 unused)
	instKey  map[string]int
	memo     map[memoKey]*Term
	alts     map[int][]*Term // alternatives of phi/ret instances
	globals  map[*ssa.Global]*globalInit
	consts   map[int]constant.Value // root parameter index -> assumed constant
	dynamic  []string               // notes: calls through function values etc.
	initCtxs map[*ssa.Function]*Ctx
	live     map[*Ctx]map[*ssa.BasicBlock]bool
}

type memoKey struct {
	ctx *Ctx
	v   ssa.Value
}

type globalInit struct {
	fn      *ssa.Function
	val     ssa.Value
	multi   bool
	scanned map[*ssa.Function]bool
}

func newTermBuilder(w *World, rootFn *ssa.Function) *TermBuilder {
	tb := &TermBuilder{w: w, terms: map[string]*Term{}, instKey: map[string]int{}, memo: map[memoKey]*Term{},
		alts: map[int][]*Term{}, globals: map[*ssa.Global]*globalInit{}, consts: map[int]constant.Value{}}
	tb.insts = append(tb.insts, nil)
	tb.root = &Ctx{fn: rootFn, id: 0}
	tb.root.catching = hasRecover(rootFn)
	return tb
}

func hasRecover(fn *ssa.Function) bool {
	if fn == nil {
		return false
	}
	for _, b := range fn.Blocks {
		for _, ins := range b.Instrs {
			if d, ok := ins.(*ssa.Defer); ok {
				var body *ssa.Function
				if mc, ok := d.Call.Value.(*ssa.MakeClosure); ok {
					body, _ = mc.Fn.(*ssa.Function)
				} else if f, ok := d.Call.Value.(*ssa.Function); ok {
					body = f
				}
				if body == nil {
					return true // unknown deferred function: assume it may recover
				}
				for _, bb := range body.Blocks {
					for _, i2 := range bb.Instrs {
						if c, ok := i2.(*ssa.Call); ok {
							if bi, ok := c.Call.Value.(*ssa.Builtin); ok && bi.Name() == "recover" {
								return true
							}
						}
					}
				}
			}
		}
	}
	return false
}

func (tb *TermBuilder) child(c *Ctx, site ssa.CallInstruction, fn *ssa.Function) *Ctx {
	return tb.childAt(c, site, site, fn)
}

// childAt: frame of fn entered from site, returning to just after cont
// (cont differs from site for deferred closures, which run at RunDefers).
func (tb *TermBuilder) childAt(c *Ctx, site ssa.CallInstruction, cont ssa.Instruction, fn *ssa.Function) *Ctx {
	if c.kids == nil {
		c.kids = map[ssa.Instruction]*Ctx{}
	}
	if k, ok := c.kids[cont]; ok {
		return k
	}
	tb.nctx++
	k := &Ctx{parent: c, site: site, fn: fn, id: tb.nctx, cont: cont}
	k.catching = hasRecover(fn)
	c.kids[cont] = k
	return k
}

func (tb *TermBuilder) mk(op, name string, inst int, args ...*Term) *Term {
	var sb strings.Builder
	sb.WriteString(op)
	if name != "" || inst != 0 {
		sb.WriteByte('[')
		if i := strings.Index(name, ":"); op == "param" && i >= 0 {
			// a parameter is identified by its position; the name is display only
			sb.WriteString(name[:i])
		} else {
			sb.WriteString(name)
		}
		if inst != 0 {
			sb.WriteByte('#')
			sb.WriteString(strconv.Itoa(inst))
		}
		sb.WriteByte(']')
	}
	if len(args) > 0 {
		sb.WriteByte('(')
		for i, a := range args {
			if i > 0 {
				sb.WriteByte(',')
			}
			sb.WriteString(a.String())
		}
		sb.WriteByte(')')
	}
	s := sb.String()
	if t, ok := tb.terms[s]; ok {
		return t
	}
	t := &Term{Op: op, Name: name, Inst: inst, Args: args, s: s}
	set := map[int]bool{}
	if inst != 0 {
		set[inst] = true
	}
	for _, a := range args {
		if a == nil {
			continue
		}
		for _, i := range a.insts {
			set[i] = true
		}
	}
	for i := range set {
		t.insts = append(t.insts, i)
	}
	sort.Ints(t.insts)
	tb.terms[s] = t
	return t
}

func (tb *TermBuilder) inst(ctx *Ctx, v ssa.Value, k int) int {
	key := fmt.Sprintf("%d.%p.%d", ctx.id, v, k)
	if id, ok := tb.instKey[key]; ok {
		return id
	}
	in := &Instance{id: len(tb.insts), ctx: ctx, val: v, k: k}
	if i, ok := v.(ssa.Instruction); ok {
		in.ins = i
	}
	tb.insts = append(tb.insts, in)
	tb.instKey[key] = in.id
	return in.id
}

func (tb *TermBuilder) constInt(n int64) *Term {
	return tb.mk("const", "int:"+strconv.FormatInt(n, 10), 0)
}
func (tb *TermBuilder) constBytes(b string) *Term {
	return tb.mk("const", "bytes:"+strconv.Quote(b), 0)
}
func (tb *TermBuilder) nilTerm() *Term { return tb.mk("const", "nil", 0) }

func isByteSliceOrString(t types.Type) bool {
	switch u := t.Underlying().(type) {
	case *types.Basic:
		return u.Info()&types.IsString != 0
	case *types.Slice:
		if b, ok := u.Elem().Underlying().(*types.Basic); ok {
			return b.Kind() == types.Byte || b.Kind() == types.Uint8
		}
	}
	return false
}
func isInteger(t types.Type) bool {
	b, ok := t.Underlying().(*types.Basic)
	return ok && b.Info()&types.IsInteger != 0
}
func isBool(t types.Type) bool {
	b, ok := t.Underlying().(*types.Basic)
	return ok && b.Info()&types.IsBoolean != 0
}

// constInfo: integer value of a const term.
func (t *Term) IntConst() (int64, bool) {
	if t != nil && t.Op == "const" && strings.HasPrefix(t.Name, "int:") {
		n, err := strconv.ParseInt(t.Name[4:], 10, 64)
		return n, err == nil
	}
	return 0, false
}
func (t *Term) BytesConst() (string, bool) {
	if t != nil && t.Op == "const" && strings.HasPrefix(t.Name, "bytes:") {
		s, err := strconv.Unquote(t.Name[6:])
		return s, err == nil
	}
	return "", false
}
func (t *Term) IsNil() bool { return t != nil && t.Op == "const" && t.Name == "nil" }
func (t *Term) BoolConst() (bool, bool) {
	if t != nil && t.Op == "const" && strings.HasPrefix(t.Name, "bool:") {
		return t.Name == "bool:true", true
	}
	return false, false
}

func (tb *TermBuilder) constTerm(c *ssa.Const) *Term {
	if c.Value == nil {
		// nil or zero value of aggregate
		switch c.Type().Underlying().(type) {
		case *types.Struct, *types.Array:
			return tb.mk("zero", types.TypeString(c.Type(), shortQual), 0)
		}
		return tb.nilTerm()
	}
	switch c.Value.Kind() {
	case constant.Bool:
		return tb.mk("const", "bool:"+strconv.FormatBool(constant.BoolVal(c.Value)), 0)
	case constant.Int:
		if n, ok := constant.Int64Val(c.Value); ok {
			if b, ok2 := c.Type().Underlying().(*types.Basic); ok2 && (b.Kind() == types.Byte || b.Kind() == types.Uint8) && false {
				_ = n
			}
			return tb.constInt(n)
		}
		return tb.mk("const", "bigint:"+c.Value.ExactString(), 0)
	case constant.String:
		return tb.constBytes(constant.StringVal(c.Value))
	}
	return tb.mk("const", "other:"+c.Value.ExactString(), 0)
}

func shortQual(p *types.Package) string { return p.Name() }

// resolveParam maps a parameter of an inlined frame to the caller's argument.
func (tb *TermBuilder) resolveParam(ctx *Ctx, v ssa.Value) (*Ctx, ssa.Value) {
	for {
		switch p := v.(type) {
		case *ssa.Parameter:
			if ctx.parent == nil || ctx.site == nil {
				return ctx, v
			}
			idx := -1
			for i, q := range ctx.fn.Params {
				if q == p {
					idx = i
				}
			}
			if idx < 0 {
				return ctx, v
			}
			args := ctx.site.Common().Args
			if idx >= len(args) {
				return ctx, v
			}
			v = args[idx]
			ctx = ctx.parent
		case *ssa.FreeVar:
			// closure body inlined at a defer/call of a MakeClosure
			if ctx.site == nil {
				return ctx, v
			}
			mc, ok := ctx.site.Common().Value.(*ssa.MakeClosure)
			if !ok {
				return ctx, v
			}
			idx := -1
			for i, q := range ctx.fn.FreeVars {
				if q == p {
					idx = i
				}
			}
			if idx < 0 || idx >= len(mc.Bindings) {
				return ctx, v
			}
			v = mc.Bindings[idx]
			ctx = ctx.parent
		default:
			return ctx, v
		}
	}
}

// Term of (ctx, v).
func (tb *TermBuilder) Term(ctx *Ctx, v ssa.Value) *Term {
	ctx, v = tb.resolveParam(ctx, v)
	mk := memoKey{ctx, v}
	if t, ok := tb.memo[mk]; ok {
		if t == nil { // in progress: cycle through a loop phi
			return tb.mk("cyc", "", tb.inst(ctx, v, 0))
		}
		return t
	}
	tb.memo[mk] = nil
	t := tb.build(ctx, v)
	if hasCyc(t) {
		// built inside a cycle through a loop phi: the placeholder must not
		// outlive the computation that is resolving it
		delete(tb.memo, mk)
		return t
	}
	tb.memo[mk] = t
	return t
}

func hasCyc(t *Term) bool {
	return t.contains(func(x *Term) bool { return x.Op == "cyc" })
}

func (tb *TermBuilder) opaque(ctx *Ctx, v ssa.Value) *Term {
	return tb.mk("opaque", v.Name(), tb.inst(ctx, v, 0))
}

func (tb *TermBuilder) build(ctx *Ctx, v ssa.Value) *Term {
	switch x := v.(type) {
	case *ssa.Parameter:
		idx := -1
		for i, q := range ctx.fn.Params {
			if q == x {
				idx = i
			}
		}
		if ctx.parent == nil {
			if c, ok := tb.consts[idx]; ok {
				return tb.constTerm(ssa.NewConst(c, x.Type()))
			}
		}
		return tb.mk("param", fmt.Sprintf("%d:%s", idx, x.Name()), 0)
	case *ssa.FreeVar:
		return tb.opaque(ctx, v)
	case *ssa.Const:
		return tb.constTerm(x)
	case *ssa.ChangeType:
		return tb.Term(ctx, x.X)
	case *ssa.ChangeInterface:
		return tb.Term(ctx, x.X)
	case *ssa.MakeInterface:
		return tb.Term(ctx, x.X)
	case *ssa.Convert:
		in := tb.Term(ctx, x.X)
		// integer -> string is a rune conversion; everything else used here is value preserving
		if isInteger(x.X.Type()) && !isInteger(x.Type()) {
			return tb.mk("conv", types.TypeString(x.Type(), shortQual), 0, in)
		}
		return in
	case *ssa.SliceToArrayPointer:
		return tb.Term(ctx, x.X)
	case *ssa.TypeAssert:
		in := tb.Term(ctx, x.X)
		src := tb.staticType(ctx, x.X)
		if src != nil {
			if isInteger(src) && isByteSliceOrString(x.AssertedType) {
				return tb.mk("varint", "", 0, in)
			}
			if isByteSliceOrString(src) && isInteger(x.AssertedType) {
				return tb.mk("toint", "", 0, in)
			}
		}
		if x.CommaOk {
			return tb.mk("assertok", "", tb.inst(ctx, v, 0), in)
		}
		return in
	case *ssa.BinOp:
		return tb.binop(x.Op, tb.Term(ctx, x.X), tb.Term(ctx, x.Y), x.X.Type())
	case *ssa.UnOp:
		switch x.Op {
		case token.MUL:
			return tb.load(ctx, x)
		case token.NOT:
			in := tb.Term(ctx, x.X)
			if b, ok := in.BoolConst(); ok {
				return tb.mk("const", "bool:"+strconv.FormatBool(!b), 0)
			}
			return tb.mk("not", "", 0, in)
		case token.SUB:
			in := tb.Term(ctx, x.X)
			if n, ok := in.IntConst(); ok {
				return tb.constInt(-n)
			}
			return tb.mk("neg", "", 0, in)
		}
		return tb.mk("un", x.Op.String(), 0, tb.Term(ctx, x.X))
	case *ssa.Slice:
		return tb.slice(ctx, x)
	case *ssa.Field:
		return tb.field(tb.Term(ctx, x.X), fieldName(x.X.Type(), x.Field))
	case *ssa.Index:
		return tb.mk("index", "", 0, tb.Term(ctx, x.X), tb.Term(ctx, x.Index))
	case *ssa.Lookup:
		return tb.mk("index", "", 0, tb.Term(ctx, x.X), tb.Term(ctx, x.Index))
	case *ssa.Extract:
		return tb.extract(ctx, x)
	case *ssa.Phi:
		return tb.phi(ctx, x)
	case *ssa.Call:
		return tb.call(ctx, x, -1)
	case *ssa.Alloc:
		return tb.mk("addr", x.Name(), tb.inst(ctx, v, 0))
	case *ssa.FieldAddr, *ssa.IndexAddr:
		return tb.mk("addr", v.Name(), tb.inst(ctx, v, 0))
	case *ssa.Global:
		return tb.mk("gaddr", x.Name(), 0)
	case *ssa.Function:
		return tb.mk("func", fq(x), 0)
	case *ssa.MakeSlice:
		return tb.mk("make", "", tb.inst(ctx, v, 0), tb.Term(ctx, x.Len))
	case *ssa.MakeMap:
		return tb.mk("makemap", "", tb.inst(ctx, v, 0))
	case *ssa.MakeClosure:
		return tb.mk("closure", fq(x.Fn.(*ssa.Function)), tb.inst(ctx, v, 0))
	case *ssa.Next, *ssa.Range:
		return tb.opaque(ctx, v)
	}
	return tb.opaque(ctx, v)
}

func fieldName(t types.Type, i int) string {
	if p, ok := t.Underlying().(*types.Pointer); ok {
		t = p.Elem()
	}
	if st, ok := t.Underlying().(*types.Struct); ok && i < st.NumFields() {
		return st.Field(i).Name()
	}
	return "f" + strconv.Itoa(i)
}

// staticType: the static type of the value below interface wrappers.
func (tb *TermBuilder) staticType(ctx *Ctx, v ssa.Value) types.Type {
	for i := 0; i < 8; i++ {
		ctx, v = tb.resolveParam(ctx, v)
		switch x := v.(type) {
		case *ssa.MakeInterface:
			return x.X.Type()
		case *ssa.ChangeInterface:
			v = x.X
		case *ssa.ChangeType:
			v = x.X
		default:
			if _, ok := v.Type().Underlying().(*types.Interface); ok {
				return nil
			}
			return v.Type()
		}
	}
	return nil
}

func (tb *TermBuilder) field(x *Term, name string) *Term {
	if x.Op == "struct" {
		// struct[T](f1=..,f2=..): Args aligned with Name's field list
		names := strings.Split(x.Name[strings.Index(x.Name, ":")+1:], ",")
		for i, n := range names {
			if n == name && i < len(x.Args) {
				return x.Args[i]
			}
		}
	}
	return tb.mk("field", name, 0, x)
}

var commutative = map[token.Token]bool{token.ADD: true, token.MUL: true, token.AND: true, token.OR: true, token.XOR: true, token.EQL: true, token.NEQ: true}

func (tb *TermBuilder) binop(op token.Token, a, b *Term, operandType types.Type) *Term {
	if isByteSliceOrString(operandType) && op == token.ADD {
		return tb.cat(a, b)
	}
	// normalise comparisons to < and <=
	switch op {
	case token.GTR:
		op, a, b = token.LSS, b, a
	case token.GEQ:
		op, a, b = token.LEQ, b, a
	}
	x, okx := a.IntConst()
	y, oky := b.IntConst()
	if okx && oky {
		switch op {
		case token.ADD:
			return tb.constInt(x + y)
		case token.SUB:
			return tb.constInt(x - y)
		case token.MUL:
			return tb.constInt(x * y)
		case token.QUO:
			if y != 0 {
				return tb.constInt(x / y)
			}
		case token.REM:
			if y != 0 {
				return tb.constInt(x % y)
			}
		case token.EQL:
			return tb.mk("const", "bool:"+strconv.FormatBool(x == y), 0)
		case token.NEQ:
			return tb.mk("const", "bool:"+strconv.FormatBool(x != y), 0)
		case token.LSS:
			return tb.mk("const", "bool:"+strconv.FormatBool(x < y), 0)
		case token.LEQ:
			return tb.mk("const", "bool:"+strconv.FormatBool(x <= y), 0)
		}
	}
	if isInteger(operandType) {
		switch op {
		case token.ADD, token.SUB, token.MUL:
			return tb.poly(op, a, b)
		}
	}
	if commutative[op] && a.String() > b.String() {
		a, b = b, a
	}
	return tb.mk("bin", op.String(), 0, a, b)
}

// poly: sums are kept as a sorted list of signed monomials so that
// a+b-c == a-c+b; products as sorted factor lists.
func (tb *TermBuilder) poly(op token.Token, a, b *Term) *Term {
	if op == token.MUL {
		fa := tb.factors(a)
		fb := tb.factors(b)
		fs := append(append([]*Term{}, fa...), fb...)
		var k int64 = 1
		var rest []*Term
		for _, f := range fs {
			if n, ok := f.IntConst(); ok {
				k *= n
			} else {
				rest = append(rest, f)
			}
		}
		sort.Slice(rest, func(i, j int) bool { return rest[i].String() < rest[j].String() })
		if len(rest) == 0 {
			return tb.constInt(k)
		}
		if k != 1 {
			rest = append([]*Term{tb.constInt(k)}, rest...)
		}
		if len(rest) == 1 {
			return rest[0]
		}
		return tb.mk("mul", "", 0, rest...)
	}
	// sum
	type mono struct {
		t   *Term
		neg bool
	}
	var ms []mono
	var k int64
	addTerm := func(t *Term, neg bool) {
		if t.Op == "sum" {
			for i, s := range t.Args {
				sneg := t.Name[i] == '-'
				if n, ok := s.IntConst(); ok {
					if sneg != neg {
						k -= n
					} else {
						k += n
					}
					continue
				}
				ms = append(ms, mono{s, sneg != neg})
			}
			return
		}
		if n, ok := t.IntConst(); ok {
			if neg {
				k -= n
			} else {
				k += n
			}
			return
		}
		ms = append(ms, mono{t, neg})
	}
	addTerm(a, false)
	addTerm(b, op == token.SUB)
	// cancel x - x
	var out []mono
	used := make([]bool, len(ms))
	for i := range ms {
		if used[i] {
			continue
		}
		cancelled := false
		for j := i + 1; j < len(ms); j++ {
			if !used[j] && ms[j].t == ms[i].t && ms[j].neg != ms[i].neg {
				used[j] = true
				cancelled = true
				break
			}
		}
		if !cancelled {
			out = append(out, ms[i])
		}
	}
	sort.SliceStable(out, func(i, j int) bool { return out[i].t.String() < out[j].t.String() })
	if len(out) == 0 {
		return tb.constInt(k)
	}
	if k != 0 {
		out = append(out, mono{tb.constInt(abs64(k)), k < 0})
	}
	if len(out) == 1 && !out[0].neg {
		return out[0].t
	}
	var signs strings.Builder
	var args []*Term
	for _, m := range out {
		if m.neg {
			signs.WriteByte('-')
		} else {
			signs.WriteByte('+')
		}
		args = append(args, m.t)
	}
	return tb.mk("sum", signs.String(), 0, args...)
}

func abs64(x int64) int64 {
	if x < 0 {
		return -x
	}
	return x
}

func (tb *TermBuilder) factors(t *Term) []*Term {
	if t.Op == "mul" {
		return t.Args
	}
	return []*Term{t}
}

// cat: byte/string concatenation, flattened, adjacent constants merged.
func (tb *TermBuilder) cat(parts ...*Term) *Term {
	var flat []*Term
	for _, p := range parts {
		if p == nil {
			continue
		}
		if p.Op == "cat" {
			flat = append(flat, p.Args...)
		} else {
			flat = append(flat, p)
		}
	}
	var out []*Term
	for _, p := range flat {
		if p.IsNil() {
			continue
		}
		if s, ok := p.BytesConst(); ok {
			if s == "" {
				continue
			}
			if len(out) > 0 {
				if s0, ok0 := out[len(out)-1].BytesConst(); ok0 {
					out[len(out)-1] = tb.constBytes(s0 + s)
					continue
				}
			}
		}
		out = append(out, p)
	}
	if len(out) == 0 {
		return tb.constBytes("")
	}
	if len(out) == 1 {
		return out[0]
	}
	return tb.mk("cat", "", 0, out...)
}

func (tb *TermBuilder) byteOf(t *Term) *Term {
	if n, ok := t.IntConst(); ok && n >= 0 && n < 256 {
		return tb.constBytes(string([]byte{byte(n)}))
	}
	return tb.mk("byte", "", 0, t)
}

func (tb *TermBuilder) phi(ctx *Ctx, x *ssa.Phi) *Term {
	in := tb.inst(ctx, x, 0)
	var alts []*Term
	seen := map[*Term]bool{}
	self := false
	for j, e := range x.Edges {
		if !tb.liveEdge(ctx, x.Block().Preds[j], x.Block()) {
			continue
		}
		t := tb.Term(ctx, e)
		if t.Op == "cyc" && t.Inst == in {
			self = true
			continue
		}
		if !seen[t] {
			seen[t] = true
			alts = append(alts, t)
		}
	}
	if len(alts) == 1 && !self && !mentions(alts[0], in) {
		return alts[0]
	}
	me := tb.mk("phi", x.Comment, in)
	cyc := tb.mk("cyc", "", in)
	for i := range alts {
		alts[i] = tb.Subst(alts[i], cyc, me)
	}
	if _, done := tb.alts[in]; !done || !anyCyc(alts) {
		tb.alts[in] = alts
	}
	return me
}

func anyCyc(ts []*Term) bool {
	for _, t := range ts {
		if hasCyc(t) {
			return true
		}
	}
	return false
}

func mentions(t *Term, inst int) bool {
	for _, i := range t.insts {
		if i == inst {
			return true
		}
	}
	return false
}

func (tb *TermBuilder) extract(ctx *Ctx, x *ssa.Extract) *Term {
	if c, ok := x.Tuple.(*ssa.Call); ok {
		return tb.call(ctx, c, x.Index)
	}
	if ta, ok := x.Tuple.(*ssa.TypeAssert); ok {
		if x.Index == 0 {
			return tb.Term(ctx, ta.X)
		}
		return tb.mk("assertok", "", tb.inst(ctx, ta, 0), tb.Term(ctx, ta.X))
	}
	if lk, ok := x.Tuple.(*ssa.Lookup); ok {
		if x.Index == 0 {
			return tb.mk("index", "", 0, tb.Term(ctx, lk.X), tb.Term(ctx, lk.Index))
		}
		return tb.mk("haskey", "", tb.inst(ctx, lk, 0), tb.Term(ctx, lk.X), tb.Term(ctx, lk.Index))
	}
	return tb.mk("extract", strconv.Itoa(x.Index), tb.inst(ctx, x.Tuple, x.Index))
}

// ---------- calls ----------

// pure primitives: functions of their arguments (and of the invocation), no instance.
var purePrims = map[string]bool{
	"native/crypto.Sha256": true, "native/crypto.Ripemd160": true, "native/crypto.VerifyWithECDsa": true,
	"native/std.Serialize": true, "native/std.Deserialize": true, "native/std.Itoa": true, "native/std.Itoa10": true,
	"native/std.Atoi": true, "native/std.Atoi10": true, "native/std.Base58Encode": true, "native/std.Base58Decode": true,
	"native/std.StringSplit": true, "native/std.StringSplitNonEmpty": true, "native/std.MemorySearch": true,
	"native/std.MemorySearchLastIndex": true, "native/std.MemorySearchIndex": true, "native/std.MemoryCompare": true,
	"convert.ToBytes": true, "convert.ToInteger": true, "convert.ToString": true, "convert.ToBool": true,
	"contract.CreateStandardAccount": true, "contract.CreateMultisigAccount": true,
	"native/neo.GetCommittee": true, "runtime.GetExecutingScriptHash": true, "runtime.GetCallingScriptHash": true,
	"runtime.GetEntryScriptHash": true,
	"native/ledger.CurrentIndex": true, "runtime.GetTime": true, "runtime.GetNetwork": true, "runtime.GetScriptContainer": true,
	"native/roles.GetDesignatedByRole": true, "util.Equals": true, "interop.Hash160.Equals": true, "interop.Hash256.Equals": true,
	"interop.PublicKey.Equals": true, "lib/address.ToHash160": true, "lib/address.FromHash160": true,
	"storage.GetContext": true, "storage.GetReadOnlyContext": true, "runtime.CheckWitness": true,
	"native/management.GetContract": true, "native/management.GetContractByID": true, "native/management.HasMethod": true,
	"util.Uint160DecodeBytesBE": true, "util.Uint160DecodeBytesLE": true,
}

// stateReads: results depend on mutable state, so each call is its own instance.
var stateReads = map[string]bool{
	"storage.Get": true, "storage.Find": true, "iterator.Next": true, "iterator.Value": true,
	"native/gas.BalanceOf": true, "native/neo.BalanceOf": true, "contract.Call": true,
	"contract.GetStorageItem": true, "contract.SeekStorage": true,
}

func (tb *TermBuilder) call(ctx *Ctx, c *ssa.Call, extract int) *Term {
	com := c.Common()
	if b, ok := com.Value.(*ssa.Builtin); ok {
		return tb.builtin(ctx, c, b)
	}
	callee := com.StaticCallee()
	if callee == nil {
		tb.dynamic = append(tb.dynamic, tb.w.pos(c.Pos()))
		return tb.mk("dyncall", "", tb.inst(ctx, c, extract+1))
	}
	name := fq(callee)
	if inlinable(callee) && !ctx.onStack(callee) && ctx.depth() < 16 {
		k := tb.child(ctx, c, callee)
		var alts []*Term
		seen := map[*Term]bool{}
		live := tb.liveBlocks(k)
		for _, b := range callee.Blocks {
			r, ok := b.Instrs[len(b.Instrs)-1].(*ssa.Return)
			if !ok || !live[b] {
				continue // returns in blocks that constant arguments make unreachable do not count
			}
			var rv ssa.Value
			switch {
			case extract < 0 && len(r.Results) == 1:
				rv = r.Results[0]
			case extract >= 0 && extract < len(r.Results):
				rv = r.Results[extract]
			default:
				continue
			}
			t := tb.Term(k, rv)
			if !seen[t] {
				seen[t] = true
				alts = append(alts, t)
			}
		}
		// a pure helper whose result is built in local memory (make/copy/in-place
		// edits) is named as an application of the function to its arguments
		if len(alts) >= 1 && isPureFn(callee, 0) {
			opaque := false
			for _, al := range alts {
				if al.contains(func(x *Term) bool {
					if !(x.Op == "addr" || x.Op == "make" || x.Op == "load" || x.Op == "opcode" || x.Op == "builtin") {
						return false
					}
					// only memory of the callee's own frame makes the result opaque
					return x.Inst != 0 && tb.insts[x.Inst].ctx.isDescOrSelf(k)
				}) {
					opaque = true
				}
			}
			if opaque {
				var args []*Term
				for _, ar := range com.Args {
					args = append(args, tb.Term(ctx, ar))
				}
				return tb.mk("call", name, 0, args...)
			}
		}
		if len(alts) == 1 {
			return alts[0]
		}
		if len(alts) == 0 {
			return tb.mk("void", name, 0)
		}
		in := tb.inst(ctx, c, extract+1)
		tb.alts[in] = alts
		return tb.mk("ret", name, in)
	}
	var args []*Term
	for _, a := range com.Args {
		args = append(args, tb.Term(ctx, a))
	}
	switch name {
	case "storage.Get":
		return tb.mk("read", "", tb.inst(ctx, c, 0), args[1])
	case "storage.Find":
		return tb.mk("find", "", tb.inst(ctx, c, 0), args[1], args[2])
	case "iterator.Value":
		return tb.mk("iterval", "", tb.inst(ctx, c, 0), args[0])
	case "iterator.Next":
		return tb.mk("iternext", "", tb.inst(ctx, c, 0), args[0])
	case "contract.Call":
		return tb.mk("ext", "", tb.inst(ctx, c, 0), args...)
	case "neogointernal.Opcode2", "neogointernal.Opcode1", "neogointernal.Opcode1NoReturn", "neogointernal.Opcode2NoReturn", "neogointernal.Opcode3":
		return tb.mk("opcode", "", tb.inst(ctx, c, 0), args...)
	}
	if name == "convert.ToBytes" && len(args) == 1 {
		if st := tb.staticType(ctx, com.Args[0]); st != nil && isInteger(st) {
			// same conversion as any(x).([]byte): the variable-length VM encoding of an integer
			return tb.mk("varint", "", 0, args[0])
		}
	}
	if false {
	}
	if purePrims[name] {
		return tb.mk("call", name, 0, args...)
	}
	return tb.mk("icall", name, tb.inst(ctx, c, extract+1), args...)
}

func (tb *TermBuilder) builtin(ctx *Ctx, c *ssa.Call, b *ssa.Builtin) *Term {
	args := c.Common().Args
	switch b.Name() {
	case "len":
		x := tb.Term(ctx, args[0])
		if x.IsNil() {
			return tb.constInt(0)
		}
		if s, ok := x.BytesConst(); ok {
			return tb.constInt(int64(len(s)))
		}
		if x.Op == "arr" {
			return tb.constInt(int64(len(x.Args)))
		}
		return tb.mk("len", "", 0, x)
	case "append":
		base := tb.Term(ctx, args[0])
		if len(args) == 1 {
			return base
		}
		ext := tb.Term(ctx, args[1])
		if isByteSliceOrString(args[0].Type()) {
			return tb.cat(base, ext)
		}
		// generic slices: append(x, arr(e1..)) keeps element list when known
		return tb.mk("append", "", tb.inst(ctx, c, 0), base, ext)
	case "recover":
		return tb.mk("recover", "", tb.inst(ctx, c, 0))
	}
	var ts []*Term
	for _, a := range args {
		ts = append(ts, tb.Term(ctx, a))
	}
	return tb.mk("builtin", b.Name(), tb.inst(ctx, c, 0), ts...)
}

// ---------- slices and array literals ----------

func (tb *TermBuilder) slice(ctx *Ctx, x *ssa.Slice) *Term {
	// slice of a freshly built array literal: new [n]T (slicelit|varargs)
	if al, ok := x.X.(*ssa.Alloc); ok {
		if at, ok := al.Type().Underlying().(*types.Pointer).Elem().Underlying().(*types.Array); ok && x.Low == nil && x.High == nil {
			if elems, ok := tb.arrayLit(ctx, al, int(at.Len())); ok {
				if b, ok := at.Elem().Underlying().(*types.Basic); ok && (b.Kind() == types.Byte || b.Kind() == types.Uint8) {
					var parts []*Term
					for _, e := range elems {
						parts = append(parts, tb.byteOf(e))
					}
					return tb.cat(parts...)
				}
				return tb.mk("arr", "", 0, elems...)
			}
		}
	}
	base := tb.Term(ctx, x.X)
	lo, hi := tb.mk("none", "", 0), tb.mk("none", "", 0)
	if x.Low != nil {
		lo = tb.Term(ctx, x.Low)
	}
	if x.High != nil {
		hi = tb.Term(ctx, x.High)
	}
	if x.Low == nil && x.High == nil {
		return base
	}
	if s, ok := base.BytesConst(); ok {
		l, okl := lo.IntConst()
		h, okh := hi.IntConst()
		if lo.Op == "none" {
			l, okl = 0, true
		}
		if hi.Op == "none" {
			h, okh = int64(len(s)), true
		}
		if okl && okh && l >= 0 && h <= int64(len(s)) && l <= h {
			return tb.constBytes(s[l:h])
		}
	}
	return tb.mk("slice", "", 0, base, lo, hi)
}

// arrayLit: every element of the array is stored exactly once at a constant
// index and the array is otherwise only sliced.
func (tb *TermBuilder) arrayLit(ctx *Ctx, al *ssa.Alloc, n int) ([]*Term, bool) {
	elems := make([]*Term, n)
	refs := al.Referrers()
	if refs == nil {
		return nil, false
	}
	for _, r := range *refs {
		switch ia := r.(type) {
		case *ssa.IndexAddr:
			c, ok := ia.Index.(*ssa.Const)
			if !ok {
				return nil, false
			}
			idx, _ := constant.Int64Val(c.Value)
			irefs := ia.Referrers()
			if irefs == nil || len(*irefs) != 1 {
				return nil, false
			}
			st, ok := (*irefs)[0].(*ssa.Store)
			if !ok || st.Addr != ia {
				return nil, false
			}
			if idx < 0 || int(idx) >= n || elems[idx] != nil {
				return nil, false
			}
			elems[idx] = tb.Term(ctx, st.Val)
		case *ssa.Slice:
		case *ssa.DebugRef:
		default:
			return nil, false
		}
	}
	for i := range elems {
		if elems[i] == nil {
			if b, ok := al.Type().Underlying().(*types.Pointer).Elem().Underlying().(*types.Array).Elem().Underlying().(*types.Basic); ok && b.Info()&types.IsInteger != 0 {
				elems[i] = tb.constInt(0)
			} else {
				elems[i] = tb.nilTerm()
			}
		}
	}
	return elems, true
}

// ---------- loads ----------

func (tb *TermBuilder) load(ctx *Ctx, ld *ssa.UnOp) *Term {
	switch a := ld.X.(type) {
	case *ssa.Global:
		return tb.globalVal(a)
	case *ssa.IndexAddr:
		if t := tb.elemLoad(ctx, a); t != nil {
			return t
		}
	}
	if t, ok := tb.localLoad(ctx, ld); ok {
		return t
	}
	// field of a slice element read in place (s[i].F): the same value as the
	// field of the loaded element, as long as the function never stores through
	// an element address of that slice
	if fa, ok := ld.X.(*ssa.FieldAddr); ok {
		var path []string
		var cur ssa.Value = fa
		for {
			f, ok := cur.(*ssa.FieldAddr)
			if !ok {
				break
			}
			path = append(path, fieldName(f.X.Type(), f.Field))
			cur = f.X
		}
		if ia, ok := cur.(*ssa.IndexAddr); ok {
			if _, isAlloc := ia.X.(*ssa.Alloc); !isAlloc && !storesThroughElem(ctx.fn, ia.X) {
				if el := tb.elemLoad(ctx, ia); el != nil && (el.Op == "elem" || el.Op == "index") {
					for i := len(path) - 1; i >= 0; i-- {
						el = tb.field(el, path[i])
					}
					return el
				}
			}
		}
	}
	// field of a package-level variable
	if g, path, ok := globalPath(ld.X); ok {
		val := tb.globalVal(g)
		for _, p := range path {
			if strings.HasPrefix(p, "#") {
				n, _ := strconv.ParseInt(p[1:], 10, 64)
				val = tb.mk("index", "", 0, val, tb.constInt(n))
			} else {
				val = tb.field(val, p)
			}
		}
		return val
	}
	return tb.mk("load", "", tb.inst(ctx, ld, 0))
}

// elemLoad: the value at &base[i] for a slice/array value base (nil for a local array).
// Two reads with the same base and the same index value are the same element.
func (tb *TermBuilder) elemLoad(ctx *Ctx, a *ssa.IndexAddr) *Term {
	if _, isAlloc := a.X.(*ssa.Alloc); isAlloc {
		return nil
	}
	bt := tb.Term(ctx, a.X)
	if c, ok := a.Index.(*ssa.Const); ok {
		n, _ := constant.Int64Val(c.Value)
		if bt.Op == "arr" && int(n) < len(bt.Args) {
			return bt.Args[n]
		}
		return tb.mk("index", "", 0, bt, tb.constInt(n))
	}
	it := tb.Term(ctx, a.Index)
	if it.contains(func(x *Term) bool { return x.Op == "phi" || x.Op == "cyc" }) {
		// loop-variant index: "the current element"
		el := tb.mk("elem", "", tb.inst(ctx, a.Index, 0), bt)
		if tb.elemIdx == nil {
			tb.elemIdx = map[*Term]elemIndex{}
		}
		tb.elemIdx[el] = elemIndex{ctx, a.Index}
		return el
	}
	return tb.mk("index", "", 0, bt, it)
}

// storesThroughElem: fn writes through &base[i] (directly or to a field of it).
func storesThroughElem(fn *ssa.Function, base ssa.Value) bool {
	for _, b := range fn.Blocks {
		for _, ins := range b.Instrs {
			st, ok := ins.(*ssa.Store)
			if !ok {
				continue
			}
			var cur ssa.Value = st.Addr
			for {
				if f, ok := cur.(*ssa.FieldAddr); ok {
					cur = f.X
					continue
				}
				break
			}
			if ia, ok := cur.(*ssa.IndexAddr); ok && ia.X == base {
				return true
			}
		}
	}
	return false
}

func globalPath(a ssa.Value) (*ssa.Global, []string, bool) {
	var path []string
	for {
		switch x := a.(type) {
		case *ssa.Global:
			for i, j := 0, len(path)-1; i < j; i, j = i+1, j-1 {
				path[i], path[j] = path[j], path[i]
			}
			return x, path, true
		case *ssa.FieldAddr:
			path = append(path, fieldName(x.X.Type(), x.Field))
			a = x.X
		case *ssa.IndexAddr:
			c, ok := x.Index.(*ssa.Const)
			if !ok {
				return nil, nil, false
			}
			n, _ := constant.Int64Val(c.Value)
			path = append(path, "#"+strconv.FormatInt(n, 10))
			a = x.X
		default:
			return nil, nil, false
		}
	}
}

// liveBlocks: blocks of ctx.fn reachable from the entry when branches on
// conditions that are constant in this context are pruned.
func (tb *TermBuilder) liveEdge(ctx *Ctx, from, to *ssa.BasicBlock) bool {
	lb := tb.liveBlocks(ctx)
	if !lb[from] {
		return false
	}
	if ifi, ok := from.Instrs[len(from.Instrs)-1].(*ssa.If); ok {
		if cb, ok := tb.Term(ctx, ifi.Cond).BoolConst(); ok {
			taken := from.Succs[0]
			if !cb {
				taken = from.Succs[1]
			}
			return taken == to
		}
	}
	return true
}

func (tb *TermBuilder) liveBlocks(ctx *Ctx) map[*ssa.BasicBlock]bool {
	if tb.live == nil {
		tb.live = map[*Ctx]map[*ssa.BasicBlock]bool{}
	}
	if m, ok := tb.live[ctx]; ok {
		return m
	}
	m := map[*ssa.BasicBlock]bool{}
	tb.live[ctx] = m
	if len(ctx.fn.Blocks) == 0 {
		return m
	}
	// optimistic first (breaks cycles through phi terms): every block live
	for _, b := range ctx.fn.Blocks {
		m[b] = true
	}
	m2 := map[*ssa.BasicBlock]bool{}
	work := []*ssa.BasicBlock{ctx.fn.Blocks[0]}
	m2[ctx.fn.Blocks[0]] = true
	tainted := false
	for len(work) > 0 {
		b := work[len(work)-1]
		work = work[:len(work)-1]
		succs := b.Succs
		if ifi, ok := b.Instrs[len(b.Instrs)-1].(*ssa.If); ok {
			ct := tb.Term(ctx, ifi.Cond)
			if hasCyc(ct) {
				tainted = true
			}
			if cb, ok := ct.BoolConst(); ok {
				if cb {
					succs = b.Succs[:1]
				} else {
					succs = b.Succs[1:]
				}
			}
		}
		for _, s := range succs {
			if !m2[s] {
				m2[s] = true
				work = append(work, s)
			}
		}
	}
	if ctx.fn.Recover != nil {
		m2[ctx.fn.Recover] = true
	}
	if tainted {
		delete(tb.live, ctx)
	} else {
		tb.live[ctx] = m2
	}
	return m2
}

func (tb *TermBuilder) globalVal(g *ssa.Global) *Term {
	gi, ok := tb.globals[g]
	if !ok {
		gi = &globalInit{}
		tb.globals[g] = gi
		if g.Pkg != nil {
			for _, m := range g.Pkg.Members {
				f, ok := m.(*ssa.Function)
				if !ok {
					continue
				}
				tb.scanGlobalStores(f, g, gi)
				for _, an := range f.AnonFuncs {
					tb.scanGlobalStores(an, g, gi)
				}
			}
			// init#N functions are not members
			if initf := g.Pkg.Func("init"); initf != nil {
				for _, b := range initf.Blocks {
					for _, ins := range b.Instrs {
						if c, ok := ins.(*ssa.Call); ok {
							if f := c.Common().StaticCallee(); f != nil && f.Pkg == g.Pkg && strings.HasPrefix(f.Name(), "init#") {
								tb.scanGlobalStores(f, g, gi)
							}
						}
					}
				}
			}
		}
	}
	if gi.val == nil || gi.multi {
		if os.Getenv("DBGGLOBAL") != "" {
			fmt.Fprintln(os.Stderr, "global unresolved", g.Name(), gi.val, gi.multi)
		}
		return tb.mk("global", g.Pkg.Pkg.Name()+"."+g.Name(), 0)
	}
	// evaluate in a pseudo root context for the init function
	ictx := tb.initCtx(gi.fn)
	return tb.Term(ictx, gi.val)
}

func (tb *TermBuilder) scanGlobalStores(f *ssa.Function, g *ssa.Global, gi *globalInit) {
	if gi.scanned == nil {
		gi.scanned = map[*ssa.Function]bool{}
	}
	if gi.scanned[f] {
		return
	}
	gi.scanned[f] = true
	for _, b := range f.Blocks {
		for _, ins := range b.Instrs {
			if st, ok := ins.(*ssa.Store); ok && st.Addr == g {
				if gi.val != nil {
					gi.multi = true
				}
				gi.val = st.Val
				gi.fn = f
			}
		}
	}
}

func (tb *TermBuilder) initCtx(f *ssa.Function) *Ctx {
	m := tb.initCtxs
	if m == nil {
		m = map[*ssa.Function]*Ctx{}
		tb.initCtxs = m
	}
	if c, ok := m[f]; ok {
		return c
	}
	tb.nctx++
	c := &Ctx{fn: f, id: tb.nctx}
	m[f] = c
	return c
}

// access path of an address rooted at an Alloc: (alloc, field list)
func allocPath(a ssa.Value) (*ssa.Alloc, []string, bool) {
	var path []string
	for {
		switch x := a.(type) {
		case *ssa.Alloc:
			// reverse
			for i, j := 0, len(path)-1; i < j; i, j = i+1, j-1 {
				path[i], path[j] = path[j], path[i]
			}
			return x, path, true
		case *ssa.FieldAddr:
			path = append(path, fieldName(x.X.Type(), x.Field))
			a = x.X
		case *ssa.IndexAddr:
			c, ok := x.Index.(*ssa.Const)
			if !ok {
				return nil, nil, false
			}
			n, _ := constant.Int64Val(c.Value)
			path = append(path, "#"+strconv.FormatInt(n, 10))
			a = x.X
		default:
			return nil, nil, false
		}
	}
}

type allocInfo struct {
	stores  []*ssa.Store
	paths   map[*ssa.Store][]string
	escapes bool
}

var allocInfos = map[*ssa.Alloc]*allocInfo{}

func getAllocInfo(al *ssa.Alloc) *allocInfo {
	if ai, ok := allocInfos[al]; ok {
		return ai
	}
	ai := &allocInfo{paths: map[*ssa.Store][]string{}}
	allocInfos[al] = ai
	var visit func(addr ssa.Value)
	visit = func(addr ssa.Value) {
		refs := addr.Referrers()
		if refs == nil {
			return
		}
		for _, r := range *refs {
			switch x := r.(type) {
			case *ssa.Store:
				if x.Addr == addr {
					_, p, ok := allocPath(addr)
					if !ok {
						ai.escapes = true
					}
					ai.stores = append(ai.stores, x)
					ai.paths[x] = p
				} else {
					ai.escapes = true // address stored somewhere
				}
			case *ssa.UnOp:
			case *ssa.FieldAddr:
				visit(x)
			case *ssa.IndexAddr:
				if _, ok := x.Index.(*ssa.Const); !ok {
					ai.escapes = true
				}
				visit(x)
			case *ssa.Slice, *ssa.DebugRef:
			default:
				ai.escapes = true
			}
		}
	}
	visit(al)
	return ai
}

func pathPrefix(a, b []string) bool { // a is a prefix of b
	if len(a) > len(b) {
		return false
	}
	for i := range a {
		if a[i] != b[i] {
			return false
		}
	}
	return true
}

// localLoad reconstructs the value read from a local aggregate from the
// stores that reach the load.
func (tb *TermBuilder) localLoad(ctx *Ctx, ld *ssa.UnOp) (*Term, bool) {
	al, path, ok := allocPath(ld.X)
	if !ok {
		return nil, false
	}
	ai := getAllocInfo(al)
	if ai.escapes {
		return nil, false
	}
	elemT := al.Type().Underlying().(*types.Pointer).Elem()
	return tb.reach(ctx, ld, al, ai, path, typeAt(elemT, path))
}

func typeAt(t types.Type, path []string) types.Type {
	for _, p := range path {
		switch u := t.Underlying().(type) {
		case *types.Struct:
			found := false
			for i := 0; i < u.NumFields(); i++ {
				if u.Field(i).Name() == p {
					t = u.Field(i).Type()
					found = true
					break
				}
			}
			if !found {
				return nil
			}
		case *types.Array:
			t = u.Elem()
		default:
			return nil
		}
	}
	return t
}

func (tb *TermBuilder) reach(ctx *Ctx, at ssa.Instruction, al *ssa.Alloc, ai *allocInfo, path []string, T types.Type) (*Term, bool) {
	if T == nil {
		return nil, false
	}
	// struct with partial stores below this path: compose per field
	if st, ok := T.Underlying().(*types.Struct); ok {
		partial := false
		for _, s := range ai.stores {
			if p := ai.paths[s]; len(p) > len(path) && pathPrefix(path, p) {
				partial = true
			}
		}
		if partial {
			var names []string
			var args []*Term
			for i := 0; i < st.NumFields(); i++ {
				f := st.Field(i)
				ft, ok := tb.reach(ctx, at, al, ai, append(append([]string{}, path...), f.Name()), f.Type())
				if !ok {
					return nil, false
				}
				names = append(names, f.Name())
				args = append(args, ft)
			}
			return tb.mk("struct", types.TypeString(T, shortQual)+":"+strings.Join(names, ","), 0, args...), true
		}
	}
	// candidate stores: to this path or to a prefix of it
	var cands []*ssa.Store
	for _, s := range ai.stores {
		if pathPrefix(ai.paths[s], path) {
			cands = append(cands, s)
		}
	}
	dom := nearestDominatingStore(at, cands)
	multi := false
	for _, s := range cands {
		if s == dom {
			continue
		}
		if reachesAvoiding(s, at, dom) {
			multi = true
		}
	}
	if multi {
		// several stores may reach the load: the value is one of the stored values
		// (a memory phi), named by the load instance with the stored values as alternatives
		var alts []*Term
		seen := map[*Term]bool{}
		for _, s := range cands {
			if !reachesAvoidingAll(s, at, cands) {
				continue
			}
			val := tb.Term(ctx, s.Val)
			for _, p := range path[len(ai.paths[s]):] {
				if strings.HasPrefix(p, "#") {
					n, _ := strconv.ParseInt(p[1:], 10, 64)
					val = tb.mk("index", "", 0, val, tb.constInt(n))
				} else {
					val = tb.field(val, p)
				}
			}
			if !seen[val] {
				seen[val] = true
				alts = append(alts, val)
			}
		}
		if len(alts) == 0 {
			return nil, false
		}
		if len(alts) == 1 {
			return alts[0], true
		}
		ldv, _ := at.(ssa.Value)
		if ldv == nil {
			return nil, false
		}
		k := 1
		for _, c := range strings.Join(path, ".") {
			k = (k*131 + int(c)) % 1000003
		}
		in := tb.inst(ctx, ldv, k+1)
		if !anyCyc(alts) {
			tb.alts[in] = alts
		}
		return tb.mk("phi", "mem:"+strings.Join(path, "."), in), true
	}
	if dom == nil {
		return tb.zeroOf(T), true
	}
	val := tb.Term(ctx, dom.Val)
	for _, p := range path[len(ai.paths[dom]):] {
		if strings.HasPrefix(p, "#") {
			n, _ := strconv.ParseInt(p[1:], 10, 64)
			val = tb.mk("index", "", 0, val, tb.constInt(n))
		} else {
			val = tb.field(val, p)
		}
	}
	return val, true
}

func (tb *TermBuilder) zeroOf(T types.Type) *Term {
	switch u := T.Underlying().(type) {
	case *types.Basic:
		switch {
		case u.Info()&types.IsInteger != 0:
			return tb.constInt(0)
		case u.Info()&types.IsBoolean != 0:
			return tb.mk("const", "bool:false", 0)
		case u.Info()&types.IsString != 0:
			return tb.constBytes("")
		}
	case *types.Struct:
		var names []string
		var args []*Term
		for i := 0; i < u.NumFields(); i++ {
			names = append(names, u.Field(i).Name())
			args = append(args, tb.zeroOf(u.Field(i).Type()))
		}
		return tb.mk("struct", types.TypeString(T, shortQual)+":"+strings.Join(names, ","), 0, args...)
	}
	return tb.nilTerm()
}

func instrIndex(ins ssa.Instruction) int {
	for i, x := range ins.Block().Instrs {
		if x == ins {
			return i
		}
	}
	return -1
}

func nearestDominatingStore(at ssa.Instruction, cands []*ssa.Store) *ssa.Store {
	set := map[ssa.Instruction]bool{}
	for _, c := range cands {
		set[c] = true
	}
	b := at.Block()
	idx := instrIndex(at)
	for b != nil {
		for i := idx - 1; i >= 0; i-- {
			if set[b.Instrs[i]] {
				return b.Instrs[i].(*ssa.Store)
			}
		}
		b = b.Idom()
		if b != nil {
			idx = len(b.Instrs)
		}
	}
	return nil
}

// reachesAvoidingAll: a path from just after `from` to `to` that executes no other store of the set.
func reachesAvoidingAll(from *ssa.Store, to ssa.Instruction, set []*ssa.Store) bool {
	avoid := map[ssa.Instruction]bool{}
	for _, s := range set {
		if s != from {
			avoid[s] = true
		}
	}
	type pos struct {
		b *ssa.BasicBlock
		i int
	}
	seen := map[*ssa.BasicBlock]bool{}
	work := []pos{{from.Block(), instrIndex(from) + 1}}
	for len(work) > 0 {
		p := work[len(work)-1]
		work = work[:len(work)-1]
		blocked := false
		for i := p.i; i < len(p.b.Instrs); i++ {
			ins := p.b.Instrs[i]
			if ins == to {
				return true
			}
			if avoid[ins] || ins == ssa.Instruction(from) {
				blocked = true
				break
			}
		}
		if blocked {
			continue
		}
		for _, s := range p.b.Succs {
			if !seen[s] {
				seen[s] = true
				work = append(work, pos{s, 0})
			}
		}
	}
	return false
}

// reachesAvoiding: is there a CFG path from just after `from` to `to` that
// does not execute `avoid`?
func reachesAvoiding(from ssa.Instruction, to ssa.Instruction, avoid ssa.Instruction) bool {
	type pos struct {
		b *ssa.BasicBlock
		i int
	}
	start := pos{from.Block(), instrIndex(from) + 1}
	seen := map[*ssa.BasicBlock]bool{}
	work := []pos{start}
	for len(work) > 0 {
		p := work[len(work)-1]
		work = work[:len(work)-1]
		blocked := false
		for i := p.i; i < len(p.b.Instrs); i++ {
			ins := p.b.Instrs[i]
			if ins == to {
				return true
			}
			if avoid != nil && ins == avoid {
				blocked = true
				break
			}
		}
		if blocked {
			continue
		}
		for _, s := range p.b.Succs {
			if !seen[s] {
				seen[s] = true
				work = append(work, pos{s, 0})
			}
		}
	}
	return false
}

// ---------- helpers over terms ----------

// Alts expands phi/ret instances into their alternatives (transitively, at
// the top of the term only).
func (tb *TermBuilder) Alts(t *Term) []*Term {
	var out []*Term
	seen := map[*Term]bool{}
	var rec func(t *Term, d int)
	rec = func(t *Term, d int) {
		if seen[t] {
			return
		}
		seen[t] = true
		if (t.Op == "phi" || t.Op == "ret") && d < 12 {
			if as, ok := tb.alts[t.Inst]; ok && len(as) > 0 {
				for _, a := range as {
					rec(a, d+1)
				}
				return
			}
		}
		out = append(out, t)
	}
	rec(t, 0)
	return out
}

// Subst replaces every occurrence of `from` in t by `to`.
func (tb *TermBuilder) Subst(t, from, to *Term) *Term {
	if t == from {
		return to
	}
	if len(t.Args) == 0 {
		return t
	}
	changed := false
	args := make([]*Term, len(t.Args))
	for i, a := range t.Args {
		args[i] = tb.Subst(a, from, to)
		if args[i] != a {
			changed = true
		}
	}
	if !changed {
		return t
	}
	return tb.mk(t.Op, t.Name, t.Inst, args...)
}

// walk visits all subterms.
func (t *Term) walk(f func(*Term) bool) {
	if t == nil || !f(t) {
		return
	}
	for _, a := range t.Args {
		a.walk(f)
	}
}

func (t *Term) contains(pred func(*Term) bool) bool {
	found := false
	t.walk(func(x *Term) bool {
		if found {
			return false
		}
		if pred(x) {
			found = true
			return false
		}
		return true
	})
	return found
}

// pretty: a shorter rendering for reports.
func (t *Term) pretty() string {
	if t == nil {
		return "?"
	}
	switch t.Op {
	case "param":
		return "Param(" + t.Name[strings.Index(t.Name, ":")+1:] + ")"
	case "const":
		if s, ok := t.BytesConst(); ok {
			return strconv.Quote(s)
		}
		return t.Name[strings.Index(t.Name, ":")+1:]
	case "cat":
		var ps []string
		for _, a := range t.Args {
			ps = append(ps, a.pretty())
		}
		return strings.Join(ps, "‖")
	case "field":
		return t.Args[0].pretty() + "." + t.Name
	case "call":
		var ps []string
		for _, a := range t.Args {
			ps = append(ps, a.pretty())
		}
		n := t.Name
		if i := strings.LastIndex(n, "/"); i >= 0 {
			n = n[i+1:]
		}
		return n + "(" + strings.Join(ps, ",") + ")"
	case "read":
		return fmt.Sprintf("Get#%d(%s)", t.Inst, t.Args[0].pretty())
	case "find":
		return fmt.Sprintf("Find#%d(%s)", t.Inst, t.Args[0].pretty())
	case "len":
		return "len(" + t.Args[0].pretty() + ")"
	case "varint":
		return "VarInt(" + t.Args[0].pretty() + ")"
	case "elem":
		return "Elem(" + t.Args[0].pretty() + ")"
	case "iterval":
		return "Value(" + t.Args[0].pretty() + ")"
	case "sum":
		var sb strings.Builder
		for i, a := range t.Args {
			if i > 0 || t.Name[i] == '-' {
				sb.WriteByte(t.Name[i])
			}
			sb.WriteString(a.pretty())
		}
		return "(" + sb.String() + ")"
	case "mul":
		var ps []string
		for _, a := range t.Args {
			ps = append(ps, a.pretty())
		}
		return strings.Join(ps, "*")
	case "bin":
		return "(" + t.Args[0].pretty() + t.Name + t.Args[1].pretty() + ")"
	case "slice":
		lo, hi := "", ""
		if t.Args[1].Op != "none" {
			lo = t.Args[1].pretty()
		}
		if t.Args[2].Op != "none" {
			hi = t.Args[2].pretty()
		}
		return t.Args[0].pretty() + "[" + lo + ":" + hi + "]"
	case "struct":
		names := strings.Split(t.Name[strings.Index(t.Name, ":")+1:], ",")
		var ps []string
		for i, a := range t.Args {
			if i < len(names) {
				ps = append(ps, names[i]+":"+a.pretty())
			}
		}
		return "{" + strings.Join(ps, ", ") + "}"
	case "phi", "ret":
		return fmt.Sprintf("%s#%d", t.Op, t.Inst)
	}
	var ps []string
	for _, a := range t.Args {
		ps = append(ps, a.pretty())
	}
	s := t.Op
	if t.Name != "" {
		s += "[" + t.Name + "]"
	}
	if t.Inst != 0 {
		s += fmt.Sprintf("#%d", t.Inst)
	}
	if len(ps) > 0 {
		s += "(" + strings.Join(ps, ",") + ")"
	}
	return s
}

// returnTerms: terms of the (single) result at every return of f, in the root context of tb.
func returnTerms(tb *TermBuilder, f *ssa.Function) []*Term {
	var out []*Term
	for _, b := range f.Blocks {
		if r, ok := b.Instrs[len(b.Instrs)-1].(*ssa.Return); ok && len(r.Results) == 1 {
			out = append(out, tb.Term(tb.root, r.Results[0]))
		}
	}
	return out
}

// isPureFn: the function (transitively) calls only pure primitives, builtins
// and in-memory VM opcodes: its result is a function of its arguments.
var pureFnCache = map[*ssa.Function]int{}

func isPureFn(fn *ssa.Function, depth int) bool {
	if v, ok := pureFnCache[fn]; ok {
		return v == 1
	}
	pureFnCache[fn] = 1 // optimistic for recursion
	res := true
	for _, b := range fn.Blocks {
		for _, ins := range b.Instrs {
			ci, ok := ins.(ssa.CallInstruction)
			if !ok {
				if _, isG := ins.(*ssa.Store); isG {
					if _, toGlobal := ins.(*ssa.Store).Addr.(*ssa.Global); toGlobal {
						res = false
					}
				}
				continue
			}
			if _, isB := ci.Common().Value.(*ssa.Builtin); isB {
				continue
			}
			c := ci.Common().StaticCallee()
			switch {
			case c == nil:
				res = false
			case inlinable(c):
				if depth > 12 || !isPureFn(c, depth+1) {
					res = false
				}
			default:
				n := fq(c)
				if !purePrims[n] && !strings.HasPrefix(n, "neogointernal.") && !strings.HasPrefix(n, "util.Remove") {
					res = false
				}
				switch n {
				case "runtime.CheckWitness", "runtime.GetTime", "native/ledger.CurrentIndex", "native/neo.GetCommittee", "native/roles.GetDesignatedByRole",
					"runtime.GetCallingScriptHash", "native/management.GetContract", "native/management.GetContractByID", "native/management.HasMethod":
					res = false // depends on the invocation context, keep these visible in terms
				}
			}
		}
	}
	if res {
		pureFnCache[fn] = 1
	} else {
		pureFnCache[fn] = 0
	}
	return res
}

// editedTerm: the term of byte-slice value v as seen at instruction `at`,
// taking into account in-place stores of single bytes at constant indexes
// (key[0] = 'r') that dominate `at`.
func (tb *TermBuilder) editedTerm(ctx *Ctx, v ssa.Value, at ssa.Instruction) *Term {
	t := tb.Term(ctx, v)
	rctx, rv := tb.resolveParam(ctx, v)
	if rctx != ctx {
		return t // edits in another frame are not tracked
	}
	rv = stripConv(rv)
	// append(base, x...): edits of the base made before the append carry over
	if c, ok := rv.(*ssa.Call); ok {
		if b, isB := c.Common().Value.(*ssa.Builtin); isB && b.Name() == "append" && len(c.Common().Args) == 2 && isByteSliceOrString(c.Common().Args[0].Type()) {
			base := tb.editedTerm(ctx, c.Common().Args[0], c)
			return tb.cat(base, tb.Term(ctx, c.Common().Args[1]))
		}
	}
	refs := rv.Referrers()
	if refs == nil {
		return t
	}
	for _, r := range *refs {
		ia, ok := r.(*ssa.IndexAddr)
		if !ok || ia.X != rv {
			continue
		}
		ic, isC := ia.Index.(*ssa.Const)
		if !isC || ia.Referrers() == nil {
			continue
		}
		idx, _ := constant.Int64Val(ic.Value)
		for _, r2 := range *ia.Referrers() {
			st, isSt := r2.(*ssa.Store)
			if !isSt || st.Addr != ia {
				continue
			}
			// the store must dominate the use
			dom := false
			if st.Block() == at.Block() {
				dom = instrIndex(st) < instrIndex(at)
			} else {
				dom = st.Block().Dominates(at.Block())
			}
			if !dom {
				continue
			}
			bv, isB := tb.Term(ctx, st.Val).IntConst()
			if !isB {
				continue
			}
			ps := keyParts(t)
			if len(ps) == 0 {
				continue
			}
			if lead, okc := ps[0].BytesConst(); okc && int(idx) < len(lead) {
				nb := []byte(lead)
				nb[idx] = byte(bv)
				t = tb.cat(append([]*Term{tb.constBytes(string(nb))}, ps[1:]...)...)
			}
		}
	}
	return t
}
