package main

// Driver: obligations, floors, known findings, evidence and replay files,
// exit status — uniform for all properties (DESIGN §7.1).

import (
	"crypto/sha1"
	"encoding/hex"
	"encoding/json"
	"fmt"
	"os"
	"path/filepath"
	"runtime/debug"
	"sort"
	"strings"
	"time"

	"golang.org/x/tools/go/ssa"
)

type Obligation struct {
	Rule    string   `json:"rule"`
	Key     string   `json:"key"`
	Outcome string   `json:"outcome"` // HOLDS | VIOLATED | UNDECIDED
	Detail  string   `json:"detail,omitempty"`
	Pos     string   `json:"pos,omitempty"`
	Witness []string `json:"witness,omitempty"`
}

type Finding struct {
	Property string `json:"property"`
	Rule     string `json:"rule"`
	Key      string `json:"key"`
	Status   string `json:"status"` // known | fixed
	Commit   string `json:"commit,omitempty"`
	What     string `json:"what"`
}

type CheckCtx struct {
	W       *World
	ID      string
	Tier    string
	Obls    []Obligation
	Counts  map[string]int
	Samples []any
	Notes   []string
	Self    []selfTestResult
	cache   map[string]*Analysis
	seen    map[string]bool
	located map[string]*ssa.Function
}

type Check struct {
	ID          string
	Level       string
	Technique   string
	Explanation string
	NotCovered  string
	Assumptions []string
	Run         func(cx *CheckCtx)
}

var checks = map[string]*Check{}

func register(c *Check) { checks[c.ID] = c }

func (cx *CheckCtx) add(rule, key, outcome, detail, pos string, witness ...string) {
	k := rule + "|" + key
	if cx.seen[k] {
		// keys must be unique: disambiguate by ordinal
		for i := 2; ; i++ {
			k2 := fmt.Sprintf("%s#%d", key, i)
			if !cx.seen[rule+"|"+k2] {
				key = k2
				k = rule + "|" + k2
				break
			}
		}
	}
	cx.seen[k] = true
	cx.Obls = append(cx.Obls, Obligation{Rule: rule, Key: key, Outcome: outcome, Detail: detail, Pos: pos, Witness: witness})
}

func (cx *CheckCtx) holds(rule, key, detail string) { cx.add(rule, key, "HOLDS", detail, "") }
func (cx *CheckCtx) violated(rule, key, detail, pos string, witness ...string) {
	cx.add(rule, key, "VIOLATED", detail, pos, witness...)
}
func (cx *CheckCtx) undecided(rule, key, detail, pos string) {
	cx.add(rule, key, "UNDECIDED", detail, pos)
}

// decide: HOLDS if ok else VIOLATED.
func (cx *CheckCtx) decide(ok bool, rule, key, okDetail, badDetail, pos string) {
	if ok {
		cx.holds(rule, key, okDetail)
	} else {
		cx.violated(rule, key, badDetail, pos)
	}
}

func (cx *CheckCtx) count(name string, n int) { cx.Counts[name] += n }

// floor: a rule that matches fewer instances than were confirmed by hand is
// not allowed to pass vacuously.
func (cx *CheckCtx) floor(name string, min int) {
	if cx.Counts[name] < min {
		cx.undecided("floor", name, fmt.Sprintf("only %d instances analysed, at least %d were confirmed by hand on the reference tree: an anchor of this rule has disappeared", cx.Counts[name], min), "")
	}
}

func (cx *CheckCtx) sample(v any) {
	if len(cx.Samples) < 12 {
		cx.Samples = append(cx.Samples, v)
	}
}

// analysis cache
func (cx *CheckCtx) analyze(q *Query) *Analysis {
	key := fmt.Sprintf("%p|%v|%s", q.Root, q.Consts, q.Name)
	if a, ok := cx.cache[key]; ok {
		return a
	}
	if q.WantCmp == nil {
		q.WantCmp = func(x, y *Term) bool { return true }
	}
	a := analyze(cx.W, q)
	cx.cache[key] = a
	cx.count("fmg_nodes", a.nodes)
	cx.count("dataflow_steps", a.steps)
	for _, n := range a.notes {
		cx.undecided("engine", fq(q.Root)+"/"+n, "the analysis of "+fq(q.Root)+" is incomplete: "+n, "")
	}
	return a
}

func verifDir() string {
	if d := os.Getenv("NFS_VERIF"); d != "" {
		return d
	}
	return "/verif"
}

func loadFindings() []Finding {
	var f struct {
		Findings []Finding `json:"findings"`
	}
	b, err := os.ReadFile(filepath.Join(verifDir(), "known_findings.json"))
	if err != nil {
		return nil
	}
	json.Unmarshal(b, &f)
	return f.Findings
}

func keyHash(s string) string {
	h := sha1.Sum([]byte(s))
	return hex.EncodeToString(h[:6])
}

// runCheck runs one property and returns the process exit status.
func runCheck(id, tier string, w *World, loadErr error, t0 time.Time) int {
	c := checks[id]
	if c == nil {
		fmt.Fprintln(os.Stderr, "no check registered for", id)
		return 2
	}
	cx := &CheckCtx{W: w, ID: id, Tier: tier, Counts: map[string]int{}, cache: map[string]*Analysis{}, seen: map[string]bool{}}
	if loadErr != nil {
		cx.undecided("load", "packages", "the working tree could not be loaded: "+loadErr.Error(), "")
	} else {
		for _, e := range w.LoadErrs {
			cx.undecided("load", "typecheck/"+keyHash(e), "type-check error in the working tree: "+e, "")
		}
		func() {
			defer func() {
				if r := recover(); r != nil {
					if os.Getenv("NFS_TRACE") != "" {
						fmt.Fprintf(os.Stderr, "%s\n", debug.Stack())
					}
					cx.undecided("engine", "panic", fmt.Sprintf("analyser panic: %v", r), "")
				}
			}()
			c.Run(cx)
			// the failure model every rule stands on ("a refused operation faults, a faulted invocation persists
			// nothing") is itself decided, for the contracts the property speaks about: no catching frame outside
			// the who-may-catch table; payment refusals abort
			if scope, ok := catchScope[c.ID]; ok {
				checkCatchingFrames(cx, scope...)
			}
			if c.ID == "C19" || c.ID == "C03" {
				checkAbortNotThrow(cx)
			}
			if tier == "thorough" {
				noDynamicCalls(cx)
			}
		}()
		if tier == "thorough" {
			cx.Self = selfTest(cx)
			for _, r := range cx.Self {
				fmt.Printf("selftest %s: expected %s, %s %v %s\n", r.Seed, r.Expected, r.Outcome, r.Rules, r.Note)
			}
		}
	}
	return finish(c, cx, t0)
}

func finish(c *Check, cx *CheckCtx, t0 time.Time) int {
	findings := loadFindings()
	known := map[string]Finding{}
	for _, f := range findings {
		if f.Property == c.ID && f.Status == "known" {
			known[f.Rule+"|"+f.Key] = f
		}
	}
	sort.SliceStable(cx.Obls, func(i, j int) bool {
		if cx.Obls[i].Rule != cx.Obls[j].Rule {
			return cx.Obls[i].Rule < cx.Obls[j].Rule
		}
		return cx.Obls[i].Key < cx.Obls[j].Key
	})
	evDir := filepath.Join(verifDir(), "evidence")
	os.MkdirAll(filepath.Join(evDir, "replay"), 0o755)
	var nViol, nKnown, nHold int
	var knownLines []string
	exit := 0
	for _, o := range cx.Obls {
		switch o.Outcome {
		case "HOLDS":
			nHold++
		default:
			if f, ok := known[o.Rule+"|"+o.Key]; ok && o.Outcome == "VIOLATED" {
				nKnown++
				line := fmt.Sprintf("KNOWN-FINDING: property=%s %s [%s %s]", c.ID, f.What, o.Rule, o.Key)
				fmt.Println(line)
				knownLines = append(knownLines, line)
				continue
			}
			nViol++
			exit = 1
			rp := filepath.Join(evDir, "replay", fmt.Sprintf("%s-%s.json", c.ID, keyHash(o.Rule+"|"+o.Key)))
			rb, _ := json.MarshalIndent(map[string]any{"property": c.ID, "rule": o.Rule, "key": o.Key, "outcome": o.Outcome,
				"detail": o.Detail, "pos": o.Pos, "witness": o.Witness}, "", " ")
			os.WriteFile(rp, rb, 0o644)
			fmt.Printf("%s rule=%s construct=%s\n    %s\n", o.Outcome, o.Rule, o.Key, o.Detail)
			if o.Pos != "" {
				fmt.Printf("    at %s\n", o.Pos)
			}
			for _, wl := range o.Witness {
				fmt.Printf("      %s\n", wl)
			}
			fmt.Printf("VIOLATION property=%s replay=%s\n", c.ID, rp)
		}
	}
	// evidence
	byRule := map[string]int{}
	for _, o := range cx.Obls {
		byRule[o.Rule]++
	}
	var samples []any
	samples = append(samples, cx.Samples...)
	for _, o := range cx.Obls {
		if len(samples) >= 16 {
			break
		}
		if o.Outcome == "HOLDS" {
			samples = append(samples, map[string]string{"rule": o.Rule, "construct": o.Key, "outcome": o.Outcome, "detail": o.Detail})
		}
	}
	if len(samples) == 0 {
		samples = append(samples, "no obligation was generated")
	}
	expl := c.Explanation
	if c.NotCovered != "" {
		expl += " NOT COVERED by this check: " + c.NotCovered
	}
	cov := map[string]any{
		"explanation":         expl,
		"obligations":         len(cx.Obls),
		"discharged":          nHold,
		"known_findings":      nKnown,
		"obligations_by_rule": byRule,
		"counts":              cx.Counts,
		"samples":             samples,
		"checker_cmd":         "bin/nfsverif check " + c.ID + " --tier " + cx.Tier,
		"trusted_base": []string{
			"go/types + go/ssa of golang.org/x/tools v0.29.0 (program representation)",
			"the neo-go compiler maps the Go subset to NeoVM code faithfully (C15 checks the shipped artifacts against it)",
			"NeoVM failure model: an uncaught exception or ABORT faults the transaction and a faulted transaction persists nothing",
			"the closed table of interop primitives classified as pure / read / effect (flow.go, term.go)",
			"the oracle tables of DESIGN.md Appendices A–C (what each method is documented to require)",
		},
		"evaluations":         len(cx.Obls),
		"distinct_nontrivial": len(cx.Obls),
		"rule":                "one obligation per (rule, construct) found in the working tree; every one is distinct by key and non-trivial in that it is decided from the code, not assumed",
	}
	if cx.Tier == "thorough" {
		cov["selftest"] = cx.Self
		cov["selftest_note"] = "seeded changes of this property applied to scratch copies of the working tree; informational, never changes the exit status"
	}
	if c.Level == "translation_validation" {
		cov["programs"] = cx.Counts["programs"]
		cov["disagreements_checked"] = cx.Counts["artifacts_compared"]
	}
	ev := map[string]any{
		"property_id": c.ID,
		"tier":        cx.Tier,
		"seed":        0,
		"level":       c.Level,
		"coverage":    cov,
		"assumptions": append([]string{"static analysis only: no contract, VM, test or solver is executed by this check"}, c.Assumptions...),
		"wall_s":      time.Since(t0).Seconds(),
		"violations":  nViol,
	}
	if len(knownLines) > 0 {
		ev["known_findings"] = knownLines
	}
	eb, _ := json.MarshalIndent(ev, "", " ")
	os.WriteFile(filepath.Join(evDir, c.ID+".json"), eb, 0o644)
	var rules []string
	for r, n := range byRule {
		rules = append(rules, fmt.Sprintf("%s=%d", r, n))
	}
	sort.Strings(rules)
	fmt.Printf("%s tier=%s obligations=%d holds=%d known=%d violations=%d wall=%.1fs [%s]\n", c.ID, cx.Tier, len(cx.Obls), nHold, nKnown, nViol, time.Since(t0).Seconds(), strings.Join(rules, " "))
	return exit
}

var allContracts = []string{"alphabet", "audit", "balance", "container", "neofs", "neofsid", "netmap", "nns", "processing", "proxy", "reputation"}

// catchScope: the contracts whose catching frames are checked under each property.
var catchScope = map[string][]string{
	"C01": {"balance"}, "C02": {"balance"}, "C03": allContracts, "C04": {"container"}, "C05": {"container", "balance"},
	"C06": {"netmap"}, "C07": {"netmap"}, "C08": {"netmap"}, "C09": {"balance", "netmap"}, "C10": {"nns"}, "C11": {"nns"},
	"C12": {"nns"}, "C14": {"container"}, "C16": allContracts, "C17": {"neofs"}, "C18": {"nns"},
	"C19": {"neofs", "alphabet", "proxy", "processing"}, "C20": {"container", "netmap", "reputation", "audit", "neofsid"},
}
