package main

// C01, C02, C09 — the Balance contract (DESIGN §5).

import (
	"fmt"
	"go/constant"
	"go/token"
	"go/types"
	"sort"
	"strings"

	"golang.org/x/tools/go/ssa"
)

// balTransferFn: the fq name of the one helper that moves tokens (it emits the
// Transfer event itself); located structurally by balanceTransferFn.
var balTransferFn = "contracts/balance.Token.transfer"

func balanceTransferFn(cx *CheckCtx) *ssa.Function {
	// the transfer helper: the function every mutating entry point calls directly on its way to
	// the Transfer event (the event itself may be emitted by a helper of that helper)
	var f *ssa.Function
	agree := true
	for _, name := range balanceMutators {
		c := cx.W.Contracts["balance"]
		if c == nil {
			break
		}
		m := c.Method(name)
		if m == nil {
			continue
		}
		a := cx.run(m)
		for _, s := range a.Sites(func(s *Site) bool { return notifyName(s) == "Transfer" }) {
			k := s.Ctx
			for k != nil && k.parent != nil && k.parent.parent != nil {
				k = k.parent
			}
			if k == nil || k.parent == nil {
				agree = false // emitted by the entry point itself
				continue
			}
			if f == nil {
				f = k.fn
			} else if f != k.fn {
				agree = false
			}
		}
	}
	if f == nil || !agree {
		f = cx.locate("contracts/balance", "Token.transfer", "emits the Transfer event", func(f *ssa.Function) bool { return notifiesDirect(f, "Transfer") })
	}
	if f != nil {
		balTransferFn = fq(f)
	}
	return f
}

// fnParam: the i-th parameter of a helper analysed as a root.
func fnParam(tb *TermBuilder, fn *ssa.Function, i int) *Term {
	if i < len(fn.Params) {
		return tb.mk("param", fmt.Sprintf("%d:%s", i, fn.Params[i].Name()), 0)
	}
	return tb.mk("param", fmt.Sprintf("%d:?", i), 0)
}

func init() {
	register(&Check{
		ID:        "C01",
		Level:     "other",
		Technique: "abstract interpretation (must-facts at every store/notify site of the inlined graphs) + term agreement between the debit leg, the credit leg, the supply update and the notifications; who-may-write over the storage key families",
		Explanation: "Decides the step obligations of the inductive argument for supply = Σ balances ∧ no negative balance, for all inputs and all paths: D1 family 'a' is written only inside Token.transfer, by Lock (Balance constant 0) and by the migration, the supply key only by Mint/Burn. " +
			"D2 in every caller of Token.transfer the stored debit value is loaded(from).Balance − amount (or a Delete under Balance == amount), the stored credit is loaded(to).Balance + amount with the same amount term, other fields carried over; Mint adds exactly that amount to the supply with from = nil, Burn subtracts it with to = nil under supply ≥ amount; the public transfer establishes len(from)=len(to)=20 before any effect. " +
			"D3 the credit record is loaded after the debit store on every path (self-transfer safety). D4 amount ≥ 0 and loaded(from).Balance ≥ amount hold at the stores. D5 every effect of Token.transfer implies its result is true (refusal is inert). D6 exactly one Transfer and one TransferX notification on result-true paths, none otherwise, arguments are the from/to/amount/details terms of the legs, no other emitter. M (mutation sweep): a successful transfer has executed both legs for 20-byte addresses and only for those (legs-executed); Mint/Burn write the supply on every return; the loaders getAccount/getSupply return the stored value exactly when present. R8: no package-level struct variable is returned or copied into a written local (a struct is a VM reference under neo-go: a shared zero value accumulates credits within an invocation). R10: the upgrade rules of the Balance contract (C16) and the stored layout of Account/Token are decided here as well. R13 catching-frame: no function with a deferred recover that a method of the property's contracts can reach lies outside the who-may-catch table (container.deleteNNSRecords).",
		NotCovered:  "the invariant over histories is an inductive argument from D1–D6 under VM atomicity and non-wrapping VM integers; it is not executed or model-checked. Alphabet-only methods are assumed to receive 20-byte addresses and fresh lock targets (the property's own quantifier).",
		Assumptions: []string{"VM integers fault instead of wrapping", "a balance stored earlier is non-negative (the induction hypothesis) when NewEpoch refunds the whole balance of a lock account"},
		Run:         func(cx *CheckCtx) { runBalance(cx, "C01") },
	})
	register(&Check{
		ID:        "C02",
		Level:     "other",
		Technique: "abstract interpretation: at every site that can lower a balance, entailment of (not executed ∨ witness of that account ∨ caller is that account ∨ Alphabet multisignature); sign guard on the credit leg; refusal inertness",
		Explanation: "D1 for every store/delete of an account record in every Balance method, with x the account term that keys the record: the facts at every normal exit entail ¬executed ∨ W(x) ∨ CallerIs(x) ∨ Alpha23; a credit (stored Balance = loaded + amount) is exempt only where amount ≥ 0 is established at the store. " +
			"D2 the public transfer has no effect on any path on which it returns false. R9: a refusal is reported, not a fault: runtime.CheckWitness is asked about a caller-supplied address only with its length (20) established. R10: the upgrade rules of the Balance contract (C16) are decided here as well: an upgrade must not lose or zero balances. R13 catching-frame: no function with a deferred recover that a method of the property's contracts can reach lies outside the who-may-catch table (container.deleteNNSRecords).",
		NotCovered:  "correlation with run-time signer sets inside one transaction (the proof is over program paths); _deploy migration writes are gated by C16.",
		Assumptions: []string{"lock targets are fresh addresses (the property's quantifier)"},
		Run:         func(cx *CheckCtx) { runBalance(cx, "C02") },
	})
	register(&Check{
		ID:        "C09",
		Level:     "other",
		Technique: "abstract interpretation + term agreement: facts at the refund call site of NewEpoch, argument terms of the refund, lock record literal, ordering of the lock record write before the transfer, subscription on fresh deploy",
		Explanation: "D1 Lock writes {Balance:0, Until:Param(until), Parent:Param(from)} at the key of the lock account before the transfer is attempted and the credit leg preserves Until/Parent. " +
			"D2 in NewEpoch the refund transfer is called only under Until ≠ 0 ∧ epochNum ≥ Until, with from = the scanned account key, to = Parent and amount = Balance of the record loaded from that same key; no store to an account record lies between that load and the re-read by the debit leg within one iteration, so the debit leg takes the Balance == amount branch and deletes the record (no second unlock); a partial burn keeps Until/Parent (C01.D2). " +
			"D3 the fresh-deploy path of balance._deploy subscribes to the Netmap tick. D4 an iteration of the tick goes round the refund only with len(key) ≠ 20 ∨ Until = 0 ∨ epochNum < Until and the scan ends only on exhaustion; D5 a successful transfer of the whole loaded balance deletes the record for every amount, 0 included. R8: the loader rules of C01 (stored value exactly when present, fresh zero value otherwise, no shared package-level struct handed out) are decided here as well. R10: the stored layout of the Account record (field order and types as in storage) and the upgrade rules of Balance are decided here as well. R11: every tick that returns normally has scanned the accounts (scan-always; a way round that depends on a stored key nobody in the contract writes is not a way). R13 catching-frame: no function with a deferred recover that a method of the property's contracts can reach lies outside the who-may-catch table (container.deleteNNSRecords).",
		NotCovered:  "that all locks expiring at one tick are released by that tick depends on the VM iterator semantics while the scanned family is mutated (trusted: Find takes a snapshot at call time); timing over tick schedules.",
		Assumptions: []string{"storage.Find enumerates a snapshot taken when it is called (neo-go MemCachedStore)"},
		Run:         runC09,
	})
}

var balanceMutators = []string{"Transfer", "TransferX", "Lock", "Mint", "Burn", "NewEpoch"}

type transferCall struct {
	a                      *Analysis
	m                      *Method
	call                   *Site
	frame                  *Ctx
	from, to, amt, details *Term
	debitPut, debitDel     *Site
	creditPut              *Site
	nTransfer, nTransferX  *Site
	other                  []*Site
	fromIsNil, toIsNil     bool
}

// findTransferCalls locates every inlined call of Token.transfer in m and
// sorts the effect sites of its frame into legs.
func findTransferCalls(cx *CheckCtx, m *Method) []*transferCall {
	a := cx.run(m)
	var out []*transferCall
	for _, s := range a.Sites(func(s *Site) bool { return s.Inlined && s.Callee == balTransferFn }) {
		if len(s.Args) < 7 {
			continue
		}
		tc := &transferCall{a: a, m: m, call: s, from: s.Args[2], to: s.Args[3], amt: s.Args[4], details: s.Args[6]}
		tc.frame = s.Ctx.kids[s.Instr]
		sortTransferEffects(tc)
		out = append(out, tc)
	}
	return out
}

// sortTransferEffects sorts the effect sites of the transfer frame into legs.
func sortTransferEffects(tc *transferCall) {
	a := tc.a
	tc.fromIsNil = tc.from.IsNil()
	tc.toIsNil = tc.to.IsNil()
	for _, e := range a.Effects() {
		if tc.frame == nil || !e.Ctx.isDescOrSelf(tc.frame) {
			continue
		}
		switch {
		case e.Effect == "delete" && keyFamily(e.Args[1]) == "a" && keyRest(a.tb, e.Args[1]) == tc.from && tc.debitDel == nil:
			tc.debitDel = e
		case e.Effect == "put" && keyFamily(e.Args[1]) == "a" && keyRest(a.tb, e.Args[1]) == tc.from && isDebitValue(a, e) && tc.debitPut == nil:
			tc.debitPut = e
		case e.Effect == "put" && keyFamily(e.Args[1]) == "a" && keyRest(a.tb, e.Args[1]) == tc.to && tc.creditPut == nil:
			tc.creditPut = e
		case notifyName(e) == "Transfer" && tc.nTransfer == nil:
			tc.nTransfer = e
		case notifyName(e) == "TransferX" && tc.nTransferX == nil:
			tc.nTransferX = e
		default:
			tc.other = append(tc.other, e)
		}
	}
}

// isDebitValue: the stored Balance is a difference.
func isDebitValue(a *Analysis, e *Site) bool {
	v := unserialize(a.canonAt(e, e.Args[2]))
	b := a.tb.field(v, "Balance")
	return b.Op == "sum" && strings.Contains(b.Name, "-")
}

// unitFacts: unit literals of st with both sides canonicalised.
type ufact struct {
	kind LitKind
	pos  bool
	A, B *Term
	C    int64
}

func (a *Analysis) unitFacts(st *CNF) []ufact {
	var out []ufact
	if st == nil {
		return out
	}
	for _, u := range st.units() {
		l, pos := a.lt.get(u)
		f := ufact{kind: l.Kind, pos: pos, C: l.C}
		if l.A != nil {
			f.A = a.Canon(st, l.A)
		}
		if l.B != nil {
			f.B = a.Canon(st, l.B)
		}
		out = append(out, f)
	}
	return out
}

// unitFactsRaw: unit literals as they are (no rewriting by equalities).
func (a *Analysis) unitFactsRaw(st *CNF) []ufact {
	var out []ufact
	if st == nil {
		return out
	}
	for _, u := range st.units() {
		l, pos := a.lt.get(u)
		out = append(out, ufact{kind: l.Kind, pos: pos, A: l.A, B: l.B, C: l.C})
	}
	return out
}

// eqClass: t and every term the unit equalities of st identify with it.
func (a *Analysis) eqClass(st *CNF, t *Term) []*Term {
	out := []*Term{t}
	seen := map[*Term]bool{t: true}
	for changed := true; changed; {
		changed = false
		for _, f := range a.unitFactsRaw(st) {
			if f.kind != KEq || !f.pos {
				continue
			}
			for _, pr := range [][2]*Term{{f.A, f.B}, {f.B, f.A}} {
				if seen[pr[0]] && !seen[pr[1]] {
					seen[pr[1]] = true
					out = append(out, pr[1])
					changed = true
				}
			}
		}
	}
	return out
}

// factGE: st establishes x >= y (terms).
func (a *Analysis) factGE(st *CNF, x, y *Term) bool {
	x, y = a.Canon(st, x), a.Canon(st, y)
	if c, ok := y.IntConst(); ok {
		return a.holdsAt(st, -a.litLtC(x, c))
	}
	for _, f := range a.unitFacts(st) {
		if f.kind == KLt && !f.pos && f.A == x && f.B == y { // ¬(x < y)
			return true
		}
		if f.kind == KEq && f.pos && ((f.A == x && f.B == y) || (f.A == y && f.B == x)) {
			return true
		}
	}
	return false
}

func (a *Analysis) factEq(st *CNF, x, y *Term) bool {
	x, y = a.Canon(st, x), a.Canon(st, y)
	if x == y {
		return true
	}
	for _, f := range a.unitFacts(st) {
		if f.kind == KEq && f.pos && ((f.A == x && f.B == y) || (f.A == y && f.B == x)) {
			return true
		}
	}
	return false
}

func (a *Analysis) factNE0(st *CNF, x *Term) bool {
	x = a.Canon(st, x)
	for _, f := range a.unitFacts(st) {
		if f.kind == KEqC && !f.pos && f.A == x && f.C == 0 {
			return true
		}
		if f.kind == KLtC && !f.pos && f.A == x && f.C >= 1 {
			return true
		}
	}
	return false
}

// amountNonNeg: amount ≥ 0 is a fact at st, or amount is the Balance field of
// a stored account record (non-negative by the induction hypothesis).
func amountNonNeg(a *Analysis, st *CNF, amt *Term) (bool, string) {
	c := a.Canon(st, amt)
	if n, ok := c.IntConst(); ok && n >= 0 {
		return true, "constant"
	}
	if a.holdsAt(st, -a.litLtC(c, 0)) || a.holdsAt(st, -a.litLtC(amt, 0)) {
		return true, "guarded: amount ≥ 0 established on every path to the store"
	}
	if c.Op == "field" && c.Name == "Balance" {
		if k, ok := recordOf(a.tb, c.Args[0]); ok && keyFamily(k) == "a" {
			return true, "amount is the Balance of a stored account record"
		}
	}
	return false, ""
}

func runBalance(cx *CheckCtx, prop string) {
	w := cx.W
	// the balances an upgrade finds are the balances it leaves: the upgrade rules of the Balance contract
	// (C16) are decided here as well — the statements are about every account, also the ones written by
	// the previous release
	if version, ok1 := commonConst(cx, "Version"); ok1 {
		if prev, ok2 := commonConst(cx, "PrevVersion"); ok2 {
			checkUpgradeOf(cx, "balance", version, prev)
		}
	}
	c := cx.contract("balance")
	if c == nil {
		return
	}
	tfn := balanceTransferFn(cx)
	if tfn == nil {
		return
	}
	nCalls := 0
	// the legs are decided once, on Token.transfer itself as the root: they then hold for every caller
	if prop == "C01" {
		balanceLegs(cx)
		checkSupplyWritten(cx)
	}
	for _, name := range balanceMutators {
		m := cx.method("balance", name)
		if m == nil {
			continue
		}
		a := cx.run(m)
		tcs := findTransferCalls(cx, m)
		if len(tcs) == 0 {
			cx.undecided("anchor", "balance."+name+"/Token.transfer", name+" no longer calls Token.transfer: the balance rules are anchored on it", w.pos(m.Fn.Pos()))
			continue
		}
		for _, tc := range tcs {
			nCalls++
			key := "balance." + name + ">transfer"
			if prop == "C01" {
				// what the caller hands to the transfer
				switch name {
				case "Transfer", "TransferX":
					tb := a.tb
					ok := tc.from == paramTerm(tb, m, "from") && tc.to == paramTerm(tb, m, "to") && tc.amt == paramTerm(tb, m, "amount")
					cx.decide(ok, "caller-binding", key, "passes its from/to/amount unchanged", name+" calls transfer("+tc.from.pretty()+", "+tc.to.pretty()+", "+tc.amt.pretty()+") instead of its own from/to/amount", tc.call.Where(w))
				}
				// (TransferX is left to C05: that a refused transferX faults is one of the two ways the container
				// fee is atomic; for the balance invariants a refusal that returns quietly changes nothing)
				if name != "NewEpoch" && name != "Transfer" && name != "TransferX" {
					// Alphabet methods reach a normal exit only with a successful transfer
					okx := true
					for _, ex := range a.Exits() {
						if !a.holdsAt(ex.State, a.litB(tc.call.Val)) {
							okx = false
						}
					}
					if _, isC := tc.call.Val.BoolConst(); isC {
						okx = true
					}
					cx.decide(okx, "refusal-faults", key, name+" reaches a normal exit only if the transfer returned true", name+" can complete normally although the transfer was refused: a partial operation (lock record, supply change, vote) persists", tc.call.Where(w))
				}
				if name == "Transfer" && tc.nTransfer != nil {
					st := tc.nTransfer.In
					ok := a.holdsAt(st, a.litEqC(a.litLen(tc.from), 20)) && a.holdsAt(st, a.litEqC(a.litLen(tc.to), 20))
					cx.decide(ok, "both-legs", key, "len(from) = len(to) = 20 established before the notification", "the public transfer can announce a transfer while one leg was skipped (address length not checked): the announced balances diverge from the stored ones", tc.nTransfer.Where(w))
				}
				cx.sample(map[string]string{"caller": m.String(), "from": tc.from.pretty(), "to": tc.to.pretty(), "amount": tc.amt.pretty(), "call": tc.call.Where(w)})
			}
			if prop == "C02" && name == "Transfer" {
				// D2: refusal inert
				ret := tc.call.Val
				bad := ""
				for _, e := range a.Effects() {
					if ok, _ := gated(a, e, []int32{a.litB(ret)}); !ok {
						bad = siteDesc(a, e)
					}
				}
				cx.decide(bad == "", "refusal-inert", key, "every effect implies the result true", "the public transfer can return false after "+bad, w.pos(m.Fn.Pos()))
				// … and a refusal is *reported* (false), not a fault: System.Runtime.CheckWitness throws for an
				// argument that is neither a 20-byte hash nor a 33-byte key, so a caller-supplied address reaches
				// it only with its length established
				okW, nW := true, 0
				for _, s := range a.Sites(func(s *Site) bool { return s.Callee == "runtime.CheckWitness" }) {
					arg := s.Args[0]
					if !arg.contains(func(x *Term) bool { return x == tc.from || x == tc.to }) {
						continue
					}
					nW++
					if !a.holdsAt(s.In, a.litEqC(a.litLen(arg), 20)) && !a.holdsAt(s.In, a.litEqC(a.litLen(arg), 33)) {
						okW = false
					}
				}
				cx.decide(okW && nW > 0, "refusal-inert", key+"/reported", "the witness of a caller-supplied address is asked for only with its length established (20)", "the public transfer asks runtime.CheckWitness about a caller-supplied address of unchecked length: for a malformed address the VM throws, the invocation faults instead of reporting false", w.pos(m.Fn.Pos()))
			}
		}
	}
	cx.count("transfer_call_sites", nCalls)
	cx.floor("transfer_call_sites", 6)

	// who-may-write / per-site authorisation over every method (and _deploy for D1)
	var roots []*Method
	for _, m := range c.Methods {
		roots = append(roots, m)
	}
	nStores := 0
	for _, m := range roots {
		a := cx.run(m)
		for _, s := range a.Effects() {
			if !isStore(s) {
				if prop == "C01" && (notifyName(s) == "Transfer" || notifyName(s) == "TransferX") {
					cx.decide(inFrame(s, balTransferFn), "single-emitter", "balance."+m.GoName+"/"+siteConstruct(a, s), "emitted by Token.transfer", notifyName(s)+" is emitted outside Token.transfer: replaying the notification stream no longer reproduces the balances", s.Where(w))
				}
				continue
			}
			fam := keyFamily(s.Args[1])
			skey := "balance." + m.GoName + "/" + siteConstruct(a, s)
			switch fam {
			case "a":
				nStores++
				if prop == "C01" {
					ok := inFrame(s, balTransferFn)
					why := "inside Token.transfer"
					if !ok && m.GoName == "Lock" && s.Effect == "put" {
						v := unserialize(a.canonAt(s, s.Args[2]))
						if b, isC := a.tb.field(v, "Balance").IntConst(); isC && b == 0 {
							ok, why = true, "Lock creates the lock record with Balance 0"
						}
					}
					cx.decide(ok, "single-writer", skey, why, "an account record is written outside Token.transfer (and is not Lock's zero-balance record): the conservation argument does not cover this write", s.Where(w))
				}
				if prop == "C02" {
					x := keyRest(a.tb, s.Args[1])
					lits := witnessLits(a, []string{"A23"})
					lits = append(lits, a.litW(x), a.lt.id(Lit{Kind: KCaller, A: x}))
					ok, ex := gated(a, s, lits)
					why := "gated by W(" + x.pretty() + ") ∨ CallerIs ∨ Alpha23"
					if !ok && s.Effect == "put" {
						// credit with amount ≥ 0
						v := unserialize(a.canonAt(s, s.Args[2]))
						b := a.tb.field(v, "Balance")
						if b.Op == "sum" && !strings.Contains(b.Name, "-") && len(b.Args) == 2 {
							var amt *Term
							for _, arg := range b.Args {
								if !(arg.Op == "field" && arg.Name == "Balance") {
									amt = arg
								}
							}
							if amt == nil { // Balance + Balance (NewEpoch refund)
								amt = b.Args[0]
							}
							if nn, how := amountNonNeg(a, s.In, amt); nn {
								ok, why = true, "credit of a non-negative amount ("+how+")"
							}
						}
					}
					detail := ""
					if !ok {
						detail = fmt.Sprintf("%s can lower the balance of %s without that account's witness, the calling contract being it, or the Alphabet multisignature", siteDesc(a, s), x.pretty())
						if ex != nil {
							detail += " (path to the exit at " + exitPos(w, ex) + ")"
						}
					}
					cx.decide(ok, "debit-authorised", skey, why, detail, s.Where(w))
				}
			case "MainnetGAS":
				if prop == "C01" {
					ok := rootFrame(s) && (m.GoName == "Mint" || m.GoName == "Burn")
					cx.decide(ok, "single-writer", skey, "supply written by "+m.GoName, "the supply counter is written outside Mint/Burn", s.Where(w))
					if ok {
						checkSupply(cx, a, m, s, skey)
					}
				}
			default:
				if prop == "C01" {
					// a key with another leading constant is neither an account record nor the supply: bookkeeping
					// of its own, nothing the invariant speaks about; a key without a leading constant could be either
					cx.decide(keyFamily(s.Args[1]) != "", "single-writer", skey, "a key of another family ("+keyFamily(s.Args[1])+"): neither an account record nor the supply", "Balance method writes a key without a constant family prefix, "+s.Args[1].pretty()+": it cannot be told apart from an account record or the supply", s.Where(w))
				}
			}
		}
	}
	cx.count("account_store_sites", nStores)
	cx.floor("account_store_sites", 10)
	if prop == "C01" {
		// migration: only moves (checked in C16); here: it never touches the supply key
		for _, upd := range []bool{true, false} {
			dm := cx.method("balance", "_deploy")
			if dm == nil {
				break
			}
			a := cx.runWith(dm, map[int]constant.Value{1: constant.MakeBool(upd)}, fmt.Sprint("upd=", upd))
			for _, s := range a.Effects() {
				if isStore(s) && keyFamily(s.Args[1]) == "MainnetGAS" {
					cx.violated("single-writer", "balance._deploy/"+siteConstruct(a, s), "_deploy writes the supply counter", s.Where(w))
				}
			}
		}
	}
}

// checkSupplyWritten: Mint and Burn cannot return normally without having
// written the supply counter (the step itself is checked at the site).
func checkSupplyWritten(cx *CheckCtx) {
	for _, name := range []string{"Mint", "Burn"} {
		m := cx.method("balance", name)
		if m == nil {
			continue
		}
		a := cx.run(m)
		var put *Site
		for _, s := range a.RealEffects() {
			if s.Effect == "put" && keyFamily(s.Args[1]) == "MainnetGAS" {
				put = s
			}
		}
		ok := put != nil && executedAtEveryExit(a, put)
		where := cx.W.pos(m.Fn.Pos())
		if put != nil {
			where = put.Where(cx.W)
		}
		cx.decide(ok, "supply-step", "balance."+name+"/written", "every normal return has written the supply counter", name+" can return normally without writing the supply counter: Σ balances changes, the supply does not", where)
	}
}

func checkSupply(cx *CheckCtx, a *Analysis, m *Method, s *Site, skey string) {
	w := cx.W
	tcs := findTransferCalls(cx, m)
	if len(tcs) != 1 {
		cx.undecided("supply-step", skey, "expected exactly one Token.transfer call in "+m.GoName, s.Where(w))
		return
	}
	tc := tcs[0]
	v := a.canonAt(s, s.Args[2])
	// supply term: alternatives are the stored counter or 0
	isSupply := func(t *Term) bool {
		for _, alt := range a.tb.Alts(t) {
			if n, ok := alt.IntConst(); ok && n == 0 {
				continue
			}
			if alt.Op == "read" && keyFamily(alt.Args[0]) == "MainnetGAS" {
				continue
			}
			return false
		}
		return true
	}
	var sup *Term
	if v.Op == "sum" && len(v.Args) == 2 {
		for _, arg := range v.Args {
			if isSupply(arg) {
				sup = arg
			}
		}
	}
	if sup == nil {
		cx.violated("supply-step", skey, "the stored supply "+v.pretty()+" is not (stored supply ± amount)", s.Where(w))
		return
	}
	if m.GoName == "Mint" {
		want := a.tb.binop(token.ADD, sup, tc.amt, intType)
		cx.decide(v == want && tc.fromIsNil, "supply-step", skey, "supply + amount with the amount credited by the transfer from nil",
			fmt.Sprintf("Mint stores %s as the new supply while the transfer credits %s (from = %s): supply and Σ balances diverge", v.pretty(), tc.amt.pretty(), tc.from.pretty()), s.Where(w))
	} else {
		want := a.tb.binop(token.SUB, sup, tc.amt, intType)
		okv := v == want && tc.toIsNil
		okg := a.factGE(s.In, sup, tc.amt)
		cx.decide(okv, "supply-step", skey, "supply − amount with the amount debited by the transfer to nil",
			fmt.Sprintf("Burn stores %s as the new supply while the transfer debits %s (to = %s)", v.pretty(), tc.amt.pretty(), tc.to.pretty()), s.Where(w))
		cx.decide(okg, "supply-guard", skey, "supply ≥ amount established before the store", "Burn stores supply − amount without establishing supply ≥ amount: the supply can become negative", s.Where(w))
	}
	// the supply changes only when the transfer succeeded
	ok, _ := gated(a, s, []int32{a.litB(tc.call.Val)})
	if _, isC := tc.call.Val.BoolConst(); isC {
		ok = true
	}
	cx.decide(ok, "supply-after-transfer", skey, "the supply is written only if the transfer returned true", "the supply is written on a path where the transfer was refused", s.Where(w))
}

func checkTransferLegs(cx *CheckCtx, tc *transferCall, key string) {
	a, w := tc.a, cx.W
	tb := a.tb
	for _, o := range tc.other {
		cx.violated("transfer-effects", key+"/"+siteConstruct(a, o), "Token.transfer performs an effect that is neither a leg of the transfer nor its notification: "+siteDesc(a, o), o.Where(w))
	}
	aKey := func(acc *Term) *Term { return tb.cat(tb.constBytes("a"), acc) }
	// ---- debit leg
	if !tc.fromIsNil {
		if tc.debitPut == nil || tc.debitDel == nil {
			cx.violated("debit-leg", key, "the debit leg (store of loaded(from).Balance − amount, or delete when equal) is missing for from = "+tc.from.pretty(), w.pos(tc.m.Fn.Pos()))
		} else {
			s := tc.debitPut
			v := unserialize(a.canonAt(s, s.Args[2]))
			X := recOfStruct(tb, v)
			ok := false
			detail := "stored value " + v.pretty()
			if X != nil {
				k, isRec := recordOf(tb, X)
				want := tb.binop(token.SUB, tb.field(X, "Balance"), tc.amt, intType)
				ok = isRec && k == aKey(tc.from) && tb.field(v, "Balance") == want &&
					tb.field(v, "Until") == tb.field(X, "Until") && tb.field(v, "Parent") == tb.field(X, "Parent")
			}
			cx.decide(ok, "debit-leg", key+"/put", "stores loaded(from) with Balance − amount, other fields unchanged", "the debit store is not loaded(from) with Balance − amount ("+tc.amt.pretty()+"): "+detail, s.Where(w))
			if X != nil {
				cx.decide(a.factGE(s.In, tb.field(X, "Balance"), tc.amt), "balance-guard", key+"/put", "loaded(from).Balance ≥ amount holds at the store", "the debit store is reachable without loaded(from).Balance ≥ amount: a balance can become negative", s.Where(w))
				d := tc.debitDel
				cx.decide(a.factEq(d.In, tb.field(X, "Balance"), tc.amt), "debit-leg", key+"/delete", "the record is deleted only when Balance == amount", "the account record is deleted on a path where Balance == amount is not established: funds vanish", d.Where(w))
			}
			for _, st := range []*Site{tc.debitPut, tc.debitDel} {
				nn, how := amountNonNeg(a, st.In, tc.amt)
				cx.decide(nn, "amount-sign", key+"/"+st.Effect, how, "amount ≥ 0 is not established at the debit "+st.Effect+": a negative amount credits the sender and debits the receiver", st.Where(w))
			}
		}
	}
	// ---- credit leg
	if !tc.toIsNil {
		if tc.creditPut == nil {
			cx.violated("credit-leg", key, "the credit store for to = "+tc.to.pretty()+" is missing", w.pos(tc.m.Fn.Pos()))
		} else {
			s := tc.creditPut
			v := unserialize(a.canonAt(s, s.Args[2]))
			Y := recOfStruct(tb, v)
			ok := false
			if Y != nil {
				k, isRec := recordOf(tb, Y)
				want := tb.binop(token.ADD, tb.field(Y, "Balance"), tc.amt, intType)
				ok = isRec && k == aKey(tc.to) && tb.field(v, "Balance") == want &&
					tb.field(v, "Until") == tb.field(Y, "Until") && tb.field(v, "Parent") == tb.field(Y, "Parent")
			}
			cx.decide(ok, "credit-leg", key+"/put", "stores loaded(to) with Balance + amount, Until/Parent unchanged", "the credit store is not loaded(to) with Balance + the debited amount ("+tc.amt.pretty()+"): stored "+v.pretty(), s.Where(w))
			nn, how := amountNonNeg(a, s.In, tc.amt)
			cx.decide(nn, "amount-sign", key+"/credit", how, "amount ≥ 0 is not established at the credit store", s.Where(w))
			// D3: the credit record is loaded after the debit store
			if Y != nil && !tc.fromIsNil && tc.debitPut != nil && tc.debitDel != nil {
				okOrder := true
				where := ""
				for _, alt := range tb.Alts(Y) {
					if !(isCall(alt, "native/std.Deserialize") && alt.Args[0].Op == "read") {
						continue
					}
					in := tb.insts[alt.Args[0].Inst]
					rs := a.siteIdx[siteKey{in.ctx, in.ins}]
					if rs == nil || rs.In == nil {
						okOrder = false
						continue
					}
					lenFrom := a.litLen(tc.from)
					// (a transfer of 0 may leave the sender's record alone: nothing to overwrite)
					if !a.holdsAt(rs.In, a.eLit(tc.debitPut), a.eLit(tc.debitDel), -a.litEqC(lenFrom, 20), a.litEqC(tc.amt, 0)) {
						okOrder = false
						where = rs.Where(w)
					}
				}
				cx.decide(okOrder, "self-transfer", key, "the credit record is loaded after the debit store on every path", "the credit record is loaded before the debit is stored: transfer(x, x, n) overwrites the debit and mints n", where)
			}
		}
	}
	// ---- both legs are executed exactly for account addresses: a success exit has credited a
	// 20-byte `to` and debited a 20-byte `from` (a transfer of 0 may leave the sender alone), and
	// the stores happen only for 20-byte addresses
	{
		okLegs, whereLegs := true, w.pos(tc.m.Fn.Pos())
		lenFrom, lenTo := a.litLen(tc.from), a.litLen(tc.to)
		for _, ex := range a.Exits() {
			if len(ex.Results) != 1 {
				continue
			}
			if bv, isC := ex.Results[0].BoolConst(); isC && !bv {
				continue
			}
			nb := []int32{}
			if _, isC := ex.Results[0].BoolConst(); !isC {
				nb = append(nb, -a.litB(ex.Results[0]))
			}
			if tc.creditPut == nil || !a.holdsAt(ex.State, append(nb, a.eLit(tc.creditPut), -a.litEqC(lenTo, 20))...) {
				okLegs, whereLegs = false, exitPos(w, ex)
			}
			if tc.debitPut == nil || tc.debitDel == nil || !a.holdsAt(ex.State, append(nb, a.eLit(tc.debitPut), a.eLit(tc.debitDel), -a.litEqC(lenFrom, 20), a.litEqC(tc.amt, 0))...) {
				okLegs, whereLegs = false, exitPos(w, ex)
			}
		}
		if tc.creditPut != nil && !a.holdsAt(tc.creditPut.In, a.litEqC(lenTo, 20)) {
			okLegs, whereLegs = false, tc.creditPut.Where(w)
		}
		for _, d := range []*Site{tc.debitPut, tc.debitDel} {
			if d != nil && !a.holdsAt(d.In, a.litEqC(lenFrom, 20)) {
				okLegs, whereLegs = false, d.Where(w)
			}
		}
		cx.decide(okLegs, "legs-executed", key, "a successful transfer has credited a 20-byte receiver and debited a 20-byte sender, and only those", "a transfer can report success with a leg skipped for an account address (or executed for a non-account one): Σ balances ≠ supply", whereLegs)
	}
	// ---- notifications and refusal, on the exits of Token.transfer itself
	where := w.pos(tc.m.Fn.Pos())
	for _, n := range []struct {
		s    *Site
		name string
		args []*Term
	}{{tc.nTransfer, "Transfer", []*Term{tc.from, tc.to, tc.amt}}, {tc.nTransferX, "TransferX", []*Term{tc.from, tc.to, tc.amt, tc.details}}} {
		if n.s == nil {
			cx.violated("announce", key+"/"+n.name, "Token.transfer does not emit "+n.name, where)
			continue
		}
		got := notifyArgs(n.s)
		same := len(got) == len(n.args)
		for i := range n.args {
			if same && a.canonAt(n.s, got[i]) != a.canonAt(n.s, n.args[i]) {
				same = false
			}
		}
		cx.decide(same, "announce", key+"/"+n.name+"/args", "carries "+termList(n.args), n.name+" carries "+termList(got)+" while the legs move "+termList(n.args), n.s.Where(w))
		once := n.s.Ctx.isDescOrSelf(tc.frame) && !siteInLoop(n.s)
		cx.decide(once, "announce", key+"/"+n.name+"/once", "emitted at one site outside any loop of Token.transfer", n.name+" can be emitted more than once per transfer", n.s.Where(w))
		okT := true
		for _, ex := range a.Exits() {
			if len(ex.Results) != 1 {
				continue
			}
			lits := []int32{a.eLit(n.s)}
			if bv, isC := ex.Results[0].BoolConst(); isC {
				if !bv {
					continue
				}
			} else {
				for _, l := range a.boolLits(ex.Results[0], false) {
					lits = append(lits, l)
				}
			}
			if !a.holdsAt(ex.State, lits...) {
				okT = false
			}
		}
		cx.decide(okT, "announce", key+"/"+n.name+"/on-success", "every path returning true has emitted it", "a successful transfer can complete without emitting "+n.name, n.s.Where(w))
	}
	// D5: refusal inert — a path returning false has executed no effect
	bad := ""
	for _, ex := range a.Exits() {
		if len(ex.Results) != 1 {
			continue
		}
		var resTrue []int32
		if bv, isC := ex.Results[0].BoolConst(); isC {
			if bv {
				continue
			}
		} else {
			resTrue = a.boolLits(ex.Results[0], true)
		}
		for _, e := range a.Effects() {
			if !a.holdsAt(ex.State, append([]int32{-a.eLit(e)}, resTrue...)...) {
				bad = siteDesc(a, e) + " (return at " + exitPos(w, ex) + ")"
			}
		}
	}
	cx.decide(bad == "", "refusal-inert", key, "no path returning false has executed an effect", "Token.transfer can return false after "+bad, where)
}

// recOfStruct: v is {Balance: …, Until: X.Until, Parent: X.Parent} → X
func recOfStruct(tb *TermBuilder, v *Term) *Term {
	u := tb.field(v, "Until")
	if u.Op == "field" && u.Name == "Until" {
		return u.Args[0]
	}
	return nil
}

func runC09(cx *CheckCtx) {
	w := cx.W
	if balanceTransferFn(cx) == nil {
		return
	}
	// "exactly the remaining balance returns": the records the tick works on are loaded exactly (the
	// loader rules of C01, which include that a zero value is not one shared object) and read with the
	// field order they were stored in
	checkLoaders(cx, "contracts/balance")
	checkStoredLayouts(cx, "contracts/balance")
	if version, ok1 := commonConst(cx, "Version"); ok1 {
		if prev, ok2 := commonConst(cx, "PrevVersion"); ok2 {
			checkUpgradeOf(cx, "balance", version, prev)
		}
	}
	// ---- D1: Lock
	if m := cx.method("balance", "Lock"); m != nil {
		a := cx.run(m)
		tcs := findTransferCalls(cx, m)
		var lockPut *Site
		for _, s := range a.Effects() {
			if s.Effect == "put" && keyFamily(s.Args[1]) == "a" && !inFrame(s, balTransferFn) {
				lockPut = s
			}
		}
		if lockPut == nil || len(tcs) != 1 {
			cx.violated("lock-record", "balance.Lock", "Lock no longer writes the lock record before one Token.transfer call", w.pos(m.Fn.Pos()))
		} else {
			tc := tcs[0]
			v := unserialize(a.canonAt(lockPut, lockPut.Args[2]))
			tb := a.tb
			until, from := paramTerm(tb, m, "until"), paramTerm(tb, m, "from")
			b, isC := tb.field(v, "Balance").IntConst()
			ok := isC && b == 0 && tb.field(v, "Until") == until && tb.field(v, "Parent") == from && keyRest(tb, lockPut.Args[1]) == tc.to && tc.from == from
			cx.decide(ok, "lock-record", "balance.Lock/put", "writes {Balance:0, Until:Param(until), Parent:Param(from)} at the lock account that receives the transfer",
				"Lock writes "+v.pretty()+" at "+lockPut.Args[1].pretty()+" while transferring "+tc.from.pretty()+" → "+tc.to.pretty()+": the refund address/expiry of the lock is not what was requested", lockPut.Where(w))
			cx.decide(a.holdsAt(tc.call.In, a.eLit(lockPut)), "lock-record", "balance.Lock/order", "the lock record is written before the transfer", "the transfer can run before the lock record exists: the credit leg would create a plain account without Until/Parent", tc.call.Where(w))
			if tc.creditPut != nil {
				cv := unserialize(a.canonAt(tc.creditPut, tc.creditPut.Args[2]))
				Y := recOfStruct(tb, cv)
				cx.decide(Y != nil && tb.field(cv, "Parent") == tb.field(Y, "Parent"), "lock-record", "balance.Lock/credit-preserves", "the credit leg keeps Until/Parent of the loaded record", "the credit leg does not carry Until/Parent over: the lock would never expire or refund the wrong account", tc.creditPut.Where(w))
			}
			// Lock notification
			var ln *Site
			for _, s := range a.Effects() {
				if notifyName(s) == "Lock" {
					ln = s
				}
			}
			if ln == nil {
				cx.violated("lock-record", "balance.Lock/notify", "Lock no longer emits the Lock notification", w.pos(m.Fn.Pos()))
			} else {
				args := notifyArgs(ln)
				want := []*Term{paramTerm(tb, m, "txDetails"), from, tc.to, tc.amt, until}
				same := len(args) == len(want)
				for i := range want {
					if same && args[i] != want[i] {
						same = false
					}
				}
				cx.decide(same, "lock-record", "balance.Lock/notify", "Lock(txDetails, from, to, amount, until) carries the arguments of the call", "the Lock notification carries "+termList(args)+" instead of "+termList(want), ln.Where(w))
			}
		}
	}
	// partial debits (burn, transfer out of a lock account) keep Until/Parent: the debit store of
	// Token.transfer is the loaded record with only Balance changed
	if tfn := balanceTransferFn(cx); tfn != nil {
		c := cx.contract("balance")
		rootM := &Method{C: c, ABI: "Token.transfer", GoName: "Token.transfer", Fn: tfn, NParams: len(tfn.Params)}
		ra := cx.run(rootM)
		tb := ra.tb
		tc := &transferCall{a: ra, m: rootM, frame: tb.root, from: fnParam(tb, tfn, 2), to: fnParam(tb, tfn, 3),
			amt: fnParam(tb, tfn, 4), details: fnParam(tb, tfn, 6)}
		sortTransferEffects(tc)
		ok := false
		where := w.pos(tfn.Pos())
		if tc.debitPut != nil {
			where = tc.debitPut.Where(w)
			v := unserialize(ra.canonAt(tc.debitPut, tc.debitPut.Args[2]))
			if X := recOfStruct(tb, v); X != nil {
				k, isRec := recordOf(tb, X)
				ok = isRec && k == tb.cat(tb.constBytes("a"), tc.from) && tb.field(v, "Parent") == tb.field(X, "Parent") && tb.field(v, "Until") == tb.field(X, "Until")
			}
		}
		// a full debit removes the record: every exit that reports success has deleted a‖from unless
		// from is not an account or the loaded balance differs from the amount (whatever the amount, 0 included)
		if tc.debitDel != nil {
			var eqLits []int32
			for id := int32(1); id < int32(len(ra.lt.lits)); id++ {
				l := ra.lt.lits[id]
				if l.Kind != KEq {
					continue
				}
				for _, pr := range [][2]*Term{{l.A, l.B}, {l.B, l.A}} {
					if pr[0].Op == "field" && pr[0].Name == "Balance" && pr[1] == tc.amt {
						if k, isRec := recordOf(tb, pr[0].Args[0]); isRec && k == tb.cat(tb.constBytes("a"), tc.from) {
							eqLits = append(eqLits, -id)
						}
					}
				}
			}
			okDel := len(eqLits) > 0
			whereDel := tc.debitDel.Where(w)
			for _, ex := range ra.Exits() {
				if len(ex.Results) != 1 {
					continue
				}
				if b, isC := ex.Results[0].BoolConst(); isC && !b {
					continue // a refusal
				}
				q := append([]int32{ra.eLit(tc.debitDel), -ra.litEqC(ra.litLen(tc.from), 20)}, eqLits...)
				if !ra.holdsAt(ex.State, q...) {
					okDel = false
					whereDel = exitPos(w, ex)
				}
			}
			cx.decide(okDel, "lock-record", "balance.Token.transfer/full-debit-deletes", "a successful transfer of the whole loaded balance of an account deletes its record (for every amount, 0 included)", "a transfer of the whole balance can succeed without deleting the sender's record: an expired lock with nothing left (or a zero lock) keeps its record and is 'released' again by every later tick", whereDel)
		}
		cx.decide(ok, "lock-record", "balance.Token.transfer/debit-preserves", "a partial debit stores the loaded record with Until/Parent unchanged", "a partial debit (burn, transfer) of a lock account does not keep its Until/Parent: the remainder is never released at expiry", where)
	}
	// ---- D2: NewEpoch refund
	if m := cx.method("balance", "NewEpoch"); m != nil {
		a := cx.run(m)
		tb := a.tb
		tcs := findTransferCalls(cx, m)
		cx.count("refund_calls", len(tcs))
		for _, tc := range tcs {
			st := tc.call.In
			amt := a.Canon(st, tc.amt)
			var X *Term
			if amt.Op == "field" && amt.Name == "Balance" {
				X = amt.Args[0]
			}
			okArgs := false
			detail := fmt.Sprintf("refund transfer(%s, %s, %s)", tc.from.pretty(), a.Canon(st, tc.to).pretty(), amt.pretty())
			if X != nil {
				k, isRec := recordOf(tb, X)
				okArgs = isRec && k == tb.cat(tb.constBytes("a"), tc.from) && a.Canon(st, tc.to) == tb.field(X, "Parent")
			}
			cx.decide(okArgs, "refund-args", "balance.NewEpoch>transfer", "from = scanned key, to = Parent, amount = Balance of the record loaded from that key", "the refund does not return the lock's own remaining balance to its Parent: "+detail, tc.call.Where(w))
			if X != nil {
				epoch := paramTerm(tb, m, "epochNum")
				until := tb.field(X, "Until")
				cx.decide(a.factNE0(st, until), "refund-guard", "balance.NewEpoch>transfer/until-set", "Until ≠ 0 holds at the refund", "ordinary accounts (Until = 0) can be 'refunded' to their empty Parent: funds are burnt without a supply change", tc.call.Where(w))
				// exhaustive: an iteration goes round the refund only for a key that is not an account,
				// an ordinary account (Until = 0) or a lock that has not expired (epochNum < Until)
				okE, whyE := everyElement(a, tc.call, func(es *CNF) bool {
					for _, u := range append(a.eqClass(es, until), until) {
						for _, e := range append(a.eqClass(es, epoch), epoch) {
							if a.holdsAt(es, -a.litEqC(a.litLen(tc.from), 20), a.litEqC(u, 0), a.litLt(e, u)) {
								return true
							}
						}
					}
					return false
				})
				cx.decide(okE, "refund-guard", "balance.NewEpoch>transfer/exhaustive", "every scanned lock with Until ≠ 0 and epochNum ≥ Until is refunded by this tick", "a tick does not release every expired lock (epochNum ≥ Until): "+whyE+"; the funds stay on the lock account", tc.call.Where(w))
				// … and the scan itself is reached by every tick: no normal return goes round the loop. A way round
				// that depends on a stored key nobody in the contract writes cannot be taken (the read is nil for ever).
				written := writtenFamilies(cx, "balance")
				okS, whyS := alwaysReached(a, tc.call, func(es *CNF) bool {
					for _, f := range a.lt.lits {
						if f.Kind == KNil && f.A != nil && f.A.Op == "read" && len(f.A.Args) > 0 {
							if fam := keyFamily(f.A.Args[0]); fam != "" && !written[fam] && a.holdsAt(es, -a.litNil(f.A)) {
								return true
							}
						}
					}
					return false
				})
				cx.decide(okS, "refund-guard", "balance.NewEpoch>transfer/scan-always", "every tick that returns normally has scanned the accounts", "a tick can return normally without scanning the accounts ("+whyS+"): locks that expire at such a tick are not released by it", tc.call.Where(w))
				cx.decide(a.factGE(st, epoch, until), "refund-guard", "balance.NewEpoch>transfer/expired", "epochNum ≥ Until holds at the refund", "a lock can be released at a tick with epoch < Until (or is kept at epoch = Until)", tc.call.Where(w))
				// scanned key comes from a Find over family a
				fromAlts := tb.Alts(tc.from)
				okScan := len(fromAlts) == 1 && fromAlts[0].Op == "iterval" && fromAlts[0].Args[0].Op == "find" && keyFamily(fromAlts[0].Args[0].Args[0]) == "a"
				cx.decide(okScan, "refund-args", "balance.NewEpoch/scan", "accounts are enumerated by Find over family 'a'", "the refund loop no longer scans the account family", tc.call.Where(w))
				// read coalescing: the debit leg re-reads the same key (a‖from) and computes its
				// stores from that re-read (C01 debit-leg), every account store of NewEpoch lies
				// inside Token.transfer (C01 single-writer, re-checked here) and the credit
				// follows the debit (C01 self-transfer): so nothing is stored between the load of
				// the lock record and the re-read, Balance == amount holds, the record is deleted.
				okCo := true
				why := ""
				for _, e := range a.Effects() {
					if isStore(e) && keyFamily(e.Args[1]) == "a" && !e.Ctx.isDescOrSelf(tc.frame) {
						okCo = false
						why = "NewEpoch stores an account record outside the refund transfer (" + siteDesc(a, e) + "): the balance re-read by the debit leg may differ from the refunded amount and the lock record survives (second unlock)"
					}
				}
				if tc.debitDel == nil {
					okCo = false
					why = "the debit leg of the refund has no delete branch: an emptied lock account keeps its Until and is unlocked again"
				}
				cx.decide(okCo, "refund-once", "balance.NewEpoch>transfer/reread", "no account store lies between the load of the lock record and its re-read by the debit leg: Balance == amount, the record is deleted", why, tc.call.Where(w))
			}
		}
		cx.floor("refund_calls", 1)
	}
	// ---- D3: subscription on fresh deploy
	if m := cx.method("balance", "_deploy"); m != nil {
		a := cx.runWith(m, map[int]constant.Value{1: constant.MakeBool(false)}, "fresh")
		var sub *Site
		for _, s := range a.Effects() {
			if s.Effect == "call" && len(s.Args) > 1 {
				if n, ok := s.Args[1].BytesConst(); ok && n == "subscribeForNewEpoch" {
					sub = s
				}
			}
		}
		ok := sub != nil
		if ok {
			for _, ex := range a.Exits() {
				if !a.holdsAt(ex.State, a.eLit(sub)) {
					ok = false
				}
			}
		}
		cx.decide(ok, "tick-subscription", "balance._deploy/fresh", "every fresh-deploy path subscribes the contract to the Netmap tick", "a fresh deployment can complete without subscribing to newEpoch: locks would never expire", w.pos(m.Fn.Pos()))
	}
}

func paramTerm(tb *TermBuilder, m *Method, name string) *Term {
	for i, p := range m.Fn.Params {
		if p.Name() == name {
			return tb.mk("param", fmt.Sprintf("%d:%s", i, name), 0)
		}
	}
	// renamed parameter: the position it had on the reference tree
	if m.C != nil {
		if ord := abiParamOrder[m.C.Name+"."+m.GoName]; len(ord) == len(m.Fn.Params) {
			for i, n := range ord {
				if n == name {
					return tb.mk("param", fmt.Sprintf("%d:%s", i, m.Fn.Params[i].Name()), 0)
				}
			}
		}
	}
	return tb.mk("param", "?:"+name, 0)
}

// balanceLegs: the debit/credit leg rules of Token.transfer analysed as a root
// (they hold for every caller). C01 owns them; C05 re-runs them because "debits
// exactly fee·N and credits exactly fee to each node" is a statement about
// these legs (an Alphabet node that owns a container pays itself).
func balanceLegs(cx *CheckCtx) {
	c := cx.contract("balance")
	tfn := balanceTransferFn(cx)
	if c == nil || tfn == nil {
		return
	}
	rootM := &Method{C: c, ABI: "Token.transfer", GoName: "Token.transfer", Fn: tfn, NParams: len(tfn.Params)}
	ra := cx.run(rootM)
	tb := ra.tb
	tc := &transferCall{a: ra, m: rootM, frame: tb.root, from: fnParam(tb, tfn, 2), to: fnParam(tb, tfn, 3),
		amt: fnParam(tb, tfn, 4), details: fnParam(tb, tfn, 6)}
	sortTransferEffects(tc)
	checkTransferLegs(cx, tc, "balance.Token.transfer")
	checkLoaders(cx, "contracts/balance")
	checkStoredLayouts(cx, "contracts/balance")
}

// checkLoaders: every helper of the package that reads a stored value and
// returns it (an account record, the supply) returns the decoded stored value
// exactly when the read found something, and its zero value exactly when it
// found nothing: the nil test and the two returns are not crossed.
func checkLoaders(cx *CheckCtx, pkgRel string) {
	w := cx.W
	checkSharedStructs(cx, pkgRel)
	p := w.ByPath[modPrefix+pkgRel]
	if p == nil {
		return
	}
	n := 0
	for _, f := range allFuncs(w.Prog.Package(p.Types)) {
		if f.Parent() != nil || f.Blocks == nil || f.Signature.Results().Len() != 1 || directCallees(f)["storage.Get"] != 1 || len(f.Blocks) > 6 {
			continue
		}
		if dc := directCallees(f); dc["storage.Put"]+dc["storage.Delete"] > 0 {
			continue
		}
		a := cx.analyze(&Query{Name: "std", Root: f})
		var rd *Term
		for _, s := range a.Sites(func(s *Site) bool { return s.Callee == "storage.Get" && s.Ctx.parent == nil }) {
			rd = s.Val
		}
		if rd == nil || len(a.Exits()) < 2 {
			continue
		}
		hasLoop, returnsRead := false, false
		for _, b := range f.Blocks {
			if isLoopHeader(b) {
				hasLoop = true
			}
		}
		for _, ex := range a.Exits() {
			if len(ex.Results) == 1 && ex.Results[0].contains(func(x *Term) bool { return x == rd }) {
				returnsRead = true
			}
		}
		if hasLoop || !returnsRead {
			continue // not a plain loader
		}
		n++
		ok, detail := true, ""
		for _, ex := range a.Exits() {
			if len(ex.Results) != 1 {
				continue
			}
			r := ex.Results[0]
			fromStore := r.contains(func(x *Term) bool { return x == rd })
			switch {
			case fromStore && !a.holdsAt(ex.State, -a.litNil(rd)):
				ok, detail = false, "returns the decoded read without having found it present"
			case !fromStore && !a.holdsAt(ex.State, a.litNil(rd)):
				ok, detail = false, "returns a default ("+r.pretty()+") although the read found a stored value"
			}
		}
		cx.decide(ok, "loader", fq(f), "stored value when present, default exactly when absent", fq(f)+" "+detail+": every balance / supply computed from it is wrong", w.pos(f.Pos()))
	}
	cx.count("loaders", n)
}

// checkSharedStructs: in code compiled by neo-go a struct value is a VM
// reference: copying it (assignment, return, parameter) does not copy its
// fields. A package-level struct variable that is *handed out* — returned from
// a function, or copied into a local whose fields are then written — is
// therefore one shared object: what one caller adds to "its" copy is seen by
// the next one within the same invocation (a loader's zero value that
// accumulates every amount credited to it). A package-level struct may be read
// and passed as a receiver; it is never returned and never the source of a
// local that is written through.
func checkSharedStructs(cx *CheckCtx, pkgRel string) {
	w := cx.W
	p := w.ByPath[modPrefix+pkgRel]
	if p == nil {
		return
	}
	sp := w.Prog.Package(p.Types)
	if sp == nil {
		return
	}
	isStructGlobal := func(v ssa.Value) *ssa.Global {
		u, ok := v.(*ssa.UnOp)
		if !ok || u.Op != token.MUL {
			return nil
		}
		g, ok := u.X.(*ssa.Global)
		if !ok || g.Pkg != sp {
			return nil
		}
		if pt, ok := g.Type().Underlying().(*types.Pointer); ok {
			if _, isStruct := pt.Elem().Underlying().(*types.Struct); isStruct {
				return g
			}
		}
		return nil
	}
	nGlobals := 0
	for _, m := range sp.Members {
		if g, ok := m.(*ssa.Global); ok {
			if pt, ok := g.Type().Underlying().(*types.Pointer); ok {
				if _, isStruct := pt.Elem().Underlying().(*types.Struct); isStruct {
					nGlobals++
				}
			}
		}
	}
	bad := map[string]string{}
	for _, fn := range allFuncs(sp) {
		if fn.Blocks == nil || fn.Name() == "init" {
			continue
		}
		for _, b := range fn.Blocks {
			for _, ins := range b.Instrs {
				switch x := ins.(type) {
				case *ssa.Return:
					for _, r := range x.Results {
						if g := isStructGlobal(r); g != nil {
							bad[g.Name()] = fq(fn) + " returns it (" + w.pos(x.Pos()) + ")"
						}
					}
				case *ssa.Store:
					g := isStructGlobal(x.Val)
					if g == nil {
						continue
					}
					// copied into a local: is the local written through afterwards?
					if al, ok := x.Addr.(*ssa.Alloc); ok && al.Referrers() != nil {
						for _, r := range *al.Referrers() {
							if fa, ok := r.(*ssa.FieldAddr); ok && fa.Referrers() != nil {
								for _, rr := range *fa.Referrers() {
									if st, ok := rr.(*ssa.Store); ok && st.Addr == ssa.Value(fa) {
										bad[g.Name()] = fq(fn) + " copies it into a local and writes a field of the copy (" + w.pos(st.Pos()) + ")"
									}
								}
							}
						}
					}
				}
			}
		}
	}
	var names []string
	for n := range bad {
		names = append(names, n)
	}
	sort.Strings(names)
	for _, n := range names {
		cx.violated("loader", pkgRel+"."+n+"/shared", "the package-level struct "+n+" is handed out: "+bad[n]+". Under neo-go a struct is a reference, so every holder of this \"copy\" shares one object within an invocation: an amount credited to one account's zero value is still there when the next account's zero value is asked for", "")
	}
	if len(names) == 0 {
		cx.holds("loader", pkgRel+"/shared-structs", fmt.Sprintf("%d package-level struct variables: none is returned or copied into a written local", nGlobals))
	}
}

// transferXRefusalFaults: balance.TransferX reaches a normal exit only if the transfer helper answered true.
func transferXRefusalFaults(cx *CheckCtx) bool {
	m := cx.method("balance", "TransferX")
	if m == nil {
		return false
	}
	a := cx.run(m)
	tcs := findTransferCalls(cx, m)
	if len(tcs) == 0 {
		return false
	}
	for _, tc := range tcs {
		if _, isC := tc.call.Val.BoolConst(); isC {
			continue
		}
		for _, ex := range a.Exits() {
			if !a.holdsAt(ex.State, a.litB(tc.call.Val)) {
				return false
			}
		}
	}
	return true
}

// writtenFamilies: the leading constants of every key some method of the contract (deployment included) stores under.
func writtenFamilies(cx *CheckCtx, contract string) map[string]bool {
	out := map[string]bool{}
	c := cx.contract(contract)
	if c == nil {
		return out
	}
	ms := append([]*Method{}, c.Methods...)
	if d := cx.method(contract, "_deploy"); d != nil {
		ms = append(ms, d)
	}
	for _, m := range ms {
		a := cx.run(m)
		for _, s := range a.Effects() {
			if isStore(s) && s.Effect == "put" {
				if fam := keyFamily(s.Args[1]); fam != "" {
					out[fam] = true
				} else {
					out["?"] = true
				}
			}
		}
	}
	return out
}
