package main

// Structural anchors: unexported helpers are found by what they do (which
// interop they call directly, which event they emit, which family they write),
// never by their name, so a rename of a helper leaves every rule in place. The
// old name is only a tie-breaker and part of the message.

import (
	"go/constant"
	"go/types"
	"strings"

	"golang.org/x/tools/go/ssa"
)

// directCallees: fq names of the functions fn calls directly (not through helpers), with counts.
func directCallees(fn *ssa.Function) map[string]int {
	out := map[string]int{}
	for _, b := range fn.Blocks {
		for _, ins := range b.Instrs {
			if ci, ok := ins.(ssa.CallInstruction); ok {
				if c := ci.Common().StaticCallee(); c != nil {
					out[fq(c)]++
				}
			}
		}
	}
	return out
}

// notifiesDirect: fn itself calls runtime.Notify with the constant event name.
func notifiesDirect(fn *ssa.Function, event string) bool {
	for _, b := range fn.Blocks {
		for _, ins := range b.Instrs {
			ci, ok := ins.(ssa.CallInstruction)
			if !ok {
				continue
			}
			c := ci.Common().StaticCallee()
			if c == nil || fq(c) != "runtime.Notify" || len(ci.Common().Args) == 0 {
				continue
			}
			if k, ok := ci.Common().Args[0].(*ssa.Const); ok && k.Value != nil && k.Value.Kind() == constant.String && constant.StringVal(k.Value) == event {
				return true
			}
		}
	}
	return false
}

// locate picks the function of pkgRel (top-level functions and methods, not
// closures) that satisfies pred. Exactly one match is the anchor; with several
// the one still called hint wins; none or an unresolved tie is UNDECIDED.
func (cx *CheckCtx) locate(pkgRel, hint, what string, pred func(*ssa.Function) bool) *ssa.Function {
	key := pkgRel + "|" + hint + "|" + what
	if f, ok := cx.located[key]; ok {
		return f
	}
	if cx.located == nil {
		cx.located = map[string]*ssa.Function{}
	}
	p := cx.W.ByPath[modPrefix+pkgRel]
	if p == nil {
		cx.undecided("anchor", pkgRel, "package is gone", "")
		cx.located[key] = nil
		return nil
	}
	var hits []*ssa.Function
	for _, f := range allFuncs(cx.W.Prog.Package(p.Types)) {
		if f.Parent() != nil || f.Blocks == nil || f.Synthetic != "" {
			continue
		}
		if pred(f) {
			hits = append(hits, f)
		}
	}
	var res *ssa.Function
	switch {
	case len(hits) == 1:
		res = hits[0]
	case len(hits) > 1:
		var names []string
		for _, f := range hits {
			names = append(names, fq(f))
			if strings.HasSuffix(fq(f), "."+hint) {
				res = f
			}
		}
		if res == nil {
			cx.undecided("anchor", pkgRel+"."+hint, "the helper that "+what+" is ambiguous: "+strings.Join(names, ", "), "")
		}
	default:
		cx.undecided("anchor", pkgRel+"."+hint, "no function of the package "+what+" (the helper formerly called "+hint+"): the rules anchored on it cannot be placed", "")
	}
	cx.located[key] = res
	return res
}

// siteFunc: the function whose body contains the single effect site selected
// by pick over the analysis of root (nil when none or when sites in different
// functions match).
func siteFunc(a *Analysis, pick func(s *Site) bool) *ssa.Function {
	var res *ssa.Function
	for _, s := range a.Sites(pick) {
		if res != nil && res != s.Ctx.fn {
			return nil
		}
		res = s.Ctx.fn
	}
	return res
}

// fixedWidthFn: fn returns a byte slice whose length is the same constant on
// every path: each returned value is the full slice of one make([]byte, K) /
// [K]byte allocation (copy and in-place opcodes do not change a length).
func fixedWidthFn(fn *ssa.Function) (int64, bool) {
	if fn.Blocks == nil || fn.Signature.Results().Len() != 1 {
		return 0, false
	}
	var k int64 = -1
	for _, b := range fn.Blocks {
		r, ok := b.Instrs[len(b.Instrs)-1].(*ssa.Return)
		if !ok {
			continue
		}
		sl, ok := r.Results[0].(*ssa.Slice)
		if !ok {
			return 0, false
		}
		al, ok := sl.X.(*ssa.Alloc)
		if !ok {
			return 0, false
		}
		n, ok := arrayLen(al.Type())
		if !ok || sl.Low != nil && !isConstInt(sl.Low, 0) || sl.High != nil && !isConstInt(sl.High, n) {
			return 0, false
		}
		if k >= 0 && k != n {
			return 0, false
		}
		k = n
	}
	// an encoder is total: a key helper that faults for some numbers (negative ones, say) makes every
	// caller that reaches it with such a number fault — a resize whose drop range starts below epoch 0
	for _, b := range fn.Blocks {
		if _, isPanic := b.Instrs[len(b.Instrs)-1].(*ssa.Panic); isPanic {
			return 0, false
		}
	}
	// an in-place reordering (REVERSEITEMS) must work on the padded buffer itself: reversing the
	// variable-length source before it is copied in left-aligns it, and values whose encodings differ
	// only in trailing zero bytes (1, 256, 65536) collide — the result is fixed-width but not injective
	for _, b := range fn.Blocks {
		for _, ins := range b.Instrs {
			c, ok := ins.(*ssa.Call)
			if !ok || len(c.Common().Args) < 2 {
				continue
			}
			op, isC := c.Common().Args[0].(*ssa.Const)
			if !isC || op.Value == nil || op.Value.Kind() != constant.String || constant.StringVal(op.Value) != "REVERSEITEMS" {
				continue
			}
			arg := c.Common().Args[1]
			if mi, isMI := arg.(*ssa.MakeInterface); isMI {
				arg = mi.X
			}
			sl, isSl := arg.(*ssa.Slice)
			if !isSl {
				return 0, false
			}
			if _, isAl := sl.X.(*ssa.Alloc); !isAl {
				return 0, false
			}
		}
	}
	return k, k > 0
}

// fixedWidthFns: fq name → width for every contract helper with a constant-width result.
var fixedWidthFns = map[string]int64{}

func scanFixedWidth(w *World) {
	for _, p := range w.Pkgs {
		rel := strings.TrimPrefix(p.PkgPath, modPrefix)
		if !(strings.HasPrefix(rel, "contracts/") || rel == "common") {
			continue
		}
		sp := w.Prog.Package(p.Types)
		if sp == nil {
			continue
		}
		for _, f := range allFuncs(sp) {
			if k, ok := fixedWidthFn(f); ok {
				fixedWidthFns[fq(f)] = k
			}
		}
	}
}

// epochKeyOf: t is the result of a contract helper with a constant-width byte
// result applied to exactly arg (the fixed-width epoch encoder, whatever its name).
func fixedEnc(t, arg *Term) bool {
	if t.Op != "call" || len(t.Args) != 1 || t.Args[0] != arg {
		return false
	}
	_, ok := fixedWidthFns[t.Name]
	return ok
}

func arrayLen(t types.Type) (int64, bool) {
	if p, ok := t.Underlying().(*types.Pointer); ok {
		t = p.Elem()
	}
	if a, ok := t.Underlying().(*types.Array); ok {
		return a.Len(), true
	}
	return 0, false
}

// callsWithConstArg: fn itself calls callee with the constant string arg at position i.
func callsWithConstArg(fn *ssa.Function, callee string, i int, arg string) bool {
	for _, b := range fn.Blocks {
		for _, ins := range b.Instrs {
			ci, ok := ins.(ssa.CallInstruction)
			if !ok {
				continue
			}
			c := ci.Common().StaticCallee()
			if c == nil || fq(c) != callee || len(ci.Common().Args) <= i {
				continue
			}
			if k, ok := ci.Common().Args[i].(*ssa.Const); ok && k.Value != nil && k.Value.Kind() == constant.String && constant.StringVal(k.Value) == arg {
				return true
			}
		}
	}
	return false
}
