package main

// C03 — every mutating contract method is inert without its required
// witnesses (DESIGN §5 C03, Appendix A).

import (
	"fmt"
	"go/token"
	"go/types"
	"regexp"
	"sort"
	"strings"
)

var intType = types.Typ[types.Int]

// T-witness (DESIGN Appendix A): conjunction of disjunctions of subjects.
// Key: contract.abiName/arity.
var tWitness = map[string][][]string{
	"alphabet.emit/0":   {{"AT_INDEX"}},
	"alphabet.vote/2":   {{"A23"}},
	"alphabet.update/3": {{"MAJ"}},
	"audit.put/1":       {{"P:*"}},
	"audit.update/3":    {{"MAJ"}},

	"balance.transfer/4":  {{"P:Param(from)", "CALLER:P:Param(from)"}},
	"balance.transferX/4": {{"A23"}},
	"balance.lock/5":      {{"A23"}},
	"balance.mint/3":      {{"A23"}},
	"balance.burn/3":      {{"A23"}},
	"balance.newEpoch/1":  {{"A23"}},
	"balance.update/3":    {{"MAJ"}},

	"container.put/4":                       {{"A23"}},
	"container.put/5":                       {{"A23"}},
	"container.putNamed/6":                  {{"A23"}},
	"container.delete/3":                    {{"A23"}},
	"container.setEACL/4":                   {{"A23"}},
	"container.addNextEpochNodes/3":         {{"A23"}},
	"container.commitContainerListUpdate/2": {{"A23"}},
	"container.newEpoch/1":                  {{"A23"}},
	"container.startContainerEstimation/1":  {{"A23"}},
	"container.stopContainerEstimation/1":   {{"A23"}},
	"container.putContainerSize/4":          {{"P:Param(pubKey)"}},
	"container.submitObjectPut/2":           {{"PLACEMENT"}},
	"container.update/3":                    {{"MAJ"}},

	"neofs.withdraw/2":                 {{"P:Param(user)"}},
	"neofs.bind/2":                     {{"P:Param(user)"}},
	"neofs.unbind/2":                   {{"P:Param(user)"}},
	"neofs.innerRingCandidateAdd/1":    {{"P:Param(key)"}},
	"neofs.innerRingCandidateRemove/1": {{"P:Param(key)", "A23_ST", "MEM_ST"}},
	"neofs.cheque/4":                   {{"A23", "MEM_ST"}},
	"neofs.alphabetUpdate/2":           {{"A23", "MEM_ST"}},
	"neofs.setConfig/3":                {{"A23", "MEM_ST"}},
	"neofs.onNEP17Payment/3":           {{"CALLER:const"}},
	"neofs.update/3":                   {{"MAJ_IR"}},

	"neofsid.addKey/2":    {{"A23"}},
	"neofsid.removeKey/2": {{"A23"}},
	"neofsid.update/3":    {{"MAJ"}},

	"netmap.addPeer/1":              {{"A23"}, {"P:Param(nodeInfo)[2:35]"}},
	"netmap.addNode/1":              {{"A23"}, {"P:Param(n).Key"}},
	"netmap.updateState/2":          {{"A23"}, {"P:Param(publicKey)"}},
	"netmap.addPeerIR/1":            {{"A23"}},
	"netmap.updateStateIR/2":        {{"A23"}},
	"netmap.deleteNode/1":           {{"A23"}},
	"netmap.newEpoch/1":             {{"A23"}},
	"netmap.setConfig/3":            {{"A23"}},
	"netmap.updateSnapshotCount/1":  {{"A23"}},
	"netmap.subscribeForNewEpoch/1": {{"A23"}},
	"netmap.update/3":               {{"MAJ"}},

	"nns.addRecord/3":     {{"MAJ", "OWNER:*", "ADMIN:*"}},
	"nns.setRecord/4":     {{"MAJ", "OWNER:*", "ADMIN:*"}},
	"nns.deleteRecords/2": {{"MAJ", "OWNER:*", "ADMIN:*"}},
	"nns.updateSOA/6":     {{"MAJ", "OWNER:*", "ADMIN:*"}},
	"nns.renew/1":         {{"MAJ", "OWNER:*", "ADMIN:*"}},
	"nns.renew/2":         {{"MAJ", "OWNER:*", "ADMIN:*"}},
	"nns.register/7":      {{"P:Param(owner)"}},
	"nns.registerTLD/6":   {{"MAJ"}},
	"nns.setPrice/1":      {{"MAJ"}},
	"nns.update/3":        {{"MAJ"}},
	"nns.transfer/3":      {{"OWNER:*"}},
	"nns.setAdmin/2":      {{"OWNER:*"}},

	"processing.update/3": {{"MAJ_IR"}},
	"proxy.update/3":      {{"MAJ"}},
	"reputation.put/3":    {{"A23"}},
	"reputation.update/3": {{"MAJ"}},
}

// methods documented to have no effect at all although not declared safe
var tNoEffect = map[string]string{
	"alphabet.onNEP17Payment/3":   "accepts GAS and NEO only: aborts otherwise, never writes",
	"proxy.onNEP17Payment/3":      "accepts GAS only",
	"processing.onNEP17Payment/3": "accepts GAS only",
	"container.onNEP11Payment/4":  "empty by design",
	"netmap.lastEpochBlock/0":     "read-only, merely not listed safe",
	"reputation.version/0":        "read-only, merely not listed safe",
}

// verify methods: result true only under these subjects
var tVerify = map[string][]string{
	"proxy.verify/0":      {"A23", "MAJ"},
	"alphabet.verify/0":   {"A23", "MAJ"},
	"processing.verify/0": {"EXT:alphabetAddress"},
}

func init() {
	register(&Check{
		ID:        "C03",
		Level:     "proof",
		Technique: "abstract interpretation: CNF must-fact dataflow over the fully inlined SSA graph of every ABI method; entailment of (effect not executed ∨ required witness) at every normal exit",
		Explanation: "D1 gate rule: for every non-safe ABI method and every effect site reachable in its inlined graph (storage write, notification, token-moving native call, contract.Call with flags beyond read-only), the facts at every normal exit entail ¬executed(site) ∨ required-witness, with the requirement taken from the documented table (DESIGN App. A). All paths are covered at once, so with the VM failure model an invocation lacking the witness leaves no trace. " +
			"D2: no witness beyond the documented ones gates every effect of a method. D3: the multisignature accounts are classified from their terms: threshold ⌊2n/3⌋+1 resp. ⌊n/2⌋+1 over the documented key source, for every n. D4: methods declared safe reach no effect site. D5: the verify methods return true only under the documented multisignature. D6: gates inside an exception-catching frame do not count (engine). D7 the notary-disabled 2/3+1 is collected by votes: the vote-protocol rules of C17 (member voter, exact threshold, same-id ballot removed, distinct counting, 20-block window) are part of this check. S3: the admin an NNS gate names is the admin of the current registration: a transfer and a (re-)registration both store Admin = nil (transfer-resets-admin, register-without-admin); the verify converse accepts an account left out where the two thresholds coincide. R13 catching-frame: no function with a deferred recover that a method of the property's contracts can reach lies outside the who-may-catch table (container.deleteNNSRecords).",
		NotCovered:  "that a correctly witnessed invocation succeeds (depends on arguments and state); run-time signer sets are not enumerated — the proof is over program paths.",
		Assumptions: []string{"CheckWitness(t) is true only if the transaction carries the witness of t (or t is the calling contract): the VM's definition", "neo.GetCommittee / roles.GetDesignatedByRole are constant within one invocation"},
		Run:         runC03,
	})
}

// witnessLits: literals of a's table whose subject is allowed.
func witnessLits(a *Analysis, allowed []string) []int32 {
	var out []int32
	for id := int32(1); id < int32(len(a.lt.lits)); id++ {
		l := a.lt.lits[id]
		switch l.Kind {
		case KW:
			if subjectIn(classify(a.tb, l.A), allowed) {
				out = append(out, id)
			}
		case KCaller:
			sub := "CALLER:" + classify(a.tb, l.A)
			if l.A.Op == "const" {
				sub = "CALLER:const"
			}
			if subjectIn(sub, allowed) {
				out = append(out, id)
			}
		case KB:
			if l.A.Op == "ret" && l.A.Name == "contracts/container.VerifyPlacementSignatures" && subjectIn("PLACEMENT", allowed) {
				out = append(out, id)
			}
		}
	}
	return out
}

// allWitnessLits with their subjects (for diagnostics and D2).
func allWitnessSubjects(a *Analysis) map[int32]string {
	out := map[int32]string{}
	for id := int32(1); id < int32(len(a.lt.lits)); id++ {
		l := a.lt.lits[id]
		switch l.Kind {
		case KW:
			out[id] = classify(a.tb, l.A)
		case KCaller:
			if l.A.Op == "const" {
				out[id] = "CALLER:const"
			} else {
				out[id] = "CALLER:" + classify(a.tb, l.A)
			}
		}
	}
	return out
}

// gated: at every normal exit, ¬E(site) ∨ (one of lits). Returns the first
// exit at which this is not entailed.
func gated(a *Analysis, s *Site, lits []int32) (bool, *Exit) {
	q := append([]int32{-a.eLit(s)}, lits...)
	for _, ex := range a.Exits() {
		if !ex.State.refutes(a.lt, q) {
			return false, ex
		}
	}
	return true, nil
}

func effectDesc(a *Analysis, s *Site) string {
	d := s.Callee
	switch s.Effect {
	case "put", "delete":
		if len(s.Args) > 1 {
			d += "[" + s.Args[1].pretty() + "]"
		}
	case "notify":
		if len(s.Args) > 0 {
			d += "[" + s.Args[0].pretty() + "]"
		}
	case "call":
		if len(s.Args) > 1 {
			d += "[" + s.Args[0].pretty() + "." + s.Args[1].pretty() + "]"
		}
	case "transfer", "vote":
		var ps []string
		for _, x := range s.Args {
			ps = append(ps, x.pretty())
		}
		d += "[" + strings.Join(ps, ",") + "]"
	}
	return d
}

// siteKey string: stable across line moves (function chain + callee + ordinal handled by cx.add)
func siteConstruct(a *Analysis, s *Site) string {
	var fr []string
	for c := s.Ctx; c != nil; c = c.parent {
		fr = append([]string{c.fn.Name()}, fr...)
	}
	return strings.Join(fr, ">") + "/" + effectDesc(a, s)
}

func runC03(cx *CheckCtx) {
	w := cx.W
	for _, cn := range w.CNames {
		c := w.Contracts[cn]
		for _, m := range c.Methods {
			key := m.String()
			a := cx.analyze(&Query{Name: "gates", Root: m.Fn})
			effs := a.RealEffects()
			if m.Safe {
				// D4
				cx.count("safe_methods", 1)
				if len(effs) == 0 {
					cx.holds("safe-readonly", key, "no effect site reachable")
				} else {
					for _, s := range effs {
						cx.violated("safe-readonly", key+"/"+siteConstruct(a, s), "method is declared safe in config.yml but reaches "+effectDesc(a, s), s.Where(w))
					}
				}
				continue
			}
			cx.count("nonsafe_methods", 1)
			if why, ok := tNoEffect[key]; ok {
				if len(effs) == 0 {
					cx.holds("no-effect", key, why)
				} else {
					for _, s := range effs {
						if ok, _ := gated(a, s, witnessLits(a, []string{"*"})); !ok {
							cx.violated("gate", key+"/"+siteConstruct(a, s), "method is documented to have no effect ("+why+") but reaches "+effectDesc(a, s)+" without any witness", s.Where(w))
						}
					}
				}
				continue
			}
			req, inTable, _, _ := gateRule(cx, m)
			subjects := allWitnessSubjects(a)
			// D2: no stronger than documented
			if inTable && len(effs) > 0 {
				var allowed []string
				for _, d := range req {
					allowed = append(allowed, d...)
				}
				extra := ""
				for id, sub := range subjects {
					if subjectIn(sub, allowed) {
						continue
					}
					all := true
					for _, s := range effs {
						if g, _ := gated(a, s, []int32{id}); !g {
							all = false
							break
						}
					}
					if all && !extraAllowed(key, sub) {
						extra = sub
					}
				}
				cx.decide(extra == "", "no-extra-witness", key, "no undocumented witness gates every effect", "every effect of "+key+" additionally requires the undocumented witness "+extra+": an invocation with exactly the documented witnesses fails", w.pos(m.Fn.Pos()))
			}
		}
	}
	// the 2/3+1 of the notary-disabled mode is collected by votes: the vote protocol (member
	// voter, threshold, distinct counting, window) is part of "inert without its witnesses"
	voteProtocol(cx, []string{"Cheque", "AlphabetUpdate", "SetConfig", "InnerRingCandidateRemove"})
	// the "admin" some NNS gates name is the admin of the *current* registration: a transfer and a
	// (re-)registration both start without one (shared with C11)
	nnsTransferResetsAdmin(cx, "transfer-resets-admin")
	nnsRegisterStartsWithoutAdmin(cx, "register-without-admin")
	runC17Common(cx, w)
	cx.floor("nonsafe_methods", 68)
	cx.floor("safe_methods", 70)
	cx.floor("effect_sites", 190)

	// D3: threshold classification of the shared helpers
	type helper struct{ pkg, fn, want string }
	for _, h := range []helper{
		{"common", "AlphabetAddress", "A23"}, {"common", "CommitteeAddress", "MAJ"},
		{"contracts/neofs", "AlphabetAddress", "A23_ST"},
	} {
		p := w.ByPath[modPrefix+h.pkg]
		if p == nil {
			cx.undecided("threshold", h.pkg+"."+h.fn, "package not loaded", "")
			continue
		}
		f := w.Prog.Package(p.Types).Func(h.fn)
		if f == nil {
			cx.undecided("threshold", h.pkg+"."+h.fn, "anchor function is gone", "")
			continue
		}
		tb := newTermBuilder(w, f)
		got := ""
		for _, t := range returnTerms(tb, f) {
			got = classify(tb, t)
		}
		cx.decide(got == h.want, "threshold", h.pkg+"."+h.fn, "classified "+got+" for every committee size", h.pkg+"."+h.fn+" builds "+got+", documented "+h.want, w.pos(f.Pos()))
	}

	// D5: verify methods
	for _, cn := range w.CNames {
		c := w.Contracts[cn]
		for _, m := range c.Methods {
			allowed, ok := tVerify[m.String()]
			if !ok {
				continue
			}
			cx.count("verify_methods", 1)
			// comparisons between two threshold quotients (⌊2n/3⌋ against ⌊n/2⌋) are kept as facts: a verify
			// method may leave out the second account where the two are one
			a := cx.analyze(&Query{Name: "gates+quo", Root: m.Fn, WantCmp: func(x, y *Term) bool {
				hasQuo := func(t *Term) bool {
					return t != nil && t.contains(func(z *Term) bool { return z.Op == "quo" || (z.Op == "bin" && strings.Contains(z.Name, "/")) })
				}
				return hasQuo(x) && hasQuo(y)
			}})
			for _, ex := range a.Exits() {
				if len(ex.Results) == 1 {
					a.condLits(ex.Results[0], true, 0) // interns the literals of the result
				}
			}
			lits := witnessLits(a, allowed)
			good := true
			where := ""
			for _, ex := range a.Exits() {
				if len(ex.Results) != 1 {
					continue
				}
				st := ex.State.clone()
				if bv, isC := ex.Results[0].BoolConst(); isC {
					if !bv {
						continue
					}
				} else {
					for _, l := range a.condLits(ex.Results[0], true, 0) {
						st.addUnit(a.lt, l)
					}
				}
				if !st.refutes(a.lt, lits) {
					good = false
					where = exitPos(w, ex)
				}
			}
			cx.decide(good, "verify", m.String(), "returns true only under "+strings.Join(allowed, " ∨ "), m.String()+" can return true without "+strings.Join(allowed, " ∨ "), where)
			// converse: the answer is false only when every documented account was asked and is absent
			conv, cwhere := true, ""
			for _, ex := range a.Exits() {
				if len(ex.Results) != 1 {
					continue
				}
				st := ex.State.clone()
				if bv, isC := ex.Results[0].BoolConst(); isC {
					if bv {
						continue
					}
				} else {
					for _, l := range a.condLits(ex.Results[0], false, 0) {
						st.addUnit(a.lt, l)
					}
				}
				if st.bottom {
					continue
				}
				// (where the state knows ⌊2n/3⌋ = ⌊n/2⌋ for the key list, the 2/3+1 and the majority accounts are one
				// account: "asked and absent, or the thresholds coincide" is accepted for an account as long as some
				// documented account was asked outright)
				co := coincideLits(a)
				askedOutright := false
				for _, cls := range allowed {
					for _, l := range witnessLits(a, []string{cls}) {
						if a.holdsAt(st, -l) {
							askedOutright = true
						}
					}
				}
				for _, cls := range allowed {
					found := false
					for _, l := range witnessLits(a, []string{cls}) {
						if a.holdsAt(st, -l) || (askedOutright && len(co) > 0 && a.holdsAt(st, append([]int32{-l}, co...)...)) {
							found = true
						}
					}
					if !found {
						conv, cwhere = false, exitPos(w, ex)+" ("+cls+" not asked)"
					}
				}
			}
			cx.decide(conv, "verify", m.String()+"/refuses-only-if-none", "answers false only with every documented account ("+strings.Join(allowed, ", ")+") asked and absent", m.String()+" can answer false without having asked for one of the documented accounts: a transaction signed by that account is turned away for some committee sizes", cwhere)
		}
	}
	cx.floor("verify_methods", 3)
}

func reqString(req [][]string) string {
	var cs []string
	for _, d := range req {
		cs = append(cs, "("+strings.Join(d, " ∨ ")+")")
	}
	return strings.Join(cs, " ∧ ")
}

// extra witnesses that are part of the documented behaviour but expressed in
// another property's table (kept explicit, one reason each).
func extraAllowed(method, sub string) bool {
	switch method {
	case "nns.register/7":
		// level > 2 requires the admin of the enclosing name (C11); it never gates the 2nd-level path
		return false
	}
	return false
}

// exitPos: position of a return; implicit returns have none, use the last
// positioned instruction before it.
func exitPos(w *World, ex *Exit) string {
	if ex.Instr.Pos().IsValid() {
		return w.pos(ex.Instr.Pos())
	}
	b := ex.Instr.Block()
	for i := len(b.Instrs) - 1; i >= 0; i-- {
		if p := b.Instrs[i].Pos(); p.IsValid() {
			return w.pos(p) + " (implicit return after)"
		}
	}
	return "end of " + fq(ex.Ctx.fn)
}

var paramRe = regexp.MustCompile(`Param\((\w+)\)`)

// retargetParams: the table names parameters as the reference tree does; a
// parameter renamed since is found by its recorded position.
func retargetParams(m *Method, req [][]string) [][]string {
	ord := abiParamOrder[m.C.Name+"."+m.GoName]
	if len(ord) != len(m.Fn.Params) {
		return req
	}
	out := make([][]string, len(req))
	for i, disj := range req {
		for _, s := range disj {
			out[i] = append(out[i], paramRe.ReplaceAllStringFunc(s, func(x string) string {
				n := paramRe.FindStringSubmatch(x)[1]
				for j, o := range ord {
					if o == n {
						return "Param(" + m.Fn.Params[j].Name() + ")"
					}
				}
				return x
			}))
		}
	}
	return out
}

// gateRule: every effect of m is gated, at every normal exit, by each required
// disjunction of T-witness (DESIGN §4). Shared: C03 runs it for every non-safe
// method, other properties re-run it for the methods their statement names.
func gateRule(cx *CheckCtx, m *Method) (req [][]string, inTable bool, effs []*Site, a *Analysis) {
	w := cx.W
	key := m.String()
	a = cx.analyze(&Query{Name: "gates", Root: m.Fn})
	effs = a.RealEffects()
	req, inTable = tWitness[key]
	req = retargetParams(m, req)
	if !inTable {
		// default obligation: every effect is gated by some witness
		cx.Notes = append(cx.Notes, "unclassified method "+key)
		req = [][]string{{"*"}}
	}
	subjects := allWitnessSubjects(a)
	cx.count("effect_sites", len(effs))
	if len(effs) == 0 {
		cx.holds("gate", key, "no effect site reachable")
	}
	for _, s := range effs {
		okAll := true
		for _, disj := range req {
			lits := witnessLits(a, disj)
			ok, ex := gated(a, s, lits)
			if ok {
				continue
			}
			okAll = false
			// diagnose: what does gate this effect?
			var have []string
			for id, sub := range subjects {
				if g, _ := gated(a, s, []int32{id}); g {
					have = append(have, sub)
				}
			}
			sort.Strings(have)
			detail := fmt.Sprintf("%s reaches %s on a path to the normal exit at %s without the required witness %s", key, effectDesc(a, s), exitPos(w, ex), strings.Join(disj, " ∨ "))
			if len(have) > 0 {
				detail += "; witnesses that do gate it: " + strings.Join(have, ", ")
			}
			for _, sub := range subjects {
				if strings.HasPrefix(sub, "MULTISIG?") {
					detail += "; " + sub
					break
				}
			}
			cx.violated("gate", key+"/"+siteConstruct(a, s), detail, s.Where(w), "required: "+strings.Join(disj, " ∨ "), "effect: "+s.Where(w), "exit: "+exitPos(w, ex))
		}
		if okAll {
			cx.holds("gate", key+"/"+siteConstruct(a, s), "gated by "+reqString(req))
			if len(cx.Samples) < 6 {
				cx.sample(map[string]string{"method": key, "effect": effectDesc(a, s), "at": s.Where(w), "obligation": "every normal exit entails ¬executed ∨ " + reqString(req)})
			}
		}
	}
	return
}

// coincideLits: the literals ⌊2·len(K)/3⌋ = ⌊len(K)/2⌋ (with or without the +1 on both sides) for the lists
// the analysis talks about: for such a size the two multi-signature accounts over K are the same account.
func coincideLits(a *Analysis) []int32 {
	tb := a.tb
	seen := map[*Term]bool{}
	var lens []*Term
	for _, l := range a.lt.lits {
		for _, t := range []*Term{l.A, l.B} {
			if t == nil {
				continue
			}
			t.walk(func(x *Term) bool {
				if x.Op == "len" && !seen[x] {
					seen[x] = true
					lens = append(lens, x)
				}
				return true
			})
		}
	}
	one := tb.constInt(1)
	var out []int32
	for _, n := range lens {
		t23 := tb.binop(token.QUO, tb.binop(token.MUL, n, tb.constInt(2), intType), tb.constInt(3), intType)
		t12 := tb.binop(token.QUO, n, tb.constInt(2), intType)
		out = append(out, a.eqLit(t23, t12), a.eqLit(tb.binop(token.ADD, t23, one, intType), tb.binop(token.ADD, t12, one, intType)))
	}
	return out
}
