package main

// Thorough tier (DESIGN §14): the quick rules plus (i) a cross-validation that
// contract code contains no dynamic call (so the inlined graphs are exact) and
// (ii) the seeded-corpus self-test on scratch copies of the working tree. The
// self-test is informational: it never changes the exit status of the check
// on /repo itself.

import (
	"encoding/json"
	"fmt"
	"os"
	"os/exec"
	"path/filepath"
	"sort"
	"strings"
	"sync"

	"golang.org/x/tools/go/ssa"
)

// noDynamicCalls: every call instruction in contracts/ and common/ resolves
// statically (or is a builtin).
func noDynamicCalls(cx *CheckCtx) {
	w := cx.W
	nCalls, nFuncs := 0, 0
	var dyn []string
	visit := func(f *ssa.Function) {
		if f.Blocks == nil {
			return
		}
		nFuncs++
		for _, b := range f.Blocks {
			for _, ins := range b.Instrs {
				ci, ok := ins.(ssa.CallInstruction)
				if !ok {
					continue
				}
				nCalls++
				com := ci.Common()
				if _, isB := com.Value.(*ssa.Builtin); isB {
					continue
				}
				if com.StaticCallee() == nil {
					dyn = append(dyn, w.pos(ins.Pos()))
				}
			}
		}
	}
	for _, p := range w.Pkgs {
		rel := strings.TrimPrefix(p.PkgPath, modPrefix)
		if !(strings.HasPrefix(rel, "contracts/") || rel == "common") || strings.HasPrefix(rel, "contracts/") && strings.Count(rel, "/") > 2 {
			continue
		}
		sp := w.Prog.Package(p.Types)
		if sp == nil {
			continue
		}
		for _, fn := range allFuncs(sp) {
			visit(fn)
		}
	}
	cx.count("call_instructions_cross_validated", nCalls)
	cx.count("functions_cross_validated", nFuncs)
	if len(dyn) == 0 {
		cx.holds("call-resolution", "contracts+common", fmt.Sprintf("%d call instructions in %d functions all resolve statically: the inlined graphs are exact", nCalls, nFuncs))
	} else {
		sort.Strings(dyn)
		cx.undecided("call-resolution", "contracts+common", "contract code calls through a function value or an interface at "+strings.Join(dyn, ", ")+": the inlined graph is not exact there", dyn[0])
	}
}

type selfTestResult struct {
	Seed     string   `json:"seed"`
	Expected string   `json:"expected"`
	Outcome  string   `json:"outcome"` // fired | silent | skipped
	Rules    []string `json:"rules,omitempty"`
	Note     string   `json:"note,omitempty"`
}

// selfTest applies every seeded change of the property to a scratch copy of
// the working tree and runs the quick check there.
func selfTest(cx *CheckCtx) []selfTestResult {
	var out []selfTestResult
	if os.Getenv("NFS_NO_SELFTEST") != "" {
		return out
	}
	vd := verifDir()
	metas, _ := filepath.Glob(filepath.Join(vd, "seeded", "*", "meta.json"))
	sort.Strings(metas)
	var mine []string
	exp := map[string]string{}
	for _, m := range metas {
		var d struct {
			Property string `json:"property"`
			Expected string `json:"expected"`
		}
		b, err := os.ReadFile(m)
		if err != nil || json.Unmarshal(b, &d) != nil || d.Property != cx.ID {
			continue
		}
		dir := filepath.Dir(m)
		mine = append(mine, dir)
		exp[dir] = d.Expected
	}
	// behaviour-preserving refactorings that must leave the check silent
	bmetas, _ := filepath.Glob(filepath.Join(vd, "benign", "*", "meta.json"))
	sort.Strings(bmetas)
	for _, m := range bmetas {
		var d struct {
			Properties []string `json:"properties"`
		}
		b, err := os.ReadFile(m)
		if err != nil || json.Unmarshal(b, &d) != nil {
			continue
		}
		for _, p := range d.Properties {
			if p == cx.ID {
				dir := filepath.Dir(m)
				mine = append(mine, dir)
				exp[dir] = "silent"
			}
		}
	}
	if len(mine) == 0 {
		return out
	}
	tmp, err := os.MkdirTemp("", "nfsverif-selftest-")
	if err != nil {
		return append(out, selfTestResult{Seed: "*", Outcome: "skipped", Note: err.Error()})
	}
	defer os.RemoveAll(tmp)
	self, _ := os.Executable()
	tverif := filepath.Join(tmp, "verif")
	os.MkdirAll(filepath.Join(tverif, "bin"), 0o755)
	os.Symlink(filepath.Join(vd, "bin", "c15check"), filepath.Join(tverif, "bin", "c15check"))
	if b, err := os.ReadFile(filepath.Join(vd, "known_findings.json")); err == nil {
		os.WriteFile(filepath.Join(tverif, "known_findings.json"), b, 0o644)
	}
	runOn := func(repo string) (int, []string) {
		cmd := exec.Command(self, "check", cx.ID, "--tier", "quick")
		cmd.Env = append(os.Environ(), "NFS_REPO="+repo, "NFS_VERIF="+tverif, "NFS_NO_SELFTEST=1")
		b, _ := cmd.Output()
		code := 0
		if cmd.ProcessState != nil {
			code = cmd.ProcessState.ExitCode()
		}
		rules := map[string]bool{}
		for _, l := range strings.Split(string(b), "\n") {
			if strings.HasPrefix(l, "VIOLATED rule=") || strings.HasPrefix(l, "UNDECIDED rule=") {
				f := strings.Fields(l)
				rules[strings.TrimPrefix(f[1], "rule=")] = true
			}
		}
		var rs []string
		for r := range rules {
			rs = append(rs, r)
		}
		sort.Strings(rs)
		return code, rs
	}
	copyTree := func(dst string) error {
		return exec.Command("rsync", "-a", "--exclude", ".git", cx.W.Repo+"/", dst+"/").Run()
	}
	// the unmodified copy must be silent
	clean := filepath.Join(tmp, "clean")
	if err := copyTree(clean); err != nil {
		return append(out, selfTestResult{Seed: "*", Outcome: "skipped", Note: "cannot copy the working tree: " + err.Error()})
	}
	if code, rs := runOn(clean); code != 0 {
		out = append(out, selfTestResult{Seed: "(unmodified copy)", Expected: "silent", Outcome: "fired", Rules: rs, Note: "the working tree itself is not clean; seeds are not meaningful"})
		return out
	}
	out = append(out, selfTestResult{Seed: "(unmodified copy)", Expected: "silent", Outcome: "silent"})
	os.RemoveAll(clean)
	// the copies are independent: run them six at a time
	results := make([]selfTestResult, len(mine))
	sem := make(chan struct{}, 6)
	var wg sync.WaitGroup
	for i, dir := range mine {
		wg.Add(1)
		go func(i int, dir string) {
			defer wg.Done()
			sem <- struct{}{}
			defer func() { <-sem }()
			name := filepath.Base(dir)
			if filepath.Base(filepath.Dir(dir)) == "benign" {
				name = "benign/" + name
			}
			work := filepath.Join(tmp, strings.ReplaceAll(name, "/", "_"))
			defer os.RemoveAll(work)
			if err := copyTree(work); err != nil {
				results[i] = selfTestResult{Seed: name, Expected: exp[dir], Outcome: "skipped", Note: err.Error()}
				return
			}
			ap := exec.Command("git", "apply", filepath.Join(dir, "patch.diff"))
			ap.Dir = work
			if err := ap.Run(); err != nil {
				results[i] = selfTestResult{Seed: name, Expected: exp[dir], Outcome: "skipped", Note: "patch no longer applies to the working tree"}
				return
			}
			code, rs := runOn(work)
			res := selfTestResult{Seed: name, Expected: exp[dir], Outcome: "silent", Rules: rs}
			if code != 0 {
				res.Outcome = "fired"
			}
			results[i] = res
		}(i, dir)
	}
	wg.Wait()
	out = append(out, results...)
	return out
}
