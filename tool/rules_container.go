package main

// C04, C05, C14 — the Container contract (DESIGN §5).

import (
	"fmt"
	"go/ast"
	"go/constant"
	"go/token"
	"go/types"
	"os"
	"strings"

	"golang.org/x/tools/go/ssa"
)

func init() {
	register(&Check{
		ID:        "C04",
		Level:     "other",
		Technique: "storage-layout analysis (key families of every Put/Delete/Find from canonical key terms): who-may-delete, writer/remover agreement, paired indices; must-facts for tombstone/existence guards; notification/effect equivalence at exits",
		Explanation: "D1 the registry key is 'x'‖sha256(blob) and the stored value contains that blob; D2 the put path is reachable only with the tombstone 'd'‖id read as absent, delete writes 'd'‖id and no method (incl. the migration, shown by key-length facts) deletes family 'd'; " +
			"D3 every family keyed by the container id that a put path can populate (x, o, eACL, nnsHasAlias, m) is deleted by Delete with the same id term on every effectful path (the alias: or was read empty), and the NNS deleteRecords call is made whenever the alias was non-empty; D4 the owner component of the 'o' key is produced by the same function of the blob at put time (submitted blob) and at delete/owner time (stored blob), 'x' and 'o' are written and deleted together; " +
			"D5 Get, Owner, Alias, EACL, SetEACL, PutContainerSize reach a normal exit only with 'container exists' established; D6 PutSuccess/DeleteSuccess/SetEACLSuccess are emitted at one site each, outside loops, exactly on the paths that perform the state change, first argument = the container id, no other emitter. M: delete removes exactly when the owner lookup found an owner; list/containersOf scan the owner's ids for a non-empty owner and all ids for an empty one; the meta flag is written exactly when metaOnChain is set; loaders of the blob and the eACL. R6: the id-keyed families are deleted only from Delete (registry and owner index also by the layout migration). R8: arguments of a contract.Call that resolves to a method of this repository stand at the position of the parameter their name is meant for (defaultExpire/defaultTTL). R10: every normal return of SetEACL has stored the submission and announced it. R11: every normal return of a put has emitted PutSuccess (also a repetition that finds its submission stored); emitters are stated per entry point; a write skipped because the stored value is known equal to the value that would be stored counts as done. R13 catching-frame: no function with a deferred recover that a method of the property's contracts can reach lies outside the who-may-catch table (container.deleteNNSRecords).",
		NotCovered: "equality of the read API with a reference model over interleavings, NNS-side effects of alias cleanup, parsing of blobs with unusual version-field offsets (value level).",
		Run:        runC04,
	})
	register(&Check{
		ID:        "C05",
		Level:     "other",
		Technique: "term agreement and must-facts at the fee transfer call site; loop-shape analysis (one call per Alphabet key, no early exit); dominance of the registry write by the loop exit",
		Explanation: "D1 the amount argument of the transferX call in PutNamed equals Ext(netmap,config,ContainerFee) when name == \"\" and ContainerFee + ContainerAliasFee when name != \"\" (the same predicate controls the alias registration), and is loop-invariant; " +
			"D2 the call sits in a range loop over the committee keys with no exit other than exhaustion, to = CreateStandardAccount(element), from = the script hash of the owner parsed from the blob, details = 0x10‖id; D3 the registry write is dominated by the loop exit, no exception-catching frame encloses the calls, and balance.TransferX cannot return normally from a refused transfer (C01). D4 every normal return of netmap.SetConfig has stored the submitted value (a fee of 0 included). D5 the debit/credit leg rules of balance's transfer helper (C01) are re-run: payer = payee included. R7: every integer-to-bytes encoder of package deploy returns the output of neo-go's VM integer codec (the contracts read the deployed settings back as VM integers). R10: every normal return of PutNamed that charged the fee has stored the container. R11: an unpayable put faults: the full amount (amount × keys) is established before the fee loop or a refused balance.transferX faults (one of the two, today both). R13 catching-frame: no function with a deferred recover that a method of the property's contracts can reach lies outside the who-may-catch table (container.deleteNNSRecords).",
		NotCovered: "numeric exactness at the balance boundary is delegated to C01 (Balance ≥ amount guard) and VM atomicity.",
		Run:        runC05,
	})
	register(&Check{
		ID:        "C14",
		Level:     "other",
		Technique: "typestate/loop-shape analysis of the counting loop (membership test dominates acceptance, insertion on the counting path, collection scope), key-schema analysis of the roster families, must-facts at the acceptance and notification sites",
		Explanation: "D1 roster keys are 'u'|'n' ‖ cid(32, guarded) ‖ vector(1) ‖ counter and 'r' ‖ cid ‖ index: scans per cid / (cid, vector) are exact; D2 CommitContainerListUpdate deletes every old 'n' and 'r' key of the cid, and for every scanned 'u' key deletes it and puts 'n'‖key[1:] with the same value, the old-'n' scan preceding the first 'n' put; " +
			"D3 distinct-principal counting: in VerifyPlacementSignatures the signature check is reachable only through the exhausted exit of a membership loop comparing the candidate member key with a collection that outlives one signature iteration and is initialised per vector; the member key is inserted and the counter incremented only on the success branch; D3b a vector is accepted only under counter == REP read from family 'r' of the same cid, the nodes are scanned for the same vector index that selects sigs[i], and true is returned only after the REP scan is exhausted; " +
			"D4 SubmitObjectPut notifies only if VerifyPlacementSignatures(cid read from the meta map, the meta bytes, the signatures) returned true and the meta flag of that cid is present. D6 each of the five loops of the commit is reached on every normal path (REP writes only for a non-nil list), ends only on exhaustion and no iteration goes round its operation. D7 the candidate member is an item of the scan of this vector's members only (a candidate list must start empty inside the per-vector loop and receive only items of that scan). M: counting, insertion and acceptance are guarded by the right side of their tests (edge-guard instead of dominance); the roster counter starts at the decoded last pending key exactly when there is one and at 0 otherwise, +1 per item. R6: a REP number is stored under its position in the submitted list. R9: the signatures of a vector are examined from sigs[i][0] to sigs[i][len−1]; a vector is refused for its length only below REP. R13 catching-frame: no function with a deferred recover that a method of the property's contracts can reach lies outside the who-may-catch table (container.deleteNNSRecords).",
		NotCovered: "the BE16 counter encoding across 127/255/256 (counterToBytes/counterFromBytes are value-level byte manipulations), submission order equality with a model.",
		Run:        runC14,
	})
}

const cnrPkg = "contracts/container"

// ownerOfBlob: the term of ownerFromBinaryContainer applied to blob.
func ownerOfBlob(tb *TermBuilder, blob *Term) *Term {
	off := tb.mk("index", "", 0, blob, tb.constInt(1))
	lo := tb.binop(token.ADD, off, tb.constInt(6), intType)
	hi := tb.binop(token.ADD, off, tb.constInt(31), intType)
	return tb.mk("slice", "", 0, blob, lo, hi)
}

func containerExistsAt(a *Analysis, st *CNF, cid *Term) bool {
	tb := a.tb
	xkey := tb.cat(tb.constBytes("x"), cid)
	for _, f := range a.unitFacts(st) {
		switch {
		case f.kind == KNil && !f.pos && f.A != nil:
			// ¬Nil(owner) where owner derives from the stored blob of cid
			for _, alt := range tb.Alts(f.A) {
				if alt.Op == "slice" {
					blob := alt.Args[0]
					if blob.Op == "field" && blob.Name == "Value" {
						if k, ok := recordOf(tb, blob.Args[0]); ok && k == xkey {
							return true
						}
					}
				}
			}
		case f.kind == KEqC && !f.pos && f.C == 0 && f.A != nil && f.A.Op == "len":
			v := f.A.Args[0]
			if v.Op == "field" && v.Name == "Value" {
				if k, ok := recordOf(tb, v.Args[0]); ok && k == xkey {
					return true
				}
			}
		}
	}
	return false
}

func runC04(cx *CheckCtx) {
	w := cx.W
	checkLoaders(cx, cnrPkg)
	// the alias domain is registered with the settings it is meant to have (its lifetime decides whether
	// Delete finds a record to remove)
	checkCallArgRoles(cx, "container", "alias-paired")
	c := cx.contract("container")
	if c == nil {
		return
	}
	idFamilies := []string{"x", "o", "eACL", "nnsHasAlias", "m"}
	// ---- put path (PutNamed is the single implementation; Put/PutMeta delegate)
	var putOwner *Term
	if m := cx.method("container", "PutNamed"); m != nil {
		a := cx.run(m)
		tb := a.tb
		blob := paramTerm(tb, m, "container")
		id := tb.mk("call", "native/crypto.Sha256", 0, blob)
		var xPut, oPut, notif *Site
		for _, s := range a.Effects() {
			switch {
			case s.Effect == "put" && keyFamily(s.Args[1]) == "x":
				xPut = s
			case s.Effect == "put" && keyFamily(s.Args[1]) == "o":
				oPut = s
			case notifyName(s) == "PutSuccess":
				notif = s
			}
		}
		if xPut == nil || oPut == nil || notif == nil {
			cx.violated("id-derivation", "container.PutNamed", "PutNamed no longer writes the registry ('x'), the owner index ('o') and PutSuccess", w.pos(m.Fn.Pos()))
		} else {
			v := unserialize(xPut.Args[2])
			cx.decide(xPut.Args[1] == tb.cat(tb.constBytes("x"), id) && tb.field(v, "Value") == blob, "id-derivation", "container.PutNamed/x",
				"key 'x'‖sha256(blob), value contains the blob", "the registry entry is stored under "+xPut.Args[1].pretty()+" with value "+v.pretty()+": get(id) would not return the blob whose SHA-256 is id", xPut.Where(w))
			putOwner = ownerOfBlob(tb, blob)
			cx.decide(oPut.Args[1] == tb.cat(tb.constBytes("o"), putOwner, id) && oPut.Args[2] == id, "paired-index", "container.PutNamed/o",
				"owner index 'o'‖owner(blob)‖id → id", "the owner index entry is "+oPut.Args[1].pretty()+" → "+oPut.Args[2].pretty()+", expected 'o'‖owner(blob)‖sha256(blob) → id", oPut.Where(w))
			// D2 tombstone checked absent before the registry write
			dkey := tb.cat(tb.constBytes("d"), id)
			okT := false
			for _, f := range a.unitFacts(xPut.In) {
				if f.kind == KNil && f.pos && f.A.Op == "read" && f.A.Args[0] == dkey {
					okT = true
				}
			}
			cx.decide(okT, "tombstone", "container.PutNamed/check", "the tombstone 'd'‖id is read as absent on every path to the registry write", "a container can be registered without the tombstone of its id being checked: a deleted id can be replayed", xPut.Where(w))
			// alias entry and NNS record go together (Delete finds the record to remove only through the alias entry)
			var aliasPut, addRec *Site
			for _, s := range a.Effects() {
				if s.Effect == "put" && keyFamily(s.Args[1]) == "nnsHasAlias" {
					aliasPut = s
				}
				if s.Effect == "call" && len(s.Args) >= 4 {
					if n, _ := s.Args[1].BytesConst(); n == "addRecord" {
						addRec = s
					}
				}
			}
			if aliasPut == nil || addRec == nil {
				cx.violated("alias-paired", "container.PutNamed/alias", "PutNamed no longer stores the alias entry together with the NNS record", w.pos(m.Fn.Pos()))
			} else {
				ok := aliasPut.Args[1] == tb.cat(tb.constBytes("nnsHasAlias"), id)
				dom := addRec.Args[3]
				okV := dom.Op == "arr" && len(dom.Args) == 3 && a.canonAt(aliasPut, aliasPut.Args[2]) == a.canonAt(aliasPut, dom.Args[0])
				cx.decide(ok && okV, "alias-paired", "container.PutNamed/alias/key", "'nnsHasAlias'‖id → the domain the record is added to", "the alias entry is "+aliasPut.Args[1].pretty()+" → "+aliasPut.Args[2].pretty()+" while the NNS record is added to "+dom.pretty(), aliasPut.Where(w))
				both := true
				for _, ex := range a.Exits() {
					if !a.holdsAt(ex.State, -a.eLit(addRec), a.eLit(aliasPut)) || !a.holdsAt(ex.State, -a.eLit(aliasPut), a.eLit(addRec)) {
						both = false
					}
				}
				cx.decide(both, "alias-paired", "container.PutNamed/alias/always", "the alias entry is stored exactly when the NNS record is added", "a named container can get its NNS record without the alias entry (or vice versa): alias(id) is empty and Delete never removes the record, so the name stays taken for ever", aliasPut.Where(w))
				okRec := dom.Op == "arr" && len(dom.Args) == 3 && dom.Args[2] == tb.mk("call", "native/std.Base58Encode", 0, id)
				if okRec {
					t, _ := dom.Args[1].IntConst()
					okRec = t == 16
				}
				cx.decide(okRec, "alias-paired", "container.PutNamed/alias/record", "TXT record = base58(id)", "the NNS record does not carry the id of the container being registered", addRec.Where(w))
			}
			// D6
			args := notifyArgs(notif)
			cx.decide(len(args) >= 1 && args[0] == id, "notify", "container.PutNamed/PutSuccess/arg", "names the container id", "PutSuccess names "+termList(args)+" instead of the id", notif.Where(w))
			checkNotifyEquiv(cx, a, "container.PutNamed/PutSuccess", notif, xPut)
			// "each successful put emits exactly one PutSuccess": also the put that finds its submission stored already
			cx.decide(executedAtEveryExit(a, notif), "notify", "container.PutNamed/PutSuccess/always", "every normal return of a put has announced it", "a put can return normally without PutSuccess (a repetition taken for 'already stored' is accepted, charged and not announced)", notif.Where(w))
		}
	}
	// Put and PutMeta delegate to PutNamed with their own blob
	for _, n := range []string{"Put", "PutMeta"} {
		if m := cx.method("container", n); m != nil {
			a := cx.run(m)
			tb := a.tb
			blob := paramTerm(tb, m, "container")
			id := tb.mk("call", "native/crypto.Sha256", 0, blob)
			ok := false
			for _, s := range a.Effects() {
				if s.Effect == "put" && keyFamily(s.Args[1]) == "x" && s.Args[1] == tb.cat(tb.constBytes("x"), id) && inFrame(s, cnrPkg+".PutNamed") {
					ok = true
				}
			}
			cx.decide(ok, "id-derivation", "container."+n+"/delegates", "registers through PutNamed under sha256 of its own blob", n+" does not register its blob through PutNamed", w.pos(m.Fn.Pos()))
			if n == "PutMeta" {
				for _, s := range a.Effects() {
					if s.Effect == "put" && keyFamily(s.Args[1]) == "m" {
						cx.decide(s.Args[1] == tb.cat(tb.constBytes("m"), id), "id-derivation", "container.PutMeta/m", "meta flag keyed by the same id", "the meta flag is stored under "+s.Args[1].pretty()+", not under the id of the container being registered", s.Where(w))
					}
				}
			}
		}
	}
	// ---- delete path
	// count: one per key of the scan of the registry, starting at 0
	if m := cx.method("container", "Count"); m != nil {
		a := cx.run(m)
		tb := a.tb
		ok := len(a.Exits()) > 0
		for _, ex := range a.Exits() {
			if len(ex.Results) != 1 || ex.Results[0].Op != "phi" {
				ok = false
				continue
			}
			c := ex.Results[0]
			zero, step := false, false
			for _, al := range tb.Alts(c) {
				if n, isC := al.IntConst(); isC && n == 0 {
					zero = true
				} else if al == tb.binop(token.ADD, c, tb.constInt(1), intType) {
					step = true
				} else {
					ok = false
				}
			}
			exh := false
			for _, f := range a.unitFacts(ex.State) {
				if f.kind == KB && !f.pos && f.A.Op == "iternext" && f.A.Args[0].Op == "find" && keyFamily(f.A.Args[0].Args[0]) == "x" {
					exh = true
				}
			}
			ok = ok && zero && step && exh
		}
		cx.decide(ok, "getter-key", "container.Count", "0 plus one per key of the exhausted scan of the registry", "count() is not the number of registered containers", w.pos(m.Fn.Pos()))
	}
	// putMeta: the meta flag of the id is written exactly when metaOnChain is set
	if m := cx.method("container", "PutMeta"); m != nil {
		a := cx.run(m)
		flag := paramTerm(a.tb, m, "metaOnChain")
		var mPut *Site
		for _, s := range a.RealEffects() {
			if s.Effect == "put" && keyFamily(s.Args[1]) == "m" {
				mPut = s
			}
		}
		ok := mPut != nil && a.holdsAt(mPut.In, a.litB(flag))
		if ok {
			for _, ex := range a.Exits() {
				if !a.holdsAt(ex.State, a.eLit(mPut), -a.litB(flag)) {
					ok = false
				}
			}
		}
		cx.decide(ok, "paired-index", "container.PutMeta/flag", "the meta flag is written exactly when metaOnChain is set", "putMeta writes the meta flag for metaOnChain = false (or not for true): object meta submissions are accepted/refused for the wrong containers", w.pos(m.Fn.Pos()))
	}
	// list / containersOf: the owner's ids for a non-empty owner, all ids for an empty one
	if m := cx.method("container", "ContainersOf"); m != nil {
		a := cx.run(m)
		tb := a.tb
		owner := paramTerm(tb, m, "owner")
		ok := len(a.Exits()) > 0
		for _, ex := range a.Exits() {
			if len(ex.Results) != 1 || ex.Results[0].Op != "find" {
				ok = false
				continue
			}
			k := ex.Results[0].Args[0]
			empty := a.litEqC(a.litLen(owner), 0)
			all, own := tb.constBytes("o"), tb.cat(tb.constBytes("o"), owner)
			if !(k == own || (a.holdsAt(ex.State, empty, a.eqLit(k, own)) && a.holdsAt(ex.State, -empty, a.eqLit(k, all)))) {
				ok = false
			}
		}
		cx.decide(ok, "getter-key", "container.ContainersOf", "scans 'o'‖owner for a non-empty owner and 'o' for an empty one", "containersOf(owner) does not enumerate exactly that owner's ids (all ids for an empty owner)", w.pos(m.Fn.Pos()))
	}
	if m := cx.method("container", "List"); m != nil {
		a := cx.run(m)
		tb := a.tb
		owner := paramTerm(tb, m, "owner")
		empty := a.litEqC(a.litLen(owner), 0)
		ok := len(a.Exits()) > 0
		for _, ex := range a.Exits() {
			// the scan the result was collected from: the exhausted iterator of the exit
			var pre *Term
			for _, f := range a.unitFacts(ex.State) {
				if f.kind == KB && !f.pos && f.A.Op == "iternext" && f.A.Args[0].Op == "find" {
					pre = f.A.Args[0].Args[0]
				}
			}
			switch {
			case pre == nil:
				ok = false
			case pre == tb.cat(tb.constBytes("o"), owner):
				ok = ok && a.holdsAt(ex.State, -empty)
			case keyFamily(pre) == "x" || pre == tb.constBytes("o"):
				ok = ok && a.holdsAt(ex.State, empty)
			default:
				ok = false
			}
		}
		cx.decide(ok, "getter-key", "container.List", "collects the scan of 'o'‖owner for a non-empty owner and of all containers for an empty one", "list(owner) does not return exactly that owner's ids (all ids for an empty owner)", w.pos(m.Fn.Pos()))
	}
	if m := cx.method("container", "Delete"); m != nil {
		a := cx.run(m)
		tb := a.tb
		cid := paramTerm(tb, m, "containerID")
		var tomb, notif, nnsFrame *Site
		dels := map[string]*Site{}
		for _, s := range a.Effects() {
			switch {
			case s.Effect == "delete":
				dels[keyFamily(s.Args[1])] = s
			case s.Effect == "put" && keyFamily(s.Args[1]) == "d":
				tomb = s
			case notifyName(s) == "DeleteSuccess":
				notif = s
			case s.Effect == "frame":
				nnsFrame = s
			}
		}
		if tomb == nil || notif == nil {
			cx.violated("tombstone", "container.Delete/write", "Delete no longer writes the tombstone and DeleteSuccess", w.pos(m.Fn.Pos()))
		} else {
			cx.decide(tomb.Args[1] == tb.cat(tb.constBytes("d"), cid), "tombstone", "container.Delete/write", "writes 'd'‖id", "the tombstone is written under "+tomb.Args[1].pretty(), tomb.Where(w))
			for _, fam := range idFamilies {
				d := dels[fam]
				key := "container.Delete/" + fam
				if d == nil {
					cx.violated("writer-remover", key, "Delete does not remove family '"+fam+"' of the container: a trace of the deleted container stays readable", w.pos(m.Fn.Pos()))
					continue
				}
				// key term: fam ‖ [owner ‖] cid
				want := tb.cat(tb.constBytes(fam), cid)
				okKey := d.Args[1] == want
				if fam == "o" {
					ps := keyParts(d.Args[1])
					okKey = len(ps) == 3 && ps[2] == cid && ownerFromStored(tb, ps[1], cid, putOwner)
				}
				cx.decide(okKey, "writer-remover", key+"/key", "deletes the key built from the same id (and, for 'o', the owner parsed from the stored blob by the function used at put time)",
					"Delete removes "+d.Args[1].pretty()+" which is not the key the put path wrote for this container", d.Where(w))
				// executed on every path that writes the tombstone
				okAll := true
				for _, ex := range a.Exits() {
					lits := []int32{-a.eLit(tomb), a.eLit(d)}
					if fam == "nnsHasAlias" {
						// or the alias was read empty
						for _, f := range a.lt.lits {
							if f.Kind == KEqC && f.C == 0 && f.A != nil && f.A.Op == "len" && f.A.Args[0].Op == "read" && f.A.Args[0].Args[0] == want {
								lits = append(lits, a.lt.id(f))
							}
						}
					}
					if !a.holdsAt(ex.State, lits...) {
						okAll = false
					}
				}
				cx.decide(okAll, "writer-remover", key+"/always", "removed on every path that writes the tombstone", "a path writes the tombstone without removing family '"+fam+"': the deleted container stays visible through it", d.Where(w))
			}
			// NNS cleanup whenever the alias delete happened
			if dels["nnsHasAlias"] != nil {
				ok := nnsFrame != nil
				if ok {
					for _, ex := range a.Exits() {
						if !a.holdsAt(ex.State, -a.eLit(dels["nnsHasAlias"]), a.eLit(nnsFrame)) {
							ok = false
						}
					}
				}
				cx.decide(ok, "writer-remover", "container.Delete/nns-record", "the NNS record cleanup is attempted whenever the alias is removed", "the alias of a deleted container is dropped without asking NNS to delete its record: the name stays taken", w.pos(m.Fn.Pos()))
				if ok {
					// the cleanup targets the alias domain read from storage with the TXT type
					okArg := false
					for _, s := range a.Effects() {
						if s.Effect == "call" && len(s.Args) >= 4 {
							if n, _ := s.Args[1].BytesConst(); n == "deleteRecords" && s.Args[3].Op == "arr" && len(s.Args[3].Args) == 2 {
								dom := s.Args[3].Args[0]
								typ, _ := s.Args[3].Args[1].IntConst()
								okArg = dom.Op == "read" && dom.Args[0] == tb.cat(tb.constBytes("nnsHasAlias"), cid) && typ == 16
							}
						}
					}
					cx.decide(okArg, "writer-remover", "container.Delete/nns-record/args", "deleteRecords(alias read from 'nnsHasAlias'‖id, TXT)", "the NNS cleanup does not delete the TXT records of the alias stored for this container", w.pos(m.Fn.Pos()))
				}
			}
			args := notifyArgs(notif)
			cx.decide(len(args) >= 1 && args[0] == cid, "notify", "container.Delete/DeleteSuccess/arg", "names the container id", "DeleteSuccess names "+termList(args), notif.Where(w))
			checkNotifyEquiv(cx, a, "container.Delete/DeleteSuccess", notif, tomb)
			// a live container is removed, and only a live one: the removal happens exactly when the
			// owner lookup of the id found an owner
			okLive, whyLive := false, "Delete does not branch on the owner lookup of the id"
			for _, ls := range a.Sites(func(s *Site) bool {
				return s.Inlined && s.Ctx.parent == nil && len(s.Args) == 2 && s.Args[1] == cid && s.Val != nil
			}) {
				t := ls.Val
				okLive, whyLive = true, ""
				if !a.holdsAt(tomb.In, -a.litNil(t)) {
					okLive, whyLive = false, "the removal runs for an id whose owner lookup found nothing"
				}
				for _, ex := range a.Exits() {
					if !a.holdsAt(ex.State, a.eLit(tomb), a.litNil(t)) {
						okLive, whyLive = false, "Delete can return normally for a live container without removing it"
					}
				}
			}
			cx.decide(okLive, "tombstone", "container.Delete/live", "the removal happens exactly when the owner lookup of the id found an owner", whyLive, tomb.Where(w))
		}
		// the silent early return has no effect: covered by C03 (all effects gated) — here: missing container ⇒ no effect
	}
	// ---- SetEACL
	if m := cx.method("container", "SetEACL"); m != nil {
		a := cx.run(m)
		var put, notif *Site
		for _, s := range a.Effects() {
			if s.Effect == "put" && keyFamily(s.Args[1]) == "eACL" {
				put = s
			}
			if notifyName(s) == "SetEACLSuccess" {
				notif = s
			}
		}
		if put == nil || notif == nil {
			cx.violated("notify", "container.SetEACL", "SetEACL no longer stores the table and emits SetEACLSuccess", w.pos(m.Fn.Pos()))
		} else {
			id := keyRest(a.tb, put.Args[1])
			args := notifyArgs(notif)
			cx.decide(len(args) >= 1 && args[0] == id, "notify", "container.SetEACL/SetEACLSuccess/arg", "names the id the table is stored under", "SetEACLSuccess names "+termList(args)+" while the table is stored under "+id.pretty(), notif.Where(w))
			checkNotifyEquiv(cx, a, "container.SetEACL/SetEACLSuccess", notif, put)
			cx.decide(containerExistsAt(a, put.In, id), "exists-guard", "container.SetEACL", "stores only for an existing container", "an eACL table can be stored for a container id that is not live: it survives as a trace and reappears if the id is ever registered", put.Where(w))
			v := unserialize(put.Args[2])
			// the id is the container id field of the table: eACL[2+eACL[1]+4 : … + 32]
			{
				tb := a.tb
				e := paramTerm(tb, m, "eACL")
				off := tb.binop(token.ADD, tb.binop(token.ADD, tb.constInt(2), tb.mk("index", "", 0, e, tb.constInt(1)), intType), tb.constInt(4), intType)
				want := tb.mk("slice", "", 0, e, off, tb.binop(token.ADD, off, tb.constInt(32), intType))
				cx.decide(a.Canon(put.In, id) == want || id == want, "id-derivation", "container.SetEACL/id", "the table is stored under its own container id field eACL[6+eACL[1] : 38+eACL[1]]", "the eACL table is stored under "+id.pretty()+", not under the container id encoded in it", put.Where(w))
			}
			cx.decide(a.tb.field(v, "Value") == paramTerm(a.tb, m, "eACL"), "id-derivation", "container.SetEACL/value", "stores the submitted table", "the stored eACL value is "+v.pretty(), put.Where(w))
			// presence: "eACL returns what was set last" and "each successful setEACL emits exactly one": no
			// normal return without the store and the notification (a table equal to the stored one still
			// comes with a new signature, key and token)
			cx.decide(executedAtEveryExit(a, put, notif), "notify", "container.SetEACL/always", "every normal return has stored the submission and announced it", "SetEACL can return normally without storing the submitted table (with its signature, key and token) or without SetEACLSuccess: eACL(id) keeps answering with an earlier submission", put.Where(w))
		}
	}
	// ---- D5 getters
	for _, g := range []struct{ name, param string }{{"Get", "containerID"}, {"Owner", "containerID"}, {"Alias", "cid"}, {"EACL", "containerID"}, {"PutContainerSize", "cid"}} {
		m := cx.method("container", g.name)
		if m == nil {
			continue
		}
		a := cx.run(m)
		cid := paramTerm(a.tb, m, g.param)
		ok := true
		where := ""
		for _, ex := range a.Exits() {
			if !containerExistsAt(a, ex.State, cid) {
				ok = false
				where = exitPos(w, ex)
			}
		}
		cx.count("getters", 1)
		cx.decide(ok, "exists-guard", "container."+g.name, "reaches a normal exit only for a live container", g.name+" can return normally for an id that is not live (no 'not found')", where)
	}
	cx.floor("getters", 5)
	// getters read what the putter wrote
	if m := cx.method("container", "Alias"); m != nil {
		a := cx.run(m)
		ok := false
		for _, ex := range a.Exits() {
			for _, r := range ex.Results {
				if r.Op == "read" && r.Args[0] == a.tb.cat(a.tb.constBytes("nnsHasAlias"), paramTerm(a.tb, m, "cid")) {
					ok = true
				}
			}
		}
		cx.decide(ok, "getter-key", "container.Alias", "reads 'nnsHasAlias'‖id", "alias(id) does not read the key the put path writes", w.pos(m.Fn.Pos()))
	}
	// ---- who-may-delete 'd', single emitters, unknown deletes — over all methods and _deploy
	roots := append([]*Method{}, c.Methods...)
	if dm := cx.method("container", "_deploy"); dm != nil {
		roots = append(roots, dm)
	}
	nDel := 0
	for _, m := range roots {
		a := cx.run(m)
		for _, s := range a.Effects() {
			skey := "container." + m.GoName + "/" + siteConstruct(a, s)
			switch {
			case s.Effect == "delete":
				nDel++
				fam := keyFamily(s.Args[1])
				switch {
				case fam == "d" || strings.HasPrefix(fam, "d") && len(fam) == 1:
					cx.violated("tombstone-final", skey, "a tombstone key is deleted: the id could be registered again", s.Where(w))
				case fam == "":
					// opaque key: must be shown not to be a tombstone (33 bytes) by a length fact, or come from a scan of another family
					ok, why := notTombstoneKey(a, s)
					cx.decide(ok, "tombstone-final", skey, why, "a Delete with a key that cannot be shown to differ from a tombstone key ("+s.Args[1].pretty()+")", s.Where(w))
				default:
					cx.holds("tombstone-final", skey, "deletes family '"+fam+"'")
				}
				// by entry point: which ABI methods may reach a delete of an id-keyed family (confirmed by reading):
				// the registration families go with Delete (and the layout migration), nothing else forgets a container's data
				delOwner := map[string][]string{"x": {"Delete", "Remove", "_deploy"}, "o": {"Delete", "Remove", "_deploy"}, "eACL": {"Delete", "Remove"}, "nnsHasAlias": {"Delete", "Remove"}, "m": {"Delete", "Remove"}}
				if own, ok := delOwner[fam]; ok {
					in := false
					for _, f := range own {
						if m.GoName == f {
							in = true
						}
					}
					cx.decide(in, "who-may-delete", skey, "family '"+fam+"' deleted by its owner", "family '"+fam+"' is deleted outside "+strings.Join(own, "/")+": data of a live container (its eACL table, alias, registry or owner entry) can vanish without the container being deleted", s.Where(w))
				}
			case notifyName(s) == "PutSuccess":
				// stated per entry point (the put entry points all run PutNamed, decided above: argument, exactly on
				// the change, on every return); which function of the put path holds the Notify is not behaviour
				cx.decide(inFrame(s, cnrPkg+".PutNamed") && (m.GoName == "Put" || m.GoName == "PutNamed" || m.GoName == "PutMeta"), "single-emitter", skey, "emitted on the put path", "PutSuccess is emitted by "+m.GoName+" outside the put path", s.Where(w))
			case notifyName(s) == "DeleteSuccess":
				cx.decide(m.GoName == "Delete" || m.GoName == "Remove", "single-emitter", skey, "emitted on the delete path", "DeleteSuccess is emitted by "+m.GoName+", not by the delete entry points", s.Where(w))
			case notifyName(s) == "SetEACLSuccess":
				cx.decide(m.GoName == "SetEACL", "single-emitter", skey, "emitted on the setEACL path", "SetEACLSuccess is emitted by "+m.GoName+", not by SetEACL", s.Where(w))
			}
			// writes of id-keyed families outside their owners
			if s.Effect == "put" {
				fam := keyFamily(s.Args[1])
				// by entry point: which ABI methods may reach a write of the family (confirmed by reading)
				owner := map[string][]string{"x": {"Put", "PutNamed", "PutMeta", "_deploy"}, "o": {"Put", "PutNamed", "PutMeta", "_deploy"}, "d": {"Delete"}, "eACL": {"SetEACL"}, "nnsHasAlias": {"Put", "PutNamed", "PutMeta"}, "m": {"PutMeta"}}
				if own, ok := owner[fam]; ok {
					in := false
					for _, f := range own {
						if m.GoName == f {
							in = true
						}
					}
					cx.decide(in, "who-may-write", skey, "family '"+fam+"' written by its owner", "family '"+fam+"' is written outside "+strings.Join(own, "/")+": the live set can change without the put/delete protocol", s.Where(w))
				}
			}
		}
	}
	cx.count("delete_sites", nDel)
	cx.floor("delete_sites", 10)
}

// ownerFromStored: t is ownerOfBlob(stored blob of cid) (with the nil default
// of a missing container), using the same function shape as put time.
func ownerFromStored(tb *TermBuilder, t, cid, putOwner *Term) bool {
	ok := false
	for _, alt := range tb.Alts(t) {
		if alt.IsNil() {
			continue
		}
		if alt.Op != "slice" {
			return false
		}
		blob := alt.Args[0]
		if !(blob.Op == "field" && blob.Name == "Value") {
			return false
		}
		k, isRec := recordOf(tb, blob.Args[0])
		if !isRec || k != tb.cat(tb.constBytes("x"), cid) {
			return false
		}
		if alt != ownerOfBlob(tb, blob) {
			return false
		}
		ok = true
	}
	return ok
}

// notTombstoneKey: the key of this delete is the key of a scanned item whose
// length is known to differ from 33, or comes from a scan with a constant
// non-'d' prefix.
func notTombstoneKey(a *Analysis, s *Site) (bool, string) {
	k := s.Args[1]
	for _, f := range a.unitFacts(s.In) {
		if f.kind == KEqC && f.pos && f.A != nil && f.A.Op == "len" && f.A.Args[0] == k && f.C != 33 {
			return true, fmt.Sprintf("len(key) == %d ≠ 33 established", f.C)
		}
	}
	// key (or struct field key) of an iterator over a scan with constant prefix
	base := k
	if base.Op == "field" {
		base = base.Args[0]
	}
	if base.Op == "iterval" && base.Args[0].Op == "find" {
		fam := keyFamily(base.Args[0].Args[0])
		if fam != "" && !strings.HasPrefix("d", fam) && !strings.HasPrefix(fam, "d") {
			return true, "key comes from a scan of family '" + fam + "'"
		}
	}
	return false, ""
}

// identicalStored: the literals "the value read from the put's key equals the value the put would store"
// known to the analysis (a re-submission that is byte-identical to what is stored may skip the write: the
// store would change nothing).
func identicalStored(a *Analysis, put *Site) []int32 {
	var out []int32
	if put == nil || len(put.Args) < 3 {
		return out
	}
	strip := func(t *Term) *Term {
		for t != nil && (t.Op == "tobytes" || t.Op == "conv" || t.Op == "tostring") && len(t.Args) == 1 {
			t = t.Args[0]
		}
		return t
	}
	val := strip(put.Args[2])
	for i, l := range a.lt.lits {
		if l.Kind != KEq || l.A == nil || l.B == nil {
			continue
		}
		x, y := strip(l.A), strip(l.B)
		for _, pr := range [][2]*Term{{x, y}, {y, x}} {
			if pr[0].Op == "read" && len(pr[0].Args) > 0 && pr[0].Args[0] == put.Args[1] && pr[1] == val {
				out = append(out, int32(i))
			}
		}
	}
	return out
}

// checkNotifyEquiv: the notification is emitted exactly on the paths that
// perform the state change, at one site outside loops.
func checkNotifyEquiv(cx *CheckCtx, a *Analysis, key string, notif, change *Site) {
	w := cx.W
	ok1, ok2 := true, true
	for _, ex := range a.Exits() {
		if !a.holdsAt(ex.State, -a.eLit(change), a.eLit(notif)) {
			ok1 = false
		}
		if !a.holdsAt(ex.State, append([]int32{-a.eLit(notif), a.eLit(change)}, identicalStored(a, change)...)...) {
			ok2 = false
		}
	}
	cx.decide(ok1, "notify", key+"/on-change", "every path performing the state change emits it", "the state change can complete without the notification", notif.Where(w))
	cx.decide(ok2, "notify", key+"/only-on-change", "emitted only with the state change", "the notification can be emitted without the state change", notif.Where(w))
	cx.decide(!siteInLoop(notif), "notify", key+"/once", "one site outside any loop", "the notification sits in a loop and can be emitted more than once", notif.Where(w))
}

// ---------- C05 ----------

func runC05(cx *CheckCtx) {
	w := cx.W
	// "the fee values configured in Netmap at that moment": a submitted setting is always stored
	checkNetmapSetConfigAlways(cx, "fee-config")
	// … and the values written at deployment are read back as the numbers that were configured
	checkConfigIntCodec(cx, "fee-config")
	// the fee transfers move exactly the amount: the legs of balance's transfer helper
	balanceLegs(cx)
	m := cx.method("container", "PutNamed")
	if m == nil {
		return
	}
	a := cx.run(m)
	tb := a.tb
	var fee, xPut, addRec, reg *Site
	nFee := 0
	for _, s := range a.Effects() {
		if s.Effect == "call" && len(s.Args) >= 2 {
			switch n, _ := s.Args[1].BytesConst(); n {
			case "transferX":
				fee = s
				nFee++
			case "addRecord":
				addRec = s
			case "register":
				reg = s
			}
		}
		if s.Effect == "put" && keyFamily(s.Args[1]) == "x" {
			xPut = s
		}
	}
	cx.count("fee_call_sites", nFee)
	if fee == nil || xPut == nil || nFee != 1 || fee.Args[len(fee.Args)-1].Op != "arr" || len(fee.Args[len(fee.Args)-1].Args) != 4 {
		cx.violated("fee-call", "container.PutNamed", "PutNamed no longer has exactly one balance.transferX(from, to, fee, details) call site and a registry write", w.pos(m.Fn.Pos()))
		return
	}
	args := fee.Args[len(fee.Args)-1].Args
	from, to, amt, details := args[0], args[1], args[2], args[3]
	blob := paramTerm(tb, m, "container")
	id := tb.mk("call", "native/crypto.Sha256", 0, blob)
	name := paramTerm(tb, m, "name")
	// config reads
	cfg := func(key string) *Term {
		for _, s := range a.Sites(func(s *Site) bool { return s.Callee == "contract.Call" && len(s.Args) >= 4 }) {
			if n, _ := s.Args[1].BytesConst(); n == "config" && s.Args[3].Op == "arr" && len(s.Args[3].Args) == 1 {
				if k, _ := s.Args[3].Args[0].BytesConst(); k == key {
					if c0, ok := s.Args[0].Args[0].BytesConst(); ok && c0 == "netmapScriptHash" {
						return s.Val
					}
				}
			}
		}
		return nil
	}
	regFee, aliasFee := cfg("ContainerFee"), cfg("ContainerAliasFee")
	if regFee == nil || aliasFee == nil {
		cx.violated("fee-amount", "container.PutNamed/config", "the fee is no longer read from the Netmap configuration keys ContainerFee / ContainerAliasFee", fee.Where(w))
	} else {
		emptyName := a.eqLit(name, tb.constBytes(""))
		both := tb.binop(token.ADD, regFee, aliasFee, intType)
		st := fee.In
		okPlain := a.holdsAt(st, -emptyName, a.eqLit(amt, regFee)) || a.Canon(st, amt) == regFee
		okNamed := a.holdsAt(st, emptyName, a.eqLit(amt, both))
		if amt == regFee { // unconditional single fee
			okNamed = false
		}
		cx.decide(okPlain, "fee-amount", "container.PutNamed/unnamed", "name == \"\" ⇒ amount = ContainerFee", "an unnamed container is not charged exactly ContainerFee per Alphabet node (amount "+amt.pretty()+")", fee.Where(w))
		cx.decide(okNamed, "fee-amount", "container.PutNamed/named", "name != \"\" ⇒ amount = ContainerFee + ContainerAliasFee", "a named container is not charged ContainerFee + ContainerAliasFee on every path with a name (the alias fee depends on something other than the presence of the name)", fee.Where(w))
		// the same predicate controls the registration of the alias
		if addRec != nil {
			okR := a.holdsAt(addRec.In, -emptyName)
			for _, ex := range a.Exits() {
				if !a.holdsAt(ex.State, emptyName, a.eLit(addRec)) {
					okR = false
				}
			}
			cx.decide(okR, "fee-amount", "container.PutNamed/alias-registered", "the alias record is added exactly when a name is given", "the alias fee and the alias registration are controlled by different predicates", addRec.Where(w))
		}
		_ = reg
	}
	// loop invariance: the amount mentions no value defined in the loop of the call
	hdr := innermostLoop(fee.Instr.Block())
	// (the loop may sit in a helper of PutNamed that receives the keys, the payer and the amount: the rules
	// below read the loop in the frame that holds the call; the registry write is then compared with the
	// helper's call site in PutNamed)
	helperDepth := 0
	for c := fee.Ctx; c != nil && c.parent != nil; c = c.parent {
		helperDepth++
	}
	if hdr == nil || helperDepth > 1 {
		cx.violated("fee-loop", "container.PutNamed/loop", "the fee transfer is not in a loop of PutNamed (or of a helper it calls directly) over the Alphabet keys", fee.Where(w))
	} else {
		cx.decide(!a.termInLoop(amt, fee.Ctx, hdr) && !a.termInLoop(from, fee.Ctx, hdr), "fee-loop", "container.PutNamed/invariant", "amount and payer are loop-invariant", "the charged amount or the payer changes between Alphabet nodes", fee.Where(w))
		// every key is paid: the loop ends only on exhaustion and no iteration goes round the call
		okExit, whyExit := everyElement(a, fee, nil)
		cx.decide(okExit, "fee-loop", "container.PutNamed/no-early-exit", "the loop ends only when the keys are exhausted and every iteration pays", "not every Alphabet node is paid: "+whyExit, fee.Where(w))
		okTo := isCall(to, "contract.CreateStandardAccount") && to.Args[0].Op == "elem" && keySource(tb, to.Args[0].Args[0]) == "committee"
		// "an owner with sufficient balance": the put is refused for its balance only when the balance read
		// from the Balance contract is below amount × number of paid keys (an owner holding exactly the fee pays)
		if okTo {
			var bal *Term
			for _, s := range a.Sites(func(s *Site) bool { return s.Callee == "contract.Call" && len(s.Args) >= 2 }) {
				if n, _ := s.Args[1].BytesConst(); n == "balanceOf" {
					bal = s.Val
				}
			}
			if bal != nil {
				lenKeys := tb.mk("len", "", 0, to.Args[0].Args[0])
				total := tb.binop(token.MUL, amt, lenKeys, intType)
				ax := a.orderAxioms([2]*Term{bal, total})
				// the converse speaks about the test of the *full* amount: a fault decided on the balance and on a
				// product with the number of keys. A coarser pre-check (balance against the per-node fee only) is
				// no boundary test — with it, atomicity rests on the Balance contract faulting (below).
				nb, okBal := panicOnlyIfCond(a, m.Fn, func(ct *Term) bool {
					return ct.contains(func(x *Term) bool { return x == bal }) && ct.contains(func(x *Term) bool { return x == lenKeys })
				}, ax, a.litLt(bal, total))
				if nb > 0 {
					cx.decide(okBal, "fee-atomic", "container.PutNamed/sufficient", "refused for the balance only when balance < amount × number of Alphabet keys", "a put can be refused for 'insufficient balance' although the owner's balance covers amount × number of Alphabet keys (the boundary is off, or the product is taken over something else): an owner holding exactly the fee cannot register", fee.Where(w))
				}
				// "if the owner cannot pay the full amount the invocation fails and nothing changes": either the
				// transfers are reached only with balance ≥ amount × keys established, or a refused transfer faults
				// inside the Balance contract (transferX never returns normally from a refusal). One of the two
				// must hold; today both do.
				preEstablished := a.entails(fee.In, ax, -a.litLt(bal, total))
				calleeFaults := transferXRefusalFaults(cx)
				cx.decide(preEstablished || calleeFaults, "fee-atomic", "container.PutNamed/refusal-faults", fmt.Sprintf("an unpayable put faults (balance ≥ amount × keys established before the loop: %v; a refused transferX faults in Balance: %v)", preEstablished, calleeFaults), "an owner who cannot pay every Alphabet node can still register: the put does not establish balance ≥ amount × number of keys before paying, and balance.transferX returns normally from a refused transfer — some nodes are paid, the rest skipped, the container stored", fee.Where(w))
			}
		}
		cx.decide(okTo, "fee-loop", "container.PutNamed/receiver", "to = standard account of each committee key", "the fee receiver is "+to.pretty()+", not the account of each Alphabet key", fee.Where(w))
		// range over the whole list: index starts at 0 and steps by 1 (Go range) — the element index term
		owner := ownerOfBlob(tb, blob)
		wantFrom := tb.mk("slice", "", 0, owner, tb.constInt(1), tb.binop(token.SUB, tb.mk("len", "", 0, owner), tb.constInt(4), intType))
		cx.decide(from == wantFrom, "fee-loop", "container.PutNamed/payer", "from = script hash of the owner parsed from the blob", "the fee is taken from "+from.pretty()+", not from the owner encoded in the container", fee.Where(w))
		cx.decide(details == tb.cat(tb.constBytes("\x10"), id), "fee-loop", "container.PutNamed/details", "details = 0x10‖id", "transfer details are "+details.pretty(), fee.Where(w))
		// D3: registry write after the loop
		done := hdr.Succs[1]
		if loopBlocks(hdr)[done] {
			done = hdr.Succs[0]
		}
		xb := xPut.Instr.Block()
		if xPut.Ctx.parent != nil {
			// inlined: use the call site in PutNamed
			for c := xPut.Ctx; c.parent != nil; c = c.parent {
				xb = c.cont.Block()
			}
		}
		okAfter := done.Dominates(xb) && !loopBlocks(hdr)[xb]
		if fee.Ctx.parent != nil {
			// the loop is in a helper: the helper returns only through the exhausted loop (no-early-exit above) and
			// the registry write comes after the helper's call in PutNamed
			hb := fee.Ctx.cont.Block()
			okAfter = hb.Dominates(xb) && innermostLoop(hb) == nil
			if hb == xb {
				hi, xi := -1, -1
				var xin ssa.Instruction = xPut.Instr
				for c := xPut.Ctx; c.parent != nil; c = c.parent {
					xin = c.cont
				}
				for i, in := range hb.Instrs {
					if in == fee.Ctx.cont {
						hi = i
					}
					if in == xin {
						xi = i
					}
				}
				okAfter = hi >= 0 && xi > hi
			}
		}
		cx.decide(okAfter, "fee-atomic", "container.PutNamed/registry-after-loop", "the registry write is dominated by the exit of the fee loop", "the container can be stored before every fee transfer was made", xPut.Where(w))
		catching := false
		for c := fee.Ctx; c != nil; c = c.parent {
			if c.catching {
				catching = true
			}
		}
		flags, _ := fee.Args[2].IntConst()
		// "in the same transaction that stores the container": a put that has charged the fee has stored the
		// submission (blob with its signature, key and token) on every normal return
		okStored := true
		for _, ex := range a.Exits() {
			if !a.holdsAt(ex.State, append([]int32{-a.eLit(fee), a.eLit(xPut)}, identicalStored(a, xPut)...)...) {
				okStored = false
			}
		}
		cx.decide(okStored, "fee-atomic", "container.PutNamed/charged-stored", "every normal return that charged the fee has stored the container", "a put can charge the fee and return normally without storing the submitted container (a re-put that is taken for 'already there' is paid for and dropped)", xPut.Where(w))
		cx.decide(!catching && flags == 15, "fee-atomic", "container.PutNamed/no-catch", "no exception-catching frame encloses the transfer and it is called with full flags", "a failing fee transfer would be swallowed or cannot write", fee.Where(w))
		// count ordering: the 'x' write also precedes nothing that could fault silently; owner index checked in C04
	}
	cx.floor("fee_call_sites", 1)
}

// ---------- C14 ----------

func runC14(cx *CheckCtx) {
	w := cx.W
	// readers of the roster answer from the committed list only: every scan Nodes hands out (or makes) is
	// over family 'n' — a pending list ('u') is not readable before its commit
	if m := cx.method("container", "Nodes"); m != nil {
		a := cx.run(m)
		okN, nF, bad := true, 0, ""
		for _, s := range a.Sites(func(s *Site) bool { return s.Callee == "storage.Find" }) {
			nF++
			if fam := keyFamily(s.Args[1]); fam != "n" {
				okN, bad = false, s.Args[1].pretty()
			}
		}
		for _, ex := range a.Exits() {
			for _, r := range ex.Results {
				if !(r.Op == "find" && len(r.Args) > 0 && keyFamily(r.Args[0]) == "n") {
					okN, bad = false, r.pretty()
				}
			}
		}
		// (a key edited in place after it was built — key[0] = … — is not what the term says it is)
		for _, b := range m.Fn.Blocks {
			for _, ins := range b.Instrs {
				if st, isSt := ins.(*ssa.Store); isSt {
					if ia, isIA := st.Addr.(*ssa.IndexAddr); isIA {
						if sl, isSl := ia.X.Type().Underlying().(*types.Slice); isSl && types.Identical(sl.Elem().Underlying(), types.Typ[types.Byte]) {
							okN, bad = false, "a key whose bytes are overwritten in place at "+w.pos(st.Pos())
						}
					}
				}
			}
		}
		cx.decide(okN && nF > 0, "roster-schema", "container.Nodes/committed-only", "Nodes scans the committed family 'n' only", "Nodes reads "+bad+": a list that was submitted and never committed is handed out as the current one", w.pos(m.Fn.Pos()))
	}
	// ---- D1 key schemas
	if m := cx.method("container", "AddNextEpochNodes"); m != nil {
		a := cx.run(m)
		tb := a.tb
		cid, vec := paramTerm(tb, m, "cID"), paramTerm(tb, m, "placementVector")
		var put *Site
		for _, s := range a.Effects() {
			if s.Effect == "put" {
				put = s
			}
		}
		if put == nil {
			cx.violated("roster-schema", "container.AddNextEpochNodes", "no roster write found", w.pos(m.Fn.Pos()))
		} else {
			ps := keyParts(put.Args[1])
			pre := tb.cat(tb.constBytes("u"), cid, tb.byteOf(vec))
			okK := len(ps) >= 4 && tb.cat(ps[:3]...) == pre
			cx.decide(okK, "roster-schema", "container.AddNextEpochNodes/key", "'u'‖cid‖vector‖counter", "pending roster key is "+put.Args[1].pretty(), put.Where(w))
			cx.decide(a.holdsAt(put.In, a.litEqC(a.litLen(cid), 32)), "roster-schema", "container.AddNextEpochNodes/cid-len", "len(cid) == 32 established", "roster keys are written for container ids of unchecked length: scans of one container can enumerate another's nodes", put.Where(w))
			// counter continues from the last stored key of the same (cid, vector)
			okScan := false
			for _, s := range a.Sites(func(s *Site) bool { return s.Callee == "storage.Find" }) {
				if s.Args[1] == pre {
					if fl, ok := s.Args[2].IntConst(); ok && fl&(1<<7) != 0 { // storage.Backwards
						okScan = true
					}
				}
			}
			// … and the start value is the decoded last key exactly when the scan found one, 0 exactly
			// when it found none; each stored key uses the counter advanced by one per item
			if okScan {
				okStart, whyStart := false, "the counter written into the key is not (start value + number of items so far)"
				for _, cs := range a.Sites(func(s *Site) bool {
					return s.Inlined && s.Ctx.parent == nil && len(s.Args) == 1 && s.Val != nil && len(ps) >= 4 && s.Val == ps[3]
				}) {
					cnt := cs.Args[0] // the counter handed to the encoder
					// cnt = (something that advances by one per item) + rest: either the counter itself is the
					// loop variable (counter++; rest = 1, its start values are the loop phi's), or the loop
					// variable is the item index from a constant c0 and the start value is rest + c0 − 1
					var loopPhi, phiStart *Term
					if cnt.Op == "sum" {
						for _, x := range cnt.Args {
							if x.Op != "phi" {
								continue
							}
							if st, step, _, ok := loopVarOf(tb, x); ok && step == 1 {
								loopPhi, phiStart = x, st
							}
						}
					}
					if os.Getenv("DBGROSTER") != "" {
						fmt.Println("ROSTER cnt=", cnt, "loopPhi=", loopPhi, "start=", phiStart)
					}
					if loopPhi == nil {
						continue
					}
					rest := tb.binop(token.SUB, cnt, loopPhi, intType)
					var inits []*Term
					var startVar *Term
					if r, isC := rest.IntConst(); isC && r == 1 {
						startVar = phiStart
					} else if c0, isC := phiStart.IntConst(); isC {
						startVar = tb.binop(token.ADD, rest, tb.constInt(c0-1), intType)
					} else {
						continue
					}
					inits = tb.Alts(startVar)
					if len(inits) == 0 {
						inits = []*Term{startVar}
					}
					if startVar.Op != "phi" {
						startVar = nil // a plain value: the variable bound to the decoded key is looked up below
					}
					// the start values: 0 and the decoded key of the last item of the backwards scan
					var nx, dec *Term
					okInits := true
					for _, al := range inits {
						if n, isC := al.IntConst(); isC && n == 0 {
							continue
						}
						isDec := false
						al.walk(func(x *Term) bool {
							if x.Op == "iterval" && x.Args[0].Op == "find" && x.Args[0].Args[0] == pre {
								isDec = true
							}
							return true
						})
						if isDec && (dec == nil || dec == al) {
							dec = al
						} else {
							okInits = false
						}
					}
					// the variable that carries the start value: the phi bound to the decoded key
					start := startVar
					for id := int32(1); id < int32(len(a.lt.lits)); id++ {
						l := a.lt.lits[id]
						if l.Kind == KB && l.A.Op == "iternext" && l.A.Args[0].Op == "find" && l.A.Args[0].Args[0] == pre {
							nx = l.A
						}
						if l.Kind == KEq && dec != nil && startVar == nil {
							if l.A == dec && l.B.Op == "phi" {
								start = l.B
							}
							if l.B == dec && l.A.Op == "phi" {
								start = l.A
							}
						}
					}
					if !okInits || nx == nil || dec == nil || start == nil {
						whyStart = "the start value is not (0 | the decoded last key of the backwards scan)"
						continue
					}
					found := a.litB(nx)
					if os.Getenv("DBGROSTER") != "" {
						fmt.Println("ROSTER start=", start, "dec=", dec, "nx=", nx, "q1=", a.holdsAt(put.In, found, a.litEqC(start, 0)), "q2=", a.holdsAt(put.In, -found, a.eqLit(start, dec)))
					}
					if a.holdsAt(put.In, found, a.litEqC(start, 0)) && a.holdsAt(put.In, -found, a.eqLit(start, dec)) {
						okStart, whyStart = true, ""
					} else {
						whyStart = "the start value is 0 although the scan found a pending key (or the decoded key although it found none)"
					}
				}
				cx.decide(okStart, "roster-schema", "container.AddNextEpochNodes/start", "start = decode(last pending key) when there is one, 0 otherwise; +1 per stored item", "a second batch does not continue after the first: "+whyStart+" — pending entries are overwritten or the order of submission is lost", put.Where(w))
			}
			cx.decide(okScan, "roster-schema", "container.AddNextEpochNodes/continue", "the counter continues from a backwards scan of the same (cid, vector)", "the roster counter is not continued from the last pending key of the same (cid, vector): a second batch overwrites the first", put.Where(w))
			el := put.Args[2]
			cx.decide(el.Op == "elem" && el.Args[0] == paramTerm(tb, m, "publicKeys"), "roster-schema", "container.AddNextEpochNodes/value", "stores each submitted key", "the stored roster value is "+el.pretty(), put.Where(w))
		}
	}
	for _, g := range []struct{ name, fam string }{{"Nodes", "n"}, {"ReplicasNumbers", "r"}} {
		m := cx.method("container", g.name)
		if m == nil {
			continue
		}
		a := cx.run(m)
		tb := a.tb
		cid := paramTerm(tb, m, "cID")
		want := tb.cat(tb.constBytes(g.fam), cid)
		if g.name == "Nodes" {
			want = tb.cat(want, tb.byteOf(paramTerm(tb, m, "placementVector")))
		}
		ok := false
		for _, ex := range a.Exits() {
			for _, r := range ex.Results {
				if r.Op == "find" && r.Args[0] == want && a.holdsAt(ex.State, a.litEqC(a.litLen(cid), 32)) {
					if fl, isC := r.Args[1].IntConst(); isC && fl&(1<<2) != 0 && fl&(1<<7) == 0 { // ValuesOnly, forward
						ok = true
					}
				}
			}
		}
		cx.decide(ok, "roster-schema", "container."+g.name, "forward values-only scan of '"+g.fam+"'‖cid(32)…", g.name+" does not scan exactly the committed keys of the container in key order", w.pos(m.Fn.Pos()))
	}
	// ---- D2 commit
	if m := cx.method("container", "CommitContainerListUpdate"); m != nil {
		a := cx.run(m)
		tb := a.tb
		cid := paramTerm(tb, m, "cID")
		findOf := func(fam string) *Site {
			for _, s := range a.Sites(func(s *Site) bool { return s.Callee == "storage.Find" }) {
				if s.Args[1] == tb.cat(tb.constBytes(fam), cid) {
					return s
				}
			}
			return nil
		}
		fn, fu, fr := findOf("n"), findOf("u"), findOf("r")
		var delN, delU, delR, putN, putR *Site
		for _, s := range a.Effects() {
			k := s.Args[1]
			base := k
			if base.Op == "field" {
				base = base.Args[0]
			}
			switch {
			case s.Effect == "delete" && base.Op == "iterval" && fn != nil && base.Args[0] == fn.Val:
				delN = s
			case s.Effect == "delete" && base.Op == "iterval" && fu != nil && base.Args[0] == fu.Val:
				delU = s
			case s.Effect == "delete" && base.Op == "iterval" && fr != nil && base.Args[0] == fr.Val:
				delR = s
			case s.Effect == "put" && keyFamily(k) == "n":
				putN = s
			case s.Effect == "put" && keyFamily(k) == "r":
				putR = s
			}
		}
		okAll := fn != nil && fu != nil && fr != nil && delN != nil && delU != nil && delR != nil && putN != nil && putR != nil
		cx.decide(okAll, "commit-swap", "container.CommitContainerListUpdate/shape", "scans n, u, r of the cid; deletes every scanned key; re-puts u as n; writes r",
			"the commit no longer deletes all old 'n' and 'r' keys, moves every 'u' key to 'n' and writes the REP numbers", w.pos(m.Fn.Pos()))
		if okAll {
			item := delU.Args[1]
			if item.Op == "field" {
				item = item.Args[0]
			}
			key := tb.field(item, "key")
			wantKey := tb.cat(tb.constBytes("n"), tb.mk("slice", "", 0, key, tb.constInt(1), tb.mk("none", "", 0)))
			cx.decide(putN.Args[1] == wantKey && putN.Args[2] == tb.field(item, "val") && delU.Args[1] == key, "commit-swap", "container.CommitContainerListUpdate/move",
				"for each pending item: Delete(key), Put('n'‖key[1:], same value)", "a pending roster entry is not moved to 'n'‖key[1:] with its value (put "+putN.Args[1].pretty()+" → "+putN.Args[2].pretty()+")", putN.Where(w))
			cx.decide(a.holdsAt(fn.In, -a.eLit(putN)), "commit-swap", "container.CommitContainerListUpdate/order", "the old 'n' keys are scanned before any new one is written", "the scan of old 'n' keys can run after new ones were written: the fresh roster is deleted", fn.Where(w))
			cx.decide(a.holdsAt(fr.In, -a.eLit(putR)), "commit-swap", "container.CommitContainerListUpdate/order-r", "the old 'r' keys are scanned before the new ones are written", "old REP numbers are scanned after the new ones were written", fr.Where(w))
			pr := keyParts(putR.Args[1])
			cx.decide(len(pr) == 3 && pr[1] == cid && putR.Args[2].Op == "elem" && putR.Args[2].Args[0] == paramTerm(tb, m, "replicas"), "commit-swap", "container.CommitContainerListUpdate/r",
				"'r'‖cid‖index → replicas[index]", "REP numbers are stored as "+putR.Args[1].pretty()+" → "+putR.Args[2].pretty(), putR.Where(w))
			// the last key component is the *position* of the stored number (the readers take the vectors in key order)
			if len(pr) == 3 && putR.Args[2].Op == "elem" {
				idx := tb.indexOfElem(putR.Args[2])
				last := pr[2]
				for last.Op == "byte" || last.Op == "conv" {
					last = last.Args[0]
				}
				cx.decide(idx != nil && a.Canon(putR.In, last) == a.Canon(putR.In, idx), "commit-swap", "container.CommitContainerListUpdate/r-position",
					"the REP number of vector i is stored under position i", "the REP number "+putR.Args[2].pretty()+" is stored under "+pr[2].pretty()+", which is not its position in the list: repeated or descending REP numbers collapse or are reordered, the verifier reads another policy than the committed one", putR.Where(w))
			}
			// every item: each of the five loops ends only on exhaustion and no iteration goes round its operation
			okEvery, whyEvery := true, ""
			for _, s := range []*Site{delN, delU, delR, putN, putR} {
				if ok, why := everyElement(a, s, nil); !ok {
					okEvery, whyEvery = false, siteDesc(a, s)+": "+why
				}
			}
			// and each loop is reached on every normal path (the REP numbers are written only for a non-nil list)
			repl := paramTerm(tb, m, "replicas")
			for _, s := range []*Site{delN, delU, delR, putN, putR} {
				s := s
				ok, why := alwaysReached(a, s, func(st *CNF) bool {
					return s == putR && (a.holdsAt(st, a.litNil(repl)) || a.holdsAt(st, a.litEqC(a.litLen(repl), 0)) || a.holdsAt(st, a.litLtC(a.litLen(repl), 1)))
				})
				if !ok {
					okEvery, whyEvery = false, siteDesc(a, s)+": "+why
				}
			}
			cx.decide(okEvery, "commit-swap", "container.CommitContainerListUpdate/every-item", "every old 'n'/'r' key is deleted, every pending 'u' entry moved, every REP number written", "the commit does not treat every item: "+whyEvery+"; stale roster entries survive or pending ones are lost", putN.Where(w))
			cx.decide(a.holdsAt(putN.In, a.litEqC(a.litLen(cid), 32)), "commit-swap", "container.CommitContainerListUpdate/cid-len", "len(cid) == 32 established", "commit runs for container ids of unchecked length", putN.Where(w))
		}
	}
	// ---- D3 distinct-principal counting
	if fn := cx.pkgFunc(cnrPkg, "VerifyPlacementSignatures"); fn != nil {
		checkDistinctCounting(cx, fn)
	}
	// ---- D4 SubmitObjectPut
	if m := cx.method("container", "SubmitObjectPut"); m != nil {
		a := cx.run(m)
		tb := a.tb
		var notif *Site
		for _, s := range a.Effects() {
			if notifyName(s) == "ObjectPut" {
				notif = s
			}
		}
		var vcall *Site
		for _, s := range a.Sites(func(s *Site) bool { return s.Inlined && s.Callee == cnrPkg+".VerifyPlacementSignatures" }) {
			vcall = s
		}
		if notif == nil || vcall == nil {
			cx.violated("submit", "container.SubmitObjectPut", "SubmitObjectPut no longer verifies placement signatures before ObjectPut", w.pos(m.Fn.Pos()))
		} else {
			meta := paramTerm(tb, m, "metaInformation")
			cidT := vcall.Args[0]
			fromMeta := cidT.contains(func(x *Term) bool {
				return isCall(x, "native/std.Deserialize") && len(x.Args) == 1 && x.Args[0] == meta
			}) &&
				cidT.contains(func(x *Term) bool { s, ok := x.BytesConst(); return ok && s == "cid" })
			cx.decide(fromMeta && vcall.Args[1] == meta && vcall.Args[2] == paramTerm(tb, m, "sigs"), "submit", "container.SubmitObjectPut/args",
				"verifies (cid read from the meta map, the meta bytes, the submitted signatures)", "the signatures are verified for "+termList(vcall.Args)+", not for the submitted meta information and the container it names", vcall.Where(w))
			okFlag := false
			for _, f := range a.unitFacts(notif.In) {
				if f.kind == KNil && !f.pos && f.A.Op == "read" && f.A.Args[0] == tb.cat(tb.constBytes("m"), cidT) {
					okFlag = true
				}
			}
			cx.decide(okFlag, "submit", "container.SubmitObjectPut/meta-flag", "the meta flag of that cid is present", "ObjectPut can be notified for a container without the meta-on-chain flag", notif.Where(w))
			cx.decide(a.holdsAt(notif.In, a.litB(vcall.Val)), "submit", "container.SubmitObjectPut/verified", "notified only if the verification returned true", "ObjectPut can be notified although the placement signatures were not accepted", notif.Where(w))
			nargs := notifyArgs(notif)
			cx.decide(len(nargs) >= 1 && nargs[0] == cidT, "submit", "container.SubmitObjectPut/notify-arg", "names the verified cid", "ObjectPut names "+termList(nargs), notif.Where(w))
		}
	}
}

// checkDistinctCounting: DESIGN C14.D3 / D3b on the SSA of VerifyPlacementSignatures.
func checkDistinctCounting(cx *CheckCtx, fn *ssa.Function) {
	w := cx.W
	key := "contracts/container.VerifyPlacementSignatures"
	var V *ssa.Call
	for _, b := range fn.Blocks {
		for _, ins := range b.Instrs {
			if c, ok := ins.(*ssa.Call); ok {
				if f := c.Common().StaticCallee(); f != nil && fq(f) == "native/crypto.VerifyWithECDsa" {
					V = c
				}
			}
		}
	}
	if V == nil {
		cx.violated("distinct-principal", key, "no signature verification call found", w.pos(fn.Pos()))
		return
	}
	pub := stripConv(V.Common().Args[1])
	sig := stripConv(V.Common().Args[2])
	vb := V.Block()
	// the If on V
	var vIf *ssa.If
	for _, r := range *V.Referrers() {
		if i, ok := r.(*ssa.If); ok {
			vIf = i
		}
	}
	if vIf == nil {
		cx.violated("distinct-principal", key, "the result of the signature check is not branched on", w.pos(V.Pos()))
		return
	}
	// (b) membership test: in place, through a flag, or through a contains helper (membershipGuard)
	okDom, memIf, coll := membershipGuard(fn, func(v ssa.Value) bool { return v == pub }, vb)
	if memIf == nil {
		cx.violated("distinct-principal", key, "the signature check is not guarded by a membership test of the candidate member key against the members already counted: one member's signature repeated REP times (or a malleated copy) satisfies a vector", w.pos(V.Pos()))
		return
	}
	cx.decide(okDom, "distinct-principal", key+"/membership-dominates", "the signature check is reached only after the candidate key was compared with every counted member and found different", "the signature check can be reached although the candidate member was already counted (the membership loop does not dominate it or its 'found' exit falls through)", w.pos(memIf.Pos()))
	// (c) insertion + counting on the success branch
	cphi, _ := coll.(*ssa.Phi)
	okIns, okCnt := false, false
	if cphi != nil {
		for v := range phiClosure(cphi) {
			if base, elems, ok := appendOf(v); ok && phiClosure(cphi)[base] {
				for _, e := range elems {
					if e == pub && viaEdge(vIf.Block(), 0, valueBlock(v)) {
						okIns = true
					}
				}
			}
		}
	}
	// counter: a phi in the same block as the collection phi whose increments are dominated by T
	var cnt *ssa.Phi
	if cphi != nil {
		for _, ins := range cphi.Block().Instrs {
			p, ok := ins.(*ssa.Phi)
			if !ok || p == cphi || !isInteger(p.Type()) {
				continue
			}
			incs, other := 0, 0
			for v := range phiClosure(p) {
				if bo, ok := v.(*ssa.BinOp); ok {
					if bo.Op == token.ADD && phiClosure(p)[stripConv(bo.X)] && isConstInt(bo.Y, 1) && viaEdge(vIf.Block(), 0, bo.Block()) {
						incs++
					} else {
						other++
					}
				}
			}
			if incs >= 1 && other == 0 && comparedForAcceptance(p) {
				cnt = p
				okCnt = true
			}
		}
	}
	cx.decide(okIns, "distinct-principal", key+"/insert", "the verified member key is inserted into the collection on the success branch", "a member whose signature was accepted is not remembered: its next signature counts again", w.pos(V.Pos()))
	cx.decide(okCnt, "distinct-principal", key+"/count", "the acceptance counter is incremented only on the success branch", "the acceptance counter changes outside the verified-signature branch", w.pos(V.Pos()))
	// (a) scope: collection carried across signatures, initialised per vector
	okScope := false
	if cphi != nil {
		hc := cphi.Block()
		lb := loopBlocks(hc)
		sigB := valueBlock(sig)
		if isLoopHeader(hc) && lb[vb] && sigB != nil && lb[sigB] {
			okScope = true
			for i, e := range cphi.Edges {
				if !lb[hc.Preds[i]] { // initial value
					if !isEmptySlice(e) {
						okScope = false
					}
				}
			}
			// initialised inside the per-vector loop: hc itself is nested in an outer loop
			if len(enclosingLoops(hc)) < 2 {
				okScope = false
			}
		}
	}
	cx.decide(okScope, "distinct-principal", key+"/scope", "the collection starts empty for every vector and is carried across that vector's signatures", "the set of counted members is reset between signatures of one vector (or shared between vectors)", w.pos(V.Pos()))
	// D3b: acceptance comparison and exhaustion
	a := cx.analyze(&Query{Name: "std", Root: fn})
	tb := a.tb
	cid := tb.mk("param", "0:cid", 0)
	okRet := true
	for _, ex := range a.Exits() {
		if len(ex.Results) == 1 {
			if bv, isC := ex.Results[0].BoolConst(); isC && bv {
				// the REP iterator is exhausted
				found := false
				for _, f := range a.unitFacts(ex.State) {
					if f.kind == KB && !f.pos && f.A.Op == "iternext" {
						it := f.A.Args[0]
						for _, alt := range tb.Alts(it) {
							if alt.Op == "find" && alt.Args[0] == tb.cat(tb.constBytes("r"), cid) {
								found = true
							}
						}
					}
				}
				if !found {
					okRet = false
				}
			} else if !isC {
				okRet = false
			}
		}
	}
	cx.decide(okRet, "acceptance", key+"/exhaust", "true is returned only when the REP scan of the cid is exhausted", "true can be returned before every placement vector was checked", w.pos(fn.Pos()))
	// cnt == m comparison with m from the REP scan, and Nodes(cid, i) with i selecting sigs[i]
	okCmp := false
	if cnt != nil {
		for _, r := range *cnt.Referrers() {
			_ = r
		}
		for v := range phiClosure(cnt) {
			if refs := v.Referrers(); refs != nil {
				for _, r := range *refs {
					if bo, ok := r.(*ssa.BinOp); ok && bo.Op == token.EQL {
						other := bo.Y
						if stripConv(bo.Y) == v {
							other = bo.X
						}
						ot := tb.Term(tb.root, other)
						if ot.Op == "iterval" {
							for _, alt := range tb.Alts(ot.Args[0]) {
								if alt.Op == "find" && alt.Args[0] == tb.cat(tb.constBytes("r"), cid) {
									okCmp = true
									// … and it is the true side of that comparison that moves on to the next
									// vector: every way back to the per-vector loop header passes it
									if refs := bo.Referrers(); refs != nil {
										for _, rr := range *refs {
											ifi, isIf := rr.(*ssa.If)
											if !isIf {
												continue
											}
											outer := enclosingLoops(vb)
											if len(outer) == 0 {
												okCmp = false
												continue
											}
											oh := outer[len(outer)-1]
											inOuter := loopBlocks(oh)
											for _, latch := range oh.Preds {
												if inOuter[latch] && !guardedBy(ifi.Block(), 0, latch) {
													okCmp = false
												}
											}
										}
									}
								}
							}
						}
					}
				}
			}
		}
	}
	// converse at the length test: a vector is refused for its *number* of signatures only when it has
	// fewer than REP (REP signatures of distinct members are enough)
	{
		var mT *Term
		for id := int32(1); id < int32(len(a.lt.lits)); id++ {
			l := a.lt.lits[id]
			if l.Kind != KLt {
				continue
			}
			for _, pr := range [][2]*Term{{l.A, l.B}, {l.B, l.A}} {
				if pr[0].Op == "len" && pr[1].Op == "iterval" {
					for _, alt := range tb.Alts(pr[1].Args[0]) {
						if alt.Op == "find" && alt.Args[0] == tb.cat(tb.constBytes("r"), cid) {
							mT = pr[1]
							lenT := pr[0]
							if nl, okL := returnsOnlyIf(a, fn, false, a.orderAxioms([2]*Term{lenT, mT}), []int32{a.litLt(lenT, mT)}, lenT, mT); nl > 0 {
								cx.decide(okL, "acceptance", key+"/enough", "a vector is refused for the number of its signatures only when there are fewer than REP", "a vector carrying exactly REP signatures (or more) can be refused for its length: the documented threshold is not reachable", w.pos(fn.Pos()))
							}
						}
					}
				}
			}
			if mT != nil {
				break
			}
		}
	}
	cx.decide(okCmp, "acceptance", key+"/threshold", "a vector is accepted under counter == REP read from 'r'‖cid", "the acceptance threshold is not the REP number stored for this container", w.pos(fn.Pos()))
	okVec := false
	for _, s := range a.Sites(func(s *Site) bool { return s.Inlined && s.Callee == cnrPkg+".Nodes" }) {
		// sigs[i] with the same i
		vecT := s.Args[1]
		sigT := tb.Term(tb.root, sig)
		if sigT.Op == "elem" && sigT.Args[0].Op == "elem" || sigT.Op == "elem" {
			// sig = elem(sigs[i]) ; find the index term of sigs[i]
			inner := sigT.Args[0]
			if inner.Op == "elem" || inner.Op == "index" {
				// the index instruction
				idx := indexValueOf(sig)
				if idx != nil && tb.Term(tb.root, idx) == vecT && s.Args[0] == cid {
					okVec = true
				}
			}
		}
	}
	// … and every signature of the vector gets its chance: the position of the examined signature runs from
	// 0 to len(sigs[i]) − 1 (a vector with its valid signatures behind a few that do not count is still
	// a vector with REP valid signatures)
	if okVec {
		okAllSigs, whySigs := false, "the examined signature is not an element of sigs[i] selected by a loop variable"
		if u, isU := stripConv(sig).(*ssa.UnOp); isU {
			if ia, isIA := u.X.(*ssa.IndexAddr); isIA {
				idxT := tb.Term(tb.root, ia.Index)
				vecT := tb.Term(tb.root, ia.X)
				var phi *Term
				idxT.walk(func(x *Term) bool {
					if x.Op == "phi" && phi == nil {
						phi = x
					}
					return true
				})
				if phi != nil {
					if start, step, cond, okLV := loopVarOf(tb, phi); okLV && step == 1 {
						off := tb.binop(token.SUB, idxT, phi, intType)
						lo := tb.binop(token.ADD, start, off, intType)
						hi := boundOf(tb, phi, cond, true)
						wantHi := tb.binop(token.SUB, tb.mk("len", "", 0, vecT), tb.constInt(1), intType)
						z, isZ := lo.IntConst()
						switch {
						case !isZ || z != 0:
							whySigs = "the first examined signature is not sigs[i][0]"
						case hi == nil || tb.binop(token.ADD, hi, off, intType) != wantHi:
							whySigs = "the last examined signature is not sigs[i][len(sigs[i])−1]"
						default:
							okAllSigs, whySigs = true, ""
						}
					}
				}
			}
		}
		cx.decide(okAllSigs, "acceptance", key+"/every-signature", "the signatures of a vector are examined from the first to the last", "not every signature of a vector is examined ("+whySigs+"): a vector that does carry REP valid signatures of distinct members is refused when some of them stand behind signatures that do not count", w.pos(fn.Pos()))
	}
	// … and the candidate member comes from that scan only: it is the current item of the
	// Nodes(cid, i) iterator, or an element of a list that starts empty inside the per-vector
	// loop and only receives items of that iterator
	if okVec {
		isNodesIter := func(v ssa.Value) bool {
			c, ok := stripConv(v).(*ssa.Call)
			if !ok {
				return false
			}
			f := c.Common().StaticCallee()
			return f != nil && fq(f) == cnrPkg+".Nodes"
		}
		okSrc, whySrc := false, "the candidate key is not taken from the member scan"
		if src, isEl := elementOf(pub); isEl {
			switch {
			case isNodesIter(src):
				okSrc = true
			default:
				vecLoops := enclosingLoops(vb)
				if len(vecLoops) > 0 {
					vecLoop := loopBlocks(vecLoops[len(vecLoops)-1]) // the per-vector loop: outermost around the check
					okSrc, whySrc = true, ""
					cl := phiClosure(src)
					for v := range cl {
						switch x := v.(type) {
						case *ssa.Phi:
							for i, e := range x.Edges {
								if !vecLoop[x.Block().Preds[i]] {
									okSrc, whySrc = false, "the candidate list is carried over from outside the per-vector loop (members of earlier vectors stay in it)"
								}
								_ = e
							}
						default:
							if isEmptySlice(v) {
								continue
							}
							base, elems, isApp := appendOf(v)
							good := isApp && cl[base] && len(elems) == 1
							if good {
								it, isEl := elementOf(elems[0])
								good = isEl && isNodesIter(it)
							}
							if !good {
								okSrc, whySrc = false, "the candidate list receives something other than items of the member scan"
							}
						}
					}
				}
			}
		}
		cx.decide(okSrc, "acceptance", key+"/member-source", "the candidate member is an item of the scan of this vector's members only", "signatures of vector i can be matched with keys that are not members of vector i: "+whySrc, w.pos(V.Pos()))
	}
	cx.decide(okVec, "acceptance", key+"/vector", "members are scanned for the vector whose index selects the signature list", "signatures of vector i are checked against the members of another vector", w.pos(fn.Pos()))
}

// indexValueOf: sig = *(&X[j]) with X = *(&sigs[i]) → i
func indexValueOf(sig ssa.Value) ssa.Value {
	u, ok := stripConv(sig).(*ssa.UnOp)
	if !ok {
		return nil
	}
	ia, ok := u.X.(*ssa.IndexAddr)
	if !ok {
		return nil
	}
	u2, ok := stripConv(ia.X).(*ssa.UnOp)
	if !ok {
		return nil
	}
	ia2, ok := u2.X.(*ssa.IndexAddr)
	if !ok {
		return nil
	}
	return ia2.Index
}

func isConstInt(v ssa.Value, n int64) bool {
	c, ok := v.(*ssa.Const)
	if !ok || c.Value == nil || c.Value.Kind() != constant.Int {
		return false
	}
	x, exact := constant.Int64Val(c.Value)
	return exact && x == n
}

func isEmptySlice(v ssa.Value) bool {
	v = stripConv(v)
	switch x := v.(type) {
	case *ssa.Const:
		return x.Value == nil
	case *ssa.Slice:
		if al, ok := x.X.(*ssa.Alloc); ok {
			if at, ok := al.Type().Underlying().(interface {
				Elem() interface{ Underlying() interface{} }
			}); ok {
				_ = at
			}
			return strings.Contains(al.Type().String(), "[0]")
		}
	case *ssa.MakeSlice:
		return isConstInt(x.Len, 0)
	}
	return false
}

// comparedForAcceptance: the counter (or a phi of it) is compared with == somewhere.
func comparedForAcceptance(p *ssa.Phi) bool {
	for v := range phiClosure(p) {
		if refs := v.Referrers(); refs != nil {
			for _, r := range *refs {
				if bo, ok := r.(*ssa.BinOp); ok && (bo.Op == token.EQL || bo.Op == token.GEQ) {
					return true
				}
			}
		}
	}
	return false
}

// checkCallArgRoles: a cross-contract call names its method by a string and
// passes its arguments by position; nothing ties the two together at compile
// time. Where the called method is a method of a contract of this repository
// (unique by name and number of parameters), an argument that is a *named*
// constant or variable whose name says which parameter it is meant for
// (defaultExpire, defaultTTL) must stand at that parameter's position: a name
// that contains another parameter's name and not its own position's is a
// stated belief contradicted by the call (two swapped settings of one type).
func checkCallArgRoles(cx *CheckCtx, cn, rule string) {
	w := cx.W
	c := cx.contract(cn)
	if c == nil || c.Pkg == nil {
		return
	}
	// ABI name / arity → parameter names
	type sigKey struct {
		name string
		n    int
	}
	sigs := map[sigKey][][]string{}
	for _, oc := range w.Contracts {
		for _, m := range oc.Methods {
			var ps []string
			for _, p := range m.Fn.Params {
				ps = append(ps, strings.ToLower(p.Name()))
			}
			k := sigKey{m.ABI, len(ps)}
			sigs[k] = append(sigs[k], ps)
		}
	}
	n := 0
	for _, f := range c.Pkg.Syntax {
		ast.Inspect(f, func(nd ast.Node) bool {
			call, ok := nd.(*ast.CallExpr)
			if !ok || len(call.Args) < 3 {
				return true
			}
			se, ok := call.Fun.(*ast.SelectorExpr)
			if !ok || se.Sel.Name != "Call" {
				return true
			}
			if id, ok := se.X.(*ast.Ident); !ok || id.Name != "contract" {
				return true
			}
			tv, ok := c.Pkg.TypesInfo.Types[call.Args[1]]
			if !ok || tv.Value == nil || tv.Value.Kind() != constant.String {
				return true
			}
			method := constant.StringVal(tv.Value)
			args := call.Args[3:]
			cands := sigs[sigKey{method, len(args)}]
			if len(cands) != 1 {
				return true // not a method of this repository, or ambiguous
			}
			params := cands[0]
			for i, a := range args {
				var name string
				switch x := ast.Unparen(a).(type) {
				case *ast.Ident:
					name = x.Name
				case *ast.SelectorExpr:
					name = x.Sel.Name
				default:
					continue
				}
				ln := strings.ToLower(name)
				if len(params[i]) < 3 || strings.Contains(ln, params[i]) {
					continue
				}
				for j, pj := range params {
					if j == i || len(pj) < 3 || !strings.Contains(ln, pj) {
						continue
					}
					// the argument standing at pj's own position must in turn be named for another parameter,
					// or this is just a generic name
					n++
					cx.violated(rule, fmt.Sprintf("%s/call %q arg %d", cn, method, i), fmt.Sprintf("the call of %q passes %s as parameter %q (position %d); its name says it is meant for parameter %q (position %d): two settings of one type are swapped — the callee stores the one in place of the other", method, name, params[i], i, pj, j), w.pos(a.Pos()))
				}
			}
			n++
			return true
		})
	}
	cx.count("resolved_cross_calls_"+cn, n)
}
