package main

import (
	"fmt"
	"go/ast"
	"go/constant"
	"go/token"
	"go/types"
	"sort"
	"strings"

	"golang.org/x/tools/go/ssa"
)

// ruleSentinelTest: a local that starts at a negative sentinel and is
// otherwise only ever given a loop index ("position of the match, or −1") is
// first tested, after the search, by an `if` that rejects (returns, continues,
// breaks, panics). That first ordering test against a constant must put every
// non-negative value on one side: `x <= 0` or `x < 1` would treat position 0 —
// the first committee member, the first signer — as "not found". Equality
// tests (`x == 0`, the leader test) are not ordering tests and are left alone.
// Returns the number of such first tests and the findings.
func ruleSentinelTest(p *astPkg) (int, []finding) {
	encl := enclosingFuncs(p.files)
	type info struct {
		decl    *ast.Ident
		lastSet token.Pos
		onlyIdx bool
		nAssign int
	}
	var out []finding
	n := 0
	for _, f := range p.files {
		vars := map[types.Object]*info{}
		loopVars := map[types.Object]bool{}
		ast.Inspect(f, func(nd ast.Node) bool {
			switch x := nd.(type) {
			case *ast.AssignStmt:
				if x.Tok == token.DEFINE && len(x.Lhs) == len(x.Rhs) {
					for i, l := range x.Lhs {
						id, ok := l.(*ast.Ident)
						if !ok {
							continue
						}
						tv, ok := p.info.Types[x.Rhs[i]]
						if !ok || tv.Value == nil || tv.Value.Kind() != constant.Int || constant.Sign(tv.Value) >= 0 {
							continue
						}
						if o := p.info.Defs[id]; o != nil {
							vars[o] = &info{decl: id, onlyIdx: true, lastSet: id.Pos()}
						}
					}
				}
			case *ast.RangeStmt:
				if id, ok := x.Key.(*ast.Ident); ok && x.Tok == token.DEFINE {
					if o := p.info.Defs[id]; o != nil {
						loopVars[o] = true
					}
				}
			case *ast.ForStmt:
				if as, ok := x.Init.(*ast.AssignStmt); ok && as.Tok == token.DEFINE {
					for _, l := range as.Lhs {
						if id, ok := l.(*ast.Ident); ok {
							if o := p.info.Defs[id]; o != nil {
								loopVars[o] = true
							}
						}
					}
				}
			}
			return true
		})
		ast.Inspect(f, func(nd ast.Node) bool {
			switch x := nd.(type) {
			case *ast.AssignStmt:
				if x.Tok == token.DEFINE {
					break
				}
				for i, l := range x.Lhs {
					id, ok := l.(*ast.Ident)
					if !ok {
						continue
					}
					v := vars[p.info.Uses[id]]
					if v == nil {
						continue
					}
					v.nAssign++
					if x.End() > v.lastSet {
						v.lastSet = x.End()
					}
					isIdx := false
					if x.Tok == token.ASSIGN && len(x.Lhs) == len(x.Rhs) {
						if r, ok := ast.Unparen(x.Rhs[i]).(*ast.Ident); ok && loopVars[p.info.Uses[r]] {
							isIdx = true
						}
					}
					if !isIdx {
						v.onlyIdx = false
					}
				}
			case *ast.IncDecStmt:
				if id, ok := x.X.(*ast.Ident); ok {
					if v := vars[p.info.Uses[id]]; v != nil {
						v.onlyIdx = false
					}
				}
			case *ast.UnaryExpr:
				if id, ok := x.X.(*ast.Ident); ok && x.Op == token.AND {
					if v := vars[p.info.Uses[id]]; v != nil {
						v.onlyIdx = false
					}
				}
			}
			return true
		})
		// the first rejecting test after the last assignment
		type cand struct {
			pos  token.Pos
			expr *ast.BinaryExpr
			c    constant.Value
			op   token.Token
		}
		first := map[types.Object]*cand{}
		rejects := func(body *ast.BlockStmt) bool {
			if len(body.List) == 0 {
				return false
			}
			switch l := body.List[len(body.List)-1].(type) {
			case *ast.ReturnStmt, *ast.BranchStmt:
				return true
			case *ast.ExprStmt:
				if c, ok := l.X.(*ast.CallExpr); ok {
					if id, ok := c.Fun.(*ast.Ident); ok && id.Name == "panic" {
						return true
					}
				}
			}
			return false
		}
		flip := map[token.Token]token.Token{token.LSS: token.GTR, token.GTR: token.LSS, token.LEQ: token.GEQ, token.GEQ: token.LEQ}
		ast.Inspect(f, func(nd ast.Node) bool {
			is, ok := nd.(*ast.IfStmt)
			if !ok || !rejects(is.Body) {
				return true
			}
			ast.Inspect(is.Cond, func(m ast.Node) bool {
				be, ok := m.(*ast.BinaryExpr)
				if !ok {
					return true
				}
				if _, ord := flip[be.Op]; !ord {
					return true
				}
				var id *ast.Ident
				var cv constant.Value
				op := be.Op
				if l, ok := ast.Unparen(be.X).(*ast.Ident); ok {
					if tv := p.info.Types[be.Y]; tv.Value != nil {
						id, cv = l, tv.Value
					}
				}
				if r, ok := ast.Unparen(be.Y).(*ast.Ident); ok && id == nil {
					if tv := p.info.Types[be.X]; tv.Value != nil {
						id, cv, op = r, tv.Value, flip[be.Op]
					}
				}
				if id == nil || cv.Kind() != constant.Int {
					return true
				}
				o := p.info.Uses[id]
				v := vars[o]
				if v == nil || !v.onlyIdx || v.nAssign == 0 || be.Pos() < v.lastSet {
					return true
				}
				if c := first[o]; c == nil || is.Pos() < c.pos {
					first[o] = &cand{is.Pos(), be, cv, op}
				} else if is.Pos() == c.pos {
					// several tests of one variable in one condition: keep the first in text order
					if be.Pos() < c.expr.Pos() {
						first[o] = &cand{is.Pos(), be, cv, op}
					}
				}
				return true
			})
			return true
		})
		var objs []types.Object
		for o := range first {
			objs = append(objs, o)
		}
		sort.Slice(objs, func(i, j int) bool { return first[objs[i]].pos < first[objs[j]].pos })
		for _, o := range objs {
			c := first[o]
			n++
			truth := func(x int64) bool {
				return constant.Compare(constant.MakeInt64(x), c.op, c.c)
			}
			if truth(0) != truth(1) || truth(1) != truth(1<<40) {
				fn := ""
				for nd, name := range encl {
					if nd.Pos() <= c.expr.Pos() && c.expr.Pos() < nd.End() {
						fn = name
					}
				}
				out = append(out, finding{c.expr.Pos(), fn, fmt.Sprintf("local %s holds the position of a match or a negative sentinel; its 'not found' test `%s` does not put every position on one side: position 0 (the first member, the first signer) is treated like the sentinel or apart from the other positions", o.Name(), types.ExprString(c.expr))})
			}
		}
	}
	sort.Slice(out, func(i, j int) bool { return out[i].pos < out[j].pos })
	return n, out
}

// checkSharedMatch: the predicate that decides whether a locally built
// transaction "is the shared one" (bool result, takes the shared-data struct —
// the type whose method lays its fields out with PutUint32 — and a
// transaction) answers true only where every field of the shared data has been
// compared equal. A member that accepts a transaction differing in one of the
// fields signs something else than its peers: the signatures never add up.
func checkSharedMatch(cx *CheckCtx, sp *ssa.Package) {
	w := cx.W
	// the shared-data type
	var shared *types.Named
	for _, fn := range allFuncs(sp) {
		if fn.Signature.Recv() == nil || fn.Blocks == nil {
			continue
		}
		uses := false
		for _, b := range fn.Blocks {
			for _, ins := range b.Instrs {
				if c, ok := ins.(ssa.CallInstruction); ok {
					if c.Common().Method != nil && c.Common().Method.Name() == "PutUint32" {
						uses = true
					} else if cal := c.Common().StaticCallee(); cal != nil && cal.Name() == "PutUint32" {
						uses = true
					}
				}
			}
		}
		if !uses {
			continue
		}
		t := fn.Signature.Recv().Type()
		if pt, ok := t.(*types.Pointer); ok {
			t = pt.Elem()
		}
		if nt, ok := t.(*types.Named); ok {
			if _, isStruct := nt.Underlying().(*types.Struct); isStruct {
				shared = nt
			}
		}
	}
	if shared == nil {
		cx.undecided("anchor", "deploy/shared-data", "no struct type of package deploy lays its fields out with PutUint32 any more: the shared transaction data type cannot be identified", "")
		return
	}
	st := shared.Underlying().(*types.Struct)
	isShared := func(t types.Type) bool {
		if pt, ok := t.(*types.Pointer); ok {
			t = pt.Elem()
		}
		return types.Identical(t, shared)
	}
	nMatchers := 0
	for _, fn := range allFuncs(sp) {
		if fn.Blocks == nil || fn.Signature.Results().Len() != 1 || !isBoolType(fn.Signature.Results().At(0).Type()) {
			continue
		}
		hasShared, hasTx := false, false
		for _, prm := range fn.Params {
			if isShared(prm.Type()) {
				hasShared = true
			} else if strings.HasSuffix(typeName(prm.Type()), "transaction.Transaction") {
				hasTx = true
			}
		}
		if !hasShared || !hasTx {
			continue
		}
		nMatchers++
		fieldOf := func(v ssa.Value) string {
			for {
				switch x := v.(type) {
				case *ssa.ChangeType:
					v = x.X
					continue
				case *ssa.Convert:
					v = x.X
					continue
				case *ssa.Field:
					if isShared(x.X.Type()) {
						return st.Field(x.Field).Name()
					}
				case *ssa.UnOp:
					if fa, ok := x.X.(*ssa.FieldAddr); ok && x.Op == token.MUL && isShared(fa.X.Type()) {
						return st.Field(fa.Field).Name()
					}
				}
				return ""
			}
		}
		// comparison value -> (field, equal side: 0 when the value is true on equality)
		cmpOf := func(v ssa.Value) (string, int) {
			switch x := v.(type) {
			case *ssa.BinOp:
				if x.Op != token.EQL && x.Op != token.NEQ {
					return "", 0
				}
				f := fieldOf(x.X)
				if f == "" {
					f = fieldOf(x.Y)
				}
				if f == "" {
					return "", 0
				}
				if x.Op == token.EQL {
					return f, 0
				}
				return f, 1
			case *ssa.Call:
				cal := x.Common().StaticCallee()
				if cal == nil || (cal.Name() != "Equals" && cal.Name() != "Equal") {
					return "", 0
				}
				for _, a := range x.Common().Args {
					if f := fieldOf(a); f != "" {
						return f, 0
					}
				}
			}
			return "", 0
		}
		type test struct {
			b    *ssa.BasicBlock
			side int
		}
		tests := map[string][]test{}
		for _, b := range fn.Blocks {
			if ifi, ok := b.Instrs[len(b.Instrs)-1].(*ssa.If); ok {
				if f, side := cmpOf(ifi.Cond); f != "" {
					tests[f] = append(tests[f], test{b, side})
				}
			}
		}
		// the points where the answer is (or may be) true
		type point struct {
			b     *ssa.BasicBlock
			side  int    // the side of b's own test on which the answer is given (-1: not tied to a side)
			field string // the field whose comparison *is* the answer here
			bad   string
		}
		var points []point
		addVal := func(b *ssa.BasicBlock, side int, v ssa.Value) {
			if c, ok := v.(*ssa.Const); ok {
				if c.Value != nil && constant.BoolVal(c.Value) {
					points = append(points, point{b: b, side: side})
				}
				return
			}
			f, eq := cmpOf(v)
			if f != "" && eq == 1 {
				points = append(points, point{b: b, side: side, bad: fmt.Sprintf("the answer is the *inequality* of field %s", f)})
				return
			}
			points = append(points, point{b: b, side: side, field: f})
		}
		for _, b := range fn.Blocks {
			ret, ok := b.Instrs[len(b.Instrs)-1].(*ssa.Return)
			if !ok {
				continue
			}
			if phi, ok := ret.Results[0].(*ssa.Phi); ok && phi.Block() == b {
				for i, e := range phi.Edges {
					pr, side := b.Preds[i], -1
					if len(pr.Succs) == 2 && pr.Succs[0] != pr.Succs[1] {
						if pr.Succs[0] == b {
							side = 0
						} else {
							side = 1
						}
					}
					addVal(pr, side, e)
				}
			} else {
				addVal(b, -1, ret.Results[0])
			}
		}
		var missing []string
		for _, pt := range points {
			if pt.bad != "" {
				missing = append(missing, pt.bad)
				continue
			}
			for i := 0; i < st.NumFields(); i++ {
				f := st.Field(i).Name()
				if f == pt.field {
					continue
				}
				ok := false
				for _, t := range tests[f] {
					if t.b == pt.b {
						if t.side == pt.side {
							ok = true
						}
						continue
					}
					if viaEdge(t.b, t.side, pt.b) {
						ok = true
					}
				}
				if !ok {
					missing = append(missing, fmt.Sprintf("a true answer at %s is reachable without field %s having compared equal", blockPos(w, pt.b), f))
				}
			}
		}
		sort.Strings(missing)
		cx.decide(len(missing) == 0 && len(points) > 0, "shared-match", "deploy."+fn.Name(), fmt.Sprintf("answers true only where each of the %d fields of %s compared equal", st.NumFields(), shared.Obj().Name()), "a transaction is taken for the shared one although it may differ from the shared data: "+strings.Join(missing, "; ")+" — the member signs or keeps a transaction its peers do not build, the multi-signature never completes", w.pos(fn.Pos()))
	}
	cx.count("shared_matchers", nMatchers)
	cx.floor("shared_matchers", 1)
}

func isBoolType(t types.Type) bool {
	b, ok := t.Underlying().(*types.Basic)
	return ok && b.Kind() == types.Bool
}

// checkVerifiedSignatures: a byte string that is put into a map of collected
// signatures and that is also handed to a Verify* method (or came out of a
// `(ok bool, rest []byte)` splitter) is stored only on the side where the
// verification (the splitter's ok) answered true. Otherwise the leader
// assembles the multi-signature from exactly the signatures that failed.
func checkVerifiedSignatures(cx *CheckCtx, sp *ssa.Package) {
	w := cx.W
	sameVal := func(a, b ssa.Value) bool {
		if a == b {
			return true
		}
		la, ok1 := a.(*ssa.UnOp)
		lb, ok2 := b.(*ssa.UnOp)
		return ok1 && ok2 && la.Op == token.MUL && lb.Op == token.MUL && la.X == lb.X
	}
	isBytes := func(t types.Type) bool {
		s, ok := t.Underlying().(*types.Slice)
		if !ok {
			return false
		}
		b, ok := s.Elem().Underlying().(*types.Basic)
		return ok && b.Kind() == types.Uint8
	}
	ifOn := func(fn *ssa.Function, v ssa.Value) (*ssa.BasicBlock, int) {
		for _, b := range fn.Blocks {
			ifi, ok := b.Instrs[len(b.Instrs)-1].(*ssa.If)
			if !ok {
				continue
			}
			if ifi.Cond == v {
				return b, 0
			}
			if u, ok := ifi.Cond.(*ssa.UnOp); ok && u.Op == token.NOT && u.X == v {
				return b, 1
			}
		}
		return nil, 0
	}
	n := 0
	for _, fn := range allFuncs(sp) {
		for _, b := range fn.Blocks {
			for _, ins := range b.Instrs {
				mu, ok := ins.(*ssa.MapUpdate)
				if !ok || !isBytes(mu.Value.Type()) {
					continue
				}
				v := mu.Value
				site := fmt.Sprintf("deploy.%s@%s", fn.Name(), w.pos(mu.Pos()))
				// verification calls on the stored value
				for _, b2 := range fn.Blocks {
					for _, ins2 := range b2.Instrs {
						c, ok := ins2.(*ssa.Call)
						if !ok || !isBoolType(c.Type()) {
							continue
						}
						name := ""
						if c.Common().Method != nil {
							name = c.Common().Method.Name()
						} else if cal := c.Common().StaticCallee(); cal != nil {
							name = cal.Name()
						}
						if !strings.HasPrefix(name, "Verify") {
							continue
						}
						uses := false
						for _, a := range c.Common().Args {
							if sameVal(a, v) {
								uses = true
							}
						}
						if !uses {
							continue
						}
						n++
						tb, side := ifOn(fn, c)
						cx.decide(tb != nil && viaEdge(tb, side, b), "signature-verified", site, "the signature is stored only where "+name+" answered true", "the signature stored at "+w.pos(mu.Pos())+" is not confined to the side where "+name+" (at "+w.pos(c.Pos())+") answered true: signatures that failed verification are collected (and valid ones dropped), the assembled multi-signature is invalid", w.pos(mu.Pos()))
					}
				}
				// a splitter's ok
				if ex, ok := v.(*ssa.Extract); ok {
					for _, r := range *ex.Tuple.Referrers() {
						ok0, isEx := r.(*ssa.Extract)
						if !isEx || ok0 == ex || !isBoolType(ok0.Type()) {
							continue
						}
						n++
						tb, side := ifOn(fn, ok0)
						cx.decide(tb != nil && viaEdge(tb, side, b), "signature-verified", site+"/split", "the payload is stored only where the splitter that produced it answered true", "the byte string stored at "+w.pos(mu.Pos())+" comes out of a (ok, rest) splitter whose ok is not required to be true on the way: a record whose checksum does not match the shared data is taken for a signature of the current transaction", w.pos(mu.Pos()))
					}
				}
			}
		}
	}
	cx.count("verified_stores", n)
	cx.floor("verified_stores", 1)
	// the collection loop tolerates members whose record cannot be read
	nTol := 0
	seenLoop := map[*ssa.BasicBlock]bool{}
	for _, fn := range allFuncs(sp) {
		for _, b := range fn.Blocks {
			for _, ins := range b.Instrs {
				mu, ok := ins.(*ssa.MapUpdate)
				if !ok || !isBytes(mu.Value.Type()) {
					continue
				}
				verified := false
				for _, b2 := range fn.Blocks {
					for _, ins2 := range b2.Instrs {
						if c, ok := ins2.(*ssa.Call); ok && isBoolType(c.Type()) {
							name := ""
							if c.Common().Method != nil {
								name = c.Common().Method.Name()
							} else if cal := c.Common().StaticCallee(); cal != nil {
								name = cal.Name()
							}
							if strings.HasPrefix(name, "Verify") {
								for _, a := range c.Common().Args {
									if sameVal(a, mu.Value) {
										verified = true
									}
								}
							}
						}
					}
				}
				hdr := innermostLoop(b)
				if !verified || hdr == nil || seenLoop[hdr] {
					continue
				}
				seenLoop[hdr] = true
				in := loopBlocks(hdr)
				// from blk, can the walk leave the loop (or the function) before coming round to the header?
				leaves := func(start *ssa.BasicBlock) (leave, round bool) {
					seen := map[*ssa.BasicBlock]bool{}
					work := []*ssa.BasicBlock{start}
					for len(work) > 0 {
						x := work[len(work)-1]
						work = work[:len(work)-1]
						if x == hdr {
							round = true
							continue
						}
						if seen[x] {
							continue
						}
						seen[x] = true
						if !in[x] {
							leave = true
							continue
						}
						if len(x.Succs) == 0 {
							leave = true
						}
						work = append(work, x.Succs...)
					}
					return
				}
				for _, tb := range fn.Blocks {
					if !in[tb] || innermostLoop(tb) != hdr {
						continue
					}
					ifi, ok := tb.Instrs[len(tb.Instrs)-1].(*ssa.If)
					if !ok {
						continue
					}
					bo, ok := ifi.Cond.(*ssa.BinOp)
					if !ok || (bo.Op != token.NEQ && bo.Op != token.EQL) {
						continue
					}
					var ev ssa.Value
					if c, isC := bo.Y.(*ssa.Const); isC && c.IsNil() && isErrorType(bo.X.Type()) {
						ev = bo.X
					} else if c, isC := bo.X.(*ssa.Const); isC && c.IsNil() && isErrorType(bo.Y.Type()) {
						ev = bo.Y
					}
					if ev == nil {
						continue
					}
					// only errors produced inside this loop (this member's record), not those of the setup before it
					if evi, isIns := ev.(ssa.Instruction); !isIns || evi.Block() == nil || !in[evi.Block()] {
						continue
					}
					side := 0
					if bo.Op == token.EQL {
						side = 1
					}
					leave, round := leaves(tb.Succs[side])
					nTol++
					cx.decide(!leave && round, "collection-tolerant", fmt.Sprintf("deploy.%s@%s", fn.Name(), w.pos(bo.Pos())), "a member whose record cannot be read or decoded is skipped: the failure side always comes round to the next member", "in the signature-collection loop the failure side of the error test at "+w.pos(bo.Pos())+" can leave the loop instead of going on with the next member: one absent or broken member stops the leader from collecting the signatures of the others, so a majority is no longer enough", w.pos(bo.Pos()))
				}
				// the splitter's ok and the verification: their failing side must at least be able to go on
				for _, tb := range fn.Blocks {
					if !in[tb] || innermostLoop(tb) != hdr {
						continue
					}
					ifi, ok := tb.Instrs[len(tb.Instrs)-1].(*ssa.If)
					if !ok {
						continue
					}
					cond := ifi.Cond
					fail := 1
					if u, isU := cond.(*ssa.UnOp); isU && u.Op == token.NOT {
						cond, fail = u.X, 0
					}
					isCheck := false
					if ex, isEx := cond.(*ssa.Extract); isEx && isBoolType(ex.Type()) {
						if mex, isM := mu.Value.(*ssa.Extract); isM && mex.Tuple == ex.Tuple {
							isCheck = true
						}
					}
					if c, isC := cond.(*ssa.Call); isC {
						for _, a := range c.Common().Args {
							if sameVal(a, mu.Value) {
								isCheck = true
							}
						}
					}
					if !isCheck {
						continue
					}
					_, round := leaves(tb.Succs[fail])
					nTol++
					cx.decide(round, "collection-tolerant", fmt.Sprintf("deploy.%s@%s/invalid", fn.Name(), blockPos(w, tb)), "a record that fails its check does not end the scan: the failing side can go on with the next member", "in the signature-collection loop the failing side of the check at "+blockPos(w, tb)+" never goes on with the next member: one stale or invalid record stops the collection", w.pos(ifi.Cond.Pos()))
				}
			}
		}
	}
	cx.count("collection_failure_sides", nTol)
	cx.floor("collection_failure_sides", 2)
}

func isErrorType(t types.Type) bool {
	return types.Identical(t, types.Universe.Lookup("error").Type())
}

// checkDivideIndices: a helper that hands out shares through a callback
// `f(index, amount)` passes every receiver index at most once. Call sites in
// different counting loops pass index ranges [c, c+n) (c the offset added to
// the loop variable, n the loop's bound); two such ranges must be adjacent
// (c₂ == c₁ + n₁ or the other way round) — otherwise a receiver is paid
// twice and another not at all, and the shares no longer differ by at most one.
func checkDivideIndices(cx *CheckCtx, sp *ssa.Package) {
	w := cx.W
	n := 0
	for _, fn := range allFuncs(sp) {
		if fn.Blocks == nil {
			continue
		}
		var cb *ssa.Parameter
		for _, p := range fn.Params {
			if sig, ok := p.Type().Underlying().(*types.Signature); ok && sig.Params().Len() == 2 && sig.Results().Len() == 0 && isInteger(sig.Params().At(0).Type()) && isInteger(sig.Params().At(1).Type()) {
				cb = p
			}
		}
		if cb == nil {
			continue
		}
		type rng struct {
			hdr      *ssa.BasicBlock
			off, len ssaLinForm
			pos      token.Pos
		}
		var rs []rng
		for _, b := range fn.Blocks {
			for _, ins := range b.Instrs {
				c, ok := ins.(*ssa.Call)
				if !ok || c.Common().Value != ssa.Value(cb) || c.Common().IsInvoke() {
					continue
				}
				idx := ssaLin(c.Common().Args[0], 0)
				var phi *ssa.Phi
				for v, k := range idx.c {
					if p, isPhi := v.(*ssa.Phi); isPhi && k == 1 {
						for _, pr := range p.Block().Preds {
							if p.Block().Dominates(pr) {
								phi = p
							}
						}
					}
				}
				if phi == nil {
					continue
				}
				hdr := phi.Block()
				// the loop variable may be the phi itself or phi+1 (range loops count from -1)
				var start ssa.Value
				for i, pr := range hdr.Preds {
					if !hdr.Dominates(pr) {
						start = phi.Edges[i]
					}
				}
				ifi, isIf := hdr.Instrs[len(hdr.Instrs)-1].(*ssa.If)
				if start == nil || !isIf {
					continue
				}
				cond, isBin := ifi.Cond.(*ssa.BinOp)
				if !isBin || cond.Op != token.LSS {
					continue
				}
				// cond: v < bound with v = phi + k. In a header-tested loop the phi takes the values
				// [start, bound − k); in a rotated loop (range over an integer) the test is made on the
				// next value (v is the back-edge value of the phi) and the phi takes [start, bound − k + 1)
				v := ssaLin(cond.X, 0)
				onePhi := ssaLinForm{c: map[ssa.Value]int64{phi: 1}}
				kf := v.plus(onePhi, -1)
				if len(kf.c) != 0 {
					continue
				}
				end := ssaLin(cond.Y, 0).plus(kf, -1)
				for i, pr := range hdr.Preds {
					if hdr.Dominates(pr) && phi.Edges[i] == cond.X {
						end = end.plus(ssaLinForm{c: map[ssa.Value]int64{}, k: 1}, 1)
					}
				}
				first := ssaLin(start, 0)
				bound := end
				// index = phi + off  ⇒ off = idx − phi
				off := idx.plus(onePhi, -1)
				rs = append(rs, rng{hdr, off.plus(first, 1), bound.plus(first, -1), c.Pos()})
			}
		}
		for i := 0; i < len(rs); i++ {
			for j := i + 1; j < len(rs); j++ {
				if rs[i].hdr == rs[j].hdr {
					continue
				}
				n++
				adj := rs[j].off.equal(rs[i].off.plus(rs[i].len, 1)) || rs[i].off.equal(rs[j].off.plus(rs[j].len, 1))
				cx.decide(adj, "divide-indices", fmt.Sprintf("deploy.%s@%s", fn.Name(), w.pos(rs[j].pos)), "the index ranges handed to the callback by the two loops are adjacent", fmt.Sprintf("%s hands the callback the indices [%s, +%s) in one loop and [%s, +%s) in another: the ranges are not adjacent, a receiver is given two shares and another none", fn.Name(), rs[i].off, rs[i].len, rs[j].off, rs[j].len), w.pos(rs[j].pos))
			}
		}
		cx.count("divide_callback_sites", len(rs))
	}
	cx.count("divide_range_pairs", n) // no floor: one loop (today) has no pair to compare
}

// checkConfigIntCodec: numeric settings reach the contracts as the byte strings
// the deployment hands to Netmap's _deploy; the contracts read them back as VM
// integers (`storage.Get(...).(int)`). Writer and reader agree only if the
// writer uses the VM's own integer encoding (two's complement, little-endian,
// with a sign byte when the top bit is set). Every function of package deploy
// that turns an integer into a byte string must therefore return what neo-go's
// integer codec produced (stackitem.BigInteger.Bytes / bigint.ToBytes), not a
// hand-made byte order: without the sign byte a fee of 50000 is read as −15536.
func checkConfigIntCodec(cx *CheckCtx, rule string) {
	w := cx.W
	dp := w.ByPath[modPrefix+"deploy"]
	if dp == nil {
		return
	}
	sp := w.Prog.Package(dp.Types)
	if sp == nil {
		return
	}
	isBytes := func(t types.Type) bool {
		s, ok := t.Underlying().(*types.Slice)
		if !ok {
			return false
		}
		b, ok := s.Elem().Underlying().(*types.Basic)
		return ok && b.Kind() == types.Uint8
	}
	n := 0
	for _, fn := range allFuncs(sp) {
		sig := fn.Signature
		if fn.Blocks == nil || fn.Parent() != nil || sig.Recv() != nil || sig.Params().Len() != 1 || sig.Results().Len() != 1 || !isInteger(sig.Params().At(0).Type()) || !isBytes(sig.Results().At(0).Type()) {
			continue
		}
		n++
		ok, what := true, ""
		for _, b := range fn.Blocks {
			ret, isRet := b.Instrs[len(b.Instrs)-1].(*ssa.Return)
			if !isRet {
				continue
			}
			good := false
			if c, isCall := ret.Results[0].(*ssa.Call); isCall {
				if cal := c.Common().StaticCallee(); cal != nil {
					name := cal.String()
					if strings.Contains(name, "stackitem.BigInteger).Bytes") || strings.Contains(name, "encoding/bigint.ToBytes") || strings.Contains(name, "encoding/bigint.ToPreallocatedBytes") {
						good = true
					} else {
						what = "it returns the result of " + name
					}
				}
			}
			if !good {
				ok = false
				if what == "" {
					what = "it returns bytes it arranged itself"
				}
			}
		}
		cx.decide(ok, rule, "deploy."+fn.Name(), "integers become byte strings through neo-go's VM integer codec", "deploy."+fn.Name()+" turns an integer setting into bytes without the VM's integer codec ("+what+"): the contracts read the stored bytes back as a VM integer, so a value whose top bit is set comes back negative (or an empty string for 0 is read differently) — fees and counts configured at deployment are not the ones the contracts use", w.pos(fn.Pos()))
	}
	cx.count("deploy_int_encoders", n)
	cx.floor("deploy_int_encoders", 1)
}

// checkHashFromVarint: a script hash (or id, or key) is a fixed-width byte
// string; convert.ToBytes gives the *minimal signed* little-endian bytes of an
// integer. A function of the contracts or of package common whose result type
// is one of the fixed-width interop types and that returns convert.ToBytes(…)
// as it is loses every trailing 0x00 (or 0xFF) byte that the sign rule makes
// redundant: about one address in 256 comes back 19 bytes long, and the
// contract that resolves its peers through NNS at deployment cannot be deployed.
func checkHashFromVarint(cx *CheckCtx) {
	w := cx.W
	n := 0
	for _, p := range w.Pkgs {
		rel := strings.TrimPrefix(p.PkgPath, modPrefix)
		if !(strings.HasPrefix(rel, "contracts/") || rel == "common") {
			continue
		}
		sp := w.Prog.Package(p.Types)
		if sp == nil {
			continue
		}
		for _, fn := range allFuncs(sp) {
			if fn.Blocks == nil || fn.Signature.Results().Len() != 1 {
				continue
			}
			rt, ok := fn.Signature.Results().At(0).Type().(*types.Named)
			if !ok || rt.Obj().Pkg() == nil || !strings.HasSuffix(rt.Obj().Pkg().Path(), "pkg/interop") {
				continue
			}
			switch rt.Obj().Name() {
			case "Hash160", "Hash256", "PublicKey":
			default:
				continue
			}
			n++
			bad := ""
			for _, b := range fn.Blocks {
				ret, isRet := b.Instrs[len(b.Instrs)-1].(*ssa.Return)
				if !isRet {
					continue
				}
				v := ret.Results[0]
				for {
					switch x := v.(type) {
					case *ssa.ChangeType:
						v = x.X
						continue
					case *ssa.Convert:
						v = x.X
						continue
					}
					break
				}
				if c, isCall := v.(*ssa.Call); isCall {
					if cal := c.Common().StaticCallee(); cal != nil && fq(cal) == "convert.ToBytes" {
						bad = w.pos(ret.Pos())
					}
				}
			}
			cx.decide(bad == "", "names", "fixed-width-result/"+fq(fn), "a "+rt.Obj().Name()+" result is not the minimal integer encoding of a number", fq(fn)+" returns convert.ToBytes(…) as a "+rt.Obj().Name()+" (at "+bad+"): the minimal signed encoding drops a trailing 0x00/0xFF byte, so one value in 256 comes back a byte short — a contract name resolved through NNS is then not a contract hash, and the contracts that subscribe to their peers at deployment cannot be deployed", w.pos(fn.Pos()))
		}
	}
	cx.count("fixed_width_result_functions", n)
	cx.floor("fixed_width_result_functions", 5)
}
