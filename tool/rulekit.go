package main

// Helpers shared by the per-property rules.

import (
	"fmt"
	"go/constant"
	"go/token"
	"go/types"
	"strings"

	"golang.org/x/tools/go/ssa"
)

// ---------- anchors ----------

func (cx *CheckCtx) contract(name string) *Contract {
	c := cx.W.Contracts[name]
	if c == nil {
		cx.undecided("anchor", "contracts/"+name, "contract package contracts/"+name+" (with config.yml) is gone", "")
	}
	return c
}

func (cx *CheckCtx) method(contract, goName string) *Method {
	c := cx.contract(contract)
	if c == nil {
		return nil
	}
	if goName == "_deploy" {
		if c.Deploy == nil {
			cx.undecided("anchor", "contracts/"+contract+"._deploy", "anchor function is gone", "")
			return nil
		}
		return &Method{C: c, ABI: "_deploy", GoName: "_deploy", Fn: c.Deploy, NParams: 2}
	}
	m := c.Method(goName)
	if m == nil {
		cx.undecided("anchor", "contracts/"+contract+"."+goName, "anchor method "+goName+" of contract "+contract+" is gone (renamed or removed): the rules anchored on it cannot be decided", "")
	}
	return m
}

// pkgFunc finds a package-level function or method ("Token.transfer") by name.
func (cx *CheckCtx) pkgFunc(pkgRel, name string) *ssa.Function {
	p := cx.W.ByPath[modPrefix+pkgRel]
	if p == nil {
		cx.undecided("anchor", pkgRel, "package is gone", "")
		return nil
	}
	sp := cx.W.Prog.Package(p.Types)
	if i := strings.Index(name, "."); i >= 0 {
		tn := sp.Type(name[:i])
		if tn != nil {
			for _, ptr := range []bool{false, true} {
				var t = tn.Type()
				if ptr {
					t = typesPointer(t)
				}
				ms := cx.W.Prog.MethodSets.MethodSet(t)
				for j := 0; j < ms.Len(); j++ {
					if ms.At(j).Obj().Name() == name[i+1:] {
						if f := cx.W.Prog.MethodValue(ms.At(j)); f != nil {
							return f
						}
					}
				}
			}
		}
	} else if f := sp.Func(name); f != nil {
		return f
	}
	cx.undecided("anchor", pkgRel+"."+name, "anchor function "+name+" is gone (renamed or removed)", "")
	return nil
}

func (cx *CheckCtx) run(m *Method) *Analysis {
	return cx.analyze(&Query{Name: "std", Root: m.Fn})
}

func (cx *CheckCtx) runWith(m *Method, consts map[int]constant.Value, tag string) *Analysis {
	return cx.analyze(&Query{Name: "std:" + tag, Root: m.Fn, Consts: consts})
}

// ---------- literals ----------

func (a *Analysis) litLtC(t *Term, c int64) int32 { return a.lt.id(Lit{Kind: KLtC, A: t, C: c}) }
func (a *Analysis) litEqC(t *Term, c int64) int32 { return a.lt.id(Lit{Kind: KEqC, A: t, C: c}) }
func (a *Analysis) litLt(x, y *Term) int32        { return a.lt.id(Lit{Kind: KLt, A: x, B: y}) }
func (a *Analysis) litNil(t *Term) int32          { return a.lt.id(Lit{Kind: KNil, A: t}) }
func (a *Analysis) litB(t *Term) int32            { return a.lt.id(Lit{Kind: KB, A: t}) }
func (a *Analysis) litW(t *Term) int32            { return a.lt.id(Lit{Kind: KW, A: t}) }
func (a *Analysis) litLen(t *Term) *Term          { return a.tb.mk("len", "", 0, t) }

// holdsAt: the state entails the disjunction of lits.
func (a *Analysis) holdsAt(st *CNF, lits ...int32) bool {
	if st == nil {
		return false
	}
	return st.refutes(a.lt, lits)
}

// trueLits: literals equivalent to boolean term t being true/false (nil if
// the term has no literal form).
func (a *Analysis) boolLits(t *Term, pol bool) []int32 { return a.condLits(t, pol, 0) }

// ---------- storage sites ----------

func isStore(s *Site) bool { return s.Effect == "put" || s.Effect == "delete" }

// keyParts: components of a storage key term.
func keyParts(t *Term) []*Term {
	if t == nil {
		return nil
	}
	if t.Op == "cat" {
		return t.Args
	}
	return []*Term{t}
}

// keyFamily: the leading constant of a key ("" when it starts with a variable part).
func keyFamily(t *Term) string {
	ps := keyParts(t)
	if len(ps) == 0 {
		return ""
	}
	if s, ok := ps[0].BytesConst(); ok {
		return s
	}
	return ""
}

// keyRest: the key without its leading constant.
func keyRest(tb *TermBuilder, t *Term) *Term {
	ps := keyParts(t)
	if len(ps) == 0 {
		return nil
	}
	if _, ok := ps[0].BytesConst(); ok {
		return tb.cat(ps[1:]...)
	}
	return t
}

// serialized: the value under std.Serialize, if any.
func unserialize(t *Term) *Term {
	if isCall(t, "native/std.Serialize") && len(t.Args) == 1 {
		return t.Args[0]
	}
	return t
}

// structField: field of a reconstructed struct literal term.
func structField(tb *TermBuilder, t *Term, name string) *Term {
	if t == nil {
		return nil
	}
	return tb.field(t, name)
}

// rootFrame: site is in the root function itself (not in an inlined callee).
func rootFrame(s *Site) bool { return s.Ctx.parent == nil }

// frameNames: function names along the call string, outermost first.
func frameNames(s *Site) []string {
	var fr []string
	for c := s.Ctx; c != nil; c = c.parent {
		fr = append([]string{fq(c.fn)}, fr...)
	}
	return fr
}

func inFrame(s *Site, fn string) bool { return s.Ctx.inFunc(fn) }

func notifyName(s *Site) string {
	if s.Effect == "notify" && len(s.Args) > 0 {
		if n, ok := s.Args[0].BytesConst(); ok {
			return n
		}
	}
	return ""
}

// notifyArgs: the argument list of a Notify site (varargs array).
func notifyArgs(s *Site) []*Term {
	if len(s.Args) >= 2 && s.Args[1].Op == "arr" {
		return s.Args[1].Args
	}
	return nil
}

func termList(ts []*Term) string {
	var ps []string
	for _, t := range ts {
		ps = append(ps, t.pretty())
	}
	return "[" + strings.Join(ps, ", ") + "]"
}

func siteDesc(a *Analysis, s *Site) string {
	return fmt.Sprintf("%s at %s", effectDesc(a, s), s.Where(a.w))
}

// inLoopOf: is the site's instruction inside a loop of its own frame or is
// any frame on its call string entered from inside a loop?
func siteInLoop(s *Site) bool {
	ins := ssa.Instruction(s.Instr)
	for c := s.Ctx; c != nil; c = c.parent {
		if blockInLoop(ins.Block()) {
			return true
		}
		if c.cont == nil {
			break
		}
		ins = c.cont
	}
	return false
}

// blockInLoop: b is on a cycle of its function's CFG.
func blockInLoop(b *ssa.BasicBlock) bool {
	seen := map[*ssa.BasicBlock]bool{}
	work := append([]*ssa.BasicBlock{}, b.Succs...)
	for len(work) > 0 {
		x := work[len(work)-1]
		work = work[:len(work)-1]
		if x == b {
			return true
		}
		if seen[x] {
			continue
		}
		seen[x] = true
		work = append(work, x.Succs...)
	}
	return false
}

// sameTerm under the unit equalities known at a site.
func (a *Analysis) canonAt(s *Site, t *Term) *Term { return a.Canon(s.In, t) }

// recordOf: t (after expanding alternatives) is the stored record
// Deserialize(Get(key)) with the zero/empty default; returns the key term.
func recordOf(tb *TermBuilder, t *Term) (*Term, bool) {
	var key *Term
	for _, alt := range tb.Alts(t) {
		switch {
		case isCall(alt, "native/std.Deserialize") && len(alt.Args) == 1 && alt.Args[0].Op == "read":
			if key != nil && key != alt.Args[0].Args[0] {
				return nil, false
			}
			key = alt.Args[0].Args[0]
		case alt.Op == "struct" || alt.Op == "zero" || alt.Op == "arr":
			// default literal
		default:
			return nil, false
		}
	}
	return key, key != nil
}

func typesPointer(t types.Type) types.Type { return types.NewPointer(t) }

// everyElement: site s sits in a loop of its own frame and is executed for
// every element the loop visits: the loop ends only through its header (on
// exhaustion; an exit into a block that only panics aborts the transaction and
// does not count) and no feasible edge goes round the site within an iteration,
// unless the state on that edge entails one of the literals in allowed.
func everyElement(a *Analysis, s *Site, allowed func(st *CNF) bool) (bool, string) {
	// the loop may sit in a caller's frame (the operation extracted into a helper): walk up
	// to the first frame that holds the site in a loop; in the frames below it nothing may
	// go round the site at all
	for k := s.Ctx; k != nil; k = k.parent {
		blk := frameBlock(s, k)
		if blk == nil {
			break
		}
		hdr := innermostLoop(blk)
		if hdr == nil {
			for _, sk := range a.skipEdges(k, blk, nil) {
				if allowed != nil && allowed(sk.St) {
					continue
				}
				return false, "a path of the helper goes round the operation (at " + blockPos(a.w, sk.From) + ")"
			}
			continue
		}
		for _, e := range loopExits(hdr) {
			if e.from == hdr {
				continue
			}
			if _, isPanic := e.to.Instrs[len(e.to.Instrs)-1].(*ssa.Panic); isPanic {
				continue
			}
			if a.edgeState(k, e.from, e.to) == nil {
				continue // infeasible
			}
			return false, "the loop can be left before every element was visited (at " + blockPos(a.w, e.from) + ")"
		}
		for _, sk := range a.skipEdges(k, blk, func(b *ssa.BasicBlock) bool { return b == hdr }) {
			if allowed != nil && allowed(sk.St) {
				continue
			}
			return false, "an iteration can go round the operation (at " + blockPos(a.w, sk.From) + ")"
		}
		return true, ""
	}
	return false, "the operation is not in a loop"
}

// blockPos: a source position for the end of block b (the last instruction that has one).
func blockPos(w *World, b *ssa.BasicBlock) string {
	for i := len(b.Instrs) - 1; i >= 0; i-- {
		if p := b.Instrs[i].Pos(); p.IsValid() {
			return w.pos(p)
		}
		if v, ok := b.Instrs[i].(*ssa.If); ok {
			if p := v.Cond.Pos(); p.IsValid() {
				return w.pos(p)
			}
		}
	}
	return "?"
}

// alwaysReached: every normal path of the site's frame reaches the site (its
// outermost enclosing loop, when it sits in one), unless the state on the edge
// that goes round it satisfies allowed.
func alwaysReached(a *Analysis, s *Site, allowed func(st *CNF) bool) (bool, string) {
	for k := s.Ctx; k != nil; k = k.parent {
		target := frameBlock(s, k)
		if target == nil {
			break
		}
		if ls := enclosingLoops(target); len(ls) > 0 {
			target = ls[len(ls)-1]
		}
		for _, sk := range a.skipEdges(k, target, nil) {
			if allowed != nil && allowed(sk.St) {
				continue
			}
			return false, "a normal path goes round it at " + blockPos(a.w, sk.From)
		}
	}
	return true, ""
}

// resultSite: the inlined call site of function fn whose result is the term t
// (nil when t is not such a result). A helper with several returns yields a
// ret term named after it; a helper with a single return yields the returned
// term itself (a phi of a flag, …) — both spellings of the helper are the same
// to the rules.
func (a *Analysis) resultSite(t *Term, fn string) *Site {
	if t == nil || fn == "" || fn == "?" {
		return nil
	}
	if t.Op == "ret" && t.Name == fn {
		if t.Inst > 0 && t.Inst < len(a.tb.insts) && a.tb.insts[t.Inst] != nil {
			in := a.tb.insts[t.Inst]
			return a.siteIdx[siteKey{in.ctx, in.ins}]
		}
		return nil
	}
	if t.Op == "const" {
		return nil
	}
	for _, s := range a.sites {
		if !s.Inlined || s.Callee != fn || s.Val == nil {
			continue
		}
		if s.Val == t {
			return s
		}
		if c, ok := s.Instr.(*ssa.Call); ok && s.Fn != nil && s.Fn.Signature.Results().Len() > 1 {
			for i := 0; i < s.Fn.Signature.Results().Len(); i++ {
				if a.tb.call(s.Ctx, c, i) == t {
					return s
				}
			}
		}
	}
	return nil
}

// loopEmptyAt: the state st entails that the loop with header hdr (in frame ctx)
// would run zero iterations: its continuation condition, with every loop
// variable replaced by its initial value, is false.
func loopEmptyAt(a *Analysis, ctx *Ctx, hdr *ssa.BasicBlock, st *CNF) bool {
	ifi, ok := hdr.Instrs[len(hdr.Instrs)-1].(*ssa.If)
	if !ok || st == nil {
		return false
	}
	inLoop := loopBlocks(hdr)
	ct := a.tb.Term(ctx, ifi.Cond)
	for _, ins := range hdr.Instrs {
		phi, isPhi := ins.(*ssa.Phi)
		if !isPhi {
			break
		}
		var init *Term
		n := 0
		for i, p := range hdr.Preds {
			if !inLoop[p] {
				init = a.tb.Term(ctx, phi.Edges[i])
				n++
			}
		}
		if n != 1 {
			return false
		}
		ct = a.tb.Subst(ct, a.tb.Term(ctx, phi), init)
	}
	// the body is entered on the true side unless the true successor leaves the loop
	bodyOnTrue := inLoop[hdr.Succs[0]]
	lits := a.condLits(ct, !bodyOnTrue, 0)
	if len(lits) == 0 {
		return false
	}
	for _, l := range lits {
		if !a.holdsAt(st, l) {
			return false
		}
	}
	return true
}

// loopOnlyExhaustion: the loop that holds site s (in its own frame or in a
// caller's) is left only through its header or into a block that only panics.
// ok is true with inLoop false when the site is in no loop at all.
func loopOnlyExhaustion(a *Analysis, s *Site) (ok, inLoop bool, why string) {
	for k := s.Ctx; k != nil; k = k.parent {
		blk := frameBlock(s, k)
		if blk == nil {
			break
		}
		hdr := innermostLoop(blk)
		if hdr == nil {
			continue
		}
		for _, e := range loopExits(hdr) {
			if e.from == hdr {
				continue
			}
			if _, isPanic := e.to.Instrs[len(e.to.Instrs)-1].(*ssa.Panic); isPanic {
				continue
			}
			if a.edgeState(k, e.from, e.to) == nil {
				continue
			}
			return false, true, "the loop can be left before every item was visited (at " + blockPos(a.w, e.from) + ")"
		}
		return true, true, ""
	}
	return true, false, ""
}

// storedOrZero: x is a variable (phi) whose alternatives are 0 and a value read
// from storage, and the state st knows that it is the read value exactly when
// the read found something and 0 exactly when it found nothing.
func storedOrZero(a *Analysis, st *CNF, x *Term) bool {
	if x.Op != "phi" {
		return false
	}
	ok := false
	for _, alt := range a.tb.Alts(x) {
		if n, isC := alt.IntConst(); isC && n == 0 {
			continue
		}
		rd := alt
		if rd.Op == "toint" && len(rd.Args) == 1 {
			rd = rd.Args[0]
		}
		if rd.Op != "read" {
			return false
		}
		if !a.holdsAt(st, a.litNil(rd), a.eqLit(x, alt)) || !a.holdsAt(st, -a.litNil(rd), a.litEqC(x, 0)) {
			return false
		}
		ok = true
	}
	return ok
}

// storedPlusD: v is "the integer stored under key (nil key: any read), plus d",
// with an absent entry standing for 0 — spelled either as base + d with the
// variable base ∈ {0, read}, or as the variable v ∈ {d, read + d}; in both
// spellings the state must know that the read value is taken exactly when the
// read found something.
func storedPlusD(a *Analysis, st *CNF, v *Term, d int64, key *Term) bool {
	tb := a.tb
	readOf := func(t *Term) *Term {
		rd := t
		if rd.Op == "toint" && len(rd.Args) == 1 {
			rd = rd.Args[0]
		}
		if rd.Op == "read" && (key == nil || rd.Args[0] == key) {
			return rd
		}
		return nil
	}
	variable := func(x *Term, absent int64, shift int64) bool {
		ok := false
		for _, alt := range tb.Alts(x) {
			if n, isC := alt.IntConst(); isC && n == absent {
				continue
			}
			rd := readOf(tb.binop(token.SUB, alt, tb.constInt(shift), intType))
			if rd == nil {
				return false
			}
			if !a.holdsAt(st, a.litNil(rd), a.eqLit(x, alt)) || !a.holdsAt(st, -a.litNil(rd), a.litEqC(x, absent)) {
				return false
			}
			ok = true
		}
		return ok
	}
	if base := tb.binop(token.SUB, v, tb.constInt(d), intType); base.Op == "phi" {
		return variable(base, 0, 0)
	}
	if v.Op == "phi" {
		return variable(v, d, d)
	}
	return false
}

// ssaMayDependOn: may the SSA value v be computed from target? A backward
// slice that over-approximates data dependence: every operand of an
// instruction, every value stored into a local (or into an address derived
// from it), every argument of a call whose result — or whose address argument —
// is followed. An answer "false" therefore means v is *independent* of target
// (within one function; memory reached through storage or globals is ignored).
func ssaMayDependOn(v, target ssa.Value) bool {
	seen := map[ssa.Value]bool{}
	var visit func(x ssa.Value) bool
	var stores func(addr ssa.Value) bool
	stores = func(addr ssa.Value) bool {
		refs := addr.Referrers()
		if refs == nil {
			return false
		}
		for _, r := range *refs {
			switch r := r.(type) {
			case *ssa.Store:
				if r.Addr == addr && visit(r.Val) {
					return true
				}
			case *ssa.IndexAddr:
				if r.X == addr && (visit(r) || stores(r)) {
					return true
				}
			case *ssa.FieldAddr:
				if r.X == addr && (visit(r) || stores(r)) {
					return true
				}
			case *ssa.Slice:
				if r.X == addr && stores(r) {
					return true
				}
			case ssa.CallInstruction:
				// the callee may write through the address: whatever else it is given may end up there
				for _, a := range r.Common().Args {
					if a != addr && visit(a) {
						return true
					}
				}
			case *ssa.MapUpdate:
				if r.Map == addr && (visit(r.Key) || visit(r.Value)) {
					return true
				}
			}
		}
		return false
	}
	visit = func(x ssa.Value) bool {
		if x == nil {
			return false
		}
		if x == target {
			return true
		}
		if seen[x] {
			return false
		}
		seen[x] = true
		switch x.(type) {
		case *ssa.Alloc, *ssa.MakeMap, *ssa.MakeSlice:
			if stores(x) {
				return true
			}
		case *ssa.Slice, *ssa.IndexAddr, *ssa.FieldAddr:
			if stores(x) {
				return true
			}
		}
		if ins, ok := x.(ssa.Instruction); ok {
			for _, op := range ins.Operands(nil) {
				if *op != nil && visit(*op) {
					return true
				}
			}
		}
		return false
	}
	return visit(v)
}

// orderAxioms: clauses that every total order on the integers satisfies,
// instantiated for the given pairs of terms — asymmetry, trichotomy, equality
// excludes both orders, and discreteness (p < q ⇔ ¬(q < p+1)). The fact engine
// treats comparison literals as opaque atoms; a rule that must not depend on
// how a test is spelled (`a <= b` where a ≠ b is known, `a+1 <= b` for `a < b`)
// hands these to entails().
func (a *Analysis) orderAxioms(pairs ...[2]*Term) [][]int32 {
	tb := a.tb
	one := tb.constInt(1)
	var out [][]int32
	for _, pr := range pairs {
		p, q := pr[0], pr[1]
		if p == nil || q == nil || p == q {
			continue
		}
		pq, qp, eq := a.litLt(p, q), a.litLt(q, p), a.eqLit(p, q)
		out = append(out, []int32{-pq, -qp}, []int32{pq, eq, qp}, []int32{-eq, -pq}, []int32{-eq, -qp})
		p1 := tb.binop(token.ADD, p, one, intType)
		q1 := tb.binop(token.ADD, q, one, intType)
		qp1, pq1 := a.litLt(q, p1), a.litLt(p, q1)
		out = append(out, []int32{-pq, -qp1}, []int32{pq, qp1}, []int32{-qp, -pq1}, []int32{qp, pq1})
	}
	return out
}

// entails: the state together with the axioms entails the disjunction of lits.
func (a *Analysis) entails(st *CNF, axioms [][]int32, lits ...int32) bool {
	if st == nil {
		return false
	}
	units := make([]int32, len(lits))
	for i, l := range lits {
		units[i] = -l
	}
	return !a.satisfiable(st, units, axioms)
}

// eqAxioms: transitivity of equality, instantiated along the chains of Eq
// literals of the state that start at the given terms (a value handed through
// helper parameters and results is a chain of phi == phi equalities; the fact
// engine propagates units, it does not close equalities).
func (a *Analysis) eqAxioms(st *CNF, roots ...*Term) [][]int32 {
	if st == nil {
		return nil
	}
	adj := map[*Term][]*Term{}
	seenPair := map[[2]*Term]bool{}
	for _, c := range st.cl {
		for _, x := range c {
			l, _ := a.lt.get(x)
			if l.Kind != KEq || l.A == nil || l.B == nil || seenPair[[2]*Term{l.A, l.B}] {
				continue
			}
			seenPair[[2]*Term{l.A, l.B}] = true
			adj[l.A] = append(adj[l.A], l.B)
			adj[l.B] = append(adj[l.B], l.A)
		}
	}
	var out [][]int32
	for _, r := range roots {
		if r == nil {
			continue
		}
		seen := map[*Term]bool{r: true}
		frontier := []*Term{r}
		for depth := 0; depth < 5 && len(frontier) > 0; depth++ {
			var next []*Term
			for _, mid := range frontier {
				for _, nb := range adj[mid] {
					if nb == r {
						continue
					}
					if mid != r {
						// also for a neighbour already reached another way: each path is a different derivation
						out = append(out, []int32{-a.eqLit(r, mid), -a.eqLit(mid, nb), a.eqLit(r, nb)})
					}
					if !seen[nb] {
						seen[nb] = true
						next = append(next, nb)
					}
				}
			}
			frontier = next
		}
	}
	return out
}

// panicOnlyIf: the faults of the root function that are decided by a test
// mentioning the given term are raised only for the documented reason: the
// state on every feasible edge into such a panic block entails one of lits
// (with the axioms). Returns the number of edges examined.
func panicOnlyIf(a *Analysis, fn *ssa.Function, about *Term, axioms [][]int32, lits ...int32) (int, bool) {
	tb := a.tb
	n, ok := 0, true
	for _, b := range fn.Blocks {
		if _, isPanic := b.Instrs[len(b.Instrs)-1].(*ssa.Panic); !isPanic {
			continue
		}
		for _, p := range b.Preds {
			ifi, isIf := p.Instrs[len(p.Instrs)-1].(*ssa.If)
			if !isIf {
				continue
			}
			ct := tb.Term(tb.root, ifi.Cond)
			if !ct.contains(func(x *Term) bool { return x == about }) {
				continue
			}
			st := a.edgeState(tb.root, p, b)
			if st == nil {
				continue
			}
			n++
			if !a.entails(st, axioms, lits...) {
				ok = false
			}
		}
	}
	return n, ok
}

// panicOnlyIfCond: panicOnlyIf with the deciding tests selected by a predicate on the condition term.
func panicOnlyIfCond(a *Analysis, fn *ssa.Function, sel func(ct *Term) bool, axioms [][]int32, lits ...int32) (int, bool) {
	tb := a.tb
	n, ok := 0, true
	for _, b := range fn.Blocks {
		if _, isPanic := b.Instrs[len(b.Instrs)-1].(*ssa.Panic); !isPanic {
			continue
		}
		for _, p := range b.Preds {
			ifi, isIf := p.Instrs[len(p.Instrs)-1].(*ssa.If)
			if !isIf {
				continue
			}
			if !sel(tb.Term(tb.root, ifi.Cond)) {
				continue
			}
			st := a.edgeState(tb.root, p, b)
			if st == nil {
				continue
			}
			n++
			if !a.entails(st, axioms, lits...) {
				ok = false
			}
		}
	}
	return n, ok
}

// returnsOnlyIf: like panicOnlyIf for a boolean answer: every feasible edge on
// which the root function answers the constant val, decided by a test that
// mentions all the given terms, carries a state entailing one of lits.
func returnsOnlyIf(a *Analysis, fn *ssa.Function, val bool, axioms [][]int32, lits []int32, about ...*Term) (int, bool) {
	tb := a.tb
	n, ok := 0, true
	isVal := func(v ssa.Value) bool {
		c, isC := v.(*ssa.Const)
		return isC && c.Value != nil && c.Value.Kind() == constant.Bool && constant.BoolVal(c.Value) == val
	}
	check := func(p, b *ssa.BasicBlock) {
		ifi, isIf := p.Instrs[len(p.Instrs)-1].(*ssa.If)
		if !isIf {
			return
		}
		ct := tb.Term(tb.root, ifi.Cond)
		for _, ab := range about {
			if !ct.contains(func(x *Term) bool { return x == ab }) {
				return
			}
		}
		st := a.edgeState(tb.root, p, b)
		if st == nil {
			return
		}
		n++
		if !a.entails(st, axioms, lits...) {
			ok = false
		}
	}
	for _, b := range fn.Blocks {
		ret, isRet := b.Instrs[len(b.Instrs)-1].(*ssa.Return)
		if !isRet || len(ret.Results) != 1 {
			continue
		}
		if isVal(ret.Results[0]) {
			for _, p := range b.Preds {
				check(p, b)
			}
		} else if phi, isPhi := ret.Results[0].(*ssa.Phi); isPhi && phi.Block() == b {
			for i, e := range phi.Edges {
				if isVal(e) {
					check(b.Preds[i], b)
				}
			}
		}
	}
	return n, ok
}

// whoMayCatch: the functions of the contracts that hold an exception-catching frame (a deferred closure
// calling recover), confirmed by reading: the container contract tolerates a failing NNS clean-up of an alias
// on delete, and nothing else. The whole failure model — "a refused operation faults, a faulted invocation
// persists nothing" — rests on exceptions not being caught: inside a catching frame a sub-call that has
// already returned normally stays committed when a later one throws, and a refusal turns into success.
// The entry is stated by what the frame protects, not by the function's name: a function of the container
// contract whose only effect is one call of another contract's "deleteRecords".
var whoMayCatch = map[string]string{
	"container: one contract.Call(…, \"deleteRecords\", …) and nothing else": "alias clean-up on delete: an NNS record that is already gone or expired must not keep the container alive",
}

// allowedCatchingFrame: f is the catching frame of the table (by shape).
func allowedCatchingFrame(f *ssa.Function) (bool, string) {
	if f.Pkg == nil || !strings.HasSuffix(f.Pkg.Pkg.Path(), "/contracts/container") {
		return false, ""
	}
	calls := 0
	for _, b := range f.Blocks {
		for _, ins := range b.Instrs {
			ci, ok := ins.(*ssa.Call)
			if !ok {
				continue
			}
			cal := ci.Common().StaticCallee()
			if cal == nil {
				continue
			}
			switch fq(cal) {
			case "contract.Call":
				m, isC := ci.Common().Args[1].(*ssa.Const)
				if !isC || m.Value == nil || m.Value.Kind() != constant.String || constant.StringVal(m.Value) != "deleteRecords" {
					return false, ""
				}
				calls++
			case "storage.Put", "storage.Delete", "runtime.Notify":
				return false, ""
			}
		}
	}
	if calls != 1 {
		return false, ""
	}
	for k, v := range whoMayCatch {
		return true, k + " — " + v
	}
	return false, ""
}

// checkCatchingFrames (catching-frame): every function with a catching frame that some method of the given
// contracts can reach (their own functions and the helpers of common they inline) is in the who-may-catch
// table. Also undecided: a catching frame the table names that is gone says nothing (no floor).
func checkCatchingFrames(cx *CheckCtx, contracts ...string) {
	n := 0
	seen := map[*ssa.Function]bool{}
	for _, cn := range contracts {
		c := cx.contract(cn)
		if c == nil {
			continue
		}
		ms := append([]*Method{}, c.Methods...)
		if d := cx.method(cn, "_deploy"); d != nil {
			ms = append(ms, d)
		}
		for _, m := range ms {
			var walk func(f *ssa.Function, depth int)
			walk = func(f *ssa.Function, depth int) {
				if f == nil || seen[f] || f.Blocks == nil || depth > 12 {
					return
				}
				seen[f] = true
				n++
				if hasRecover(f) {
					name := fq(f)
					allowed, why := allowedCatchingFrame(f)
					cx.decide(allowed, "catching-frame", name, "a catching frame of the who-may-catch table: "+why, name+" (reached from "+cn+"."+m.GoName+") catches exceptions with a deferred recover and is not in the who-may-catch table: inside it a refusal or a fault of a sub-call no longer faults the invocation — what already happened stays committed, what was refused is reported as done", cx.W.pos(f.Pos()))
				}
				for _, b := range f.Blocks {
					for _, ins := range b.Instrs {
						if ci, ok := ins.(ssa.CallInstruction); ok {
							if cal := ci.Common().StaticCallee(); cal != nil && cal.Pkg != nil && strings.HasPrefix(cal.Pkg.Pkg.Path(), modPrefix) {
								walk(cal, depth+1)
							}
						}
					}
				}
				for _, an := range f.AnonFuncs {
					walk(an, depth+1)
				}
			}
			walk(m.Fn, 0)
		}
	}
	cx.count("functions_checked_for_catching_frames", n)
}

// checkAbortNotThrow (abort-not-throw): the helper of `common` through which the payment callbacks refuse ends
// in util.Abort (ABORT cannot be caught by the calling token contract) and holds no panic (THROW can: a
// paying contract that recovers would book a payment the receiver refused).
func checkAbortNotThrow(cx *CheckCtx) {
	p := cx.W.ByPath[modPrefix+"common"]
	if p == nil {
		return
	}
	var ab *ssa.Function
	for _, f := range allFuncs(cx.W.Prog.Package(p.Types)) {
		if f.Blocks != nil && directCallees(f)["util.Abort"] > 0 {
			ab = f
		}
	}
	if ab == nil {
		cx.violated("abort-not-throw", "common/abort-helper", "no function of common ends in util.Abort any more: the refusals of the payment callbacks are ordinary exceptions, which a paying contract can catch — it then books a payment the receiver has refused", "common")
		return
	}
	hasPanic := false
	for _, b := range ab.Blocks {
		if _, isP := b.Instrs[len(b.Instrs)-1].(*ssa.Panic); isP {
			hasPanic = true
		}
	}
	cx.decide(!hasPanic, "abort-not-throw", fq(ab), "refuses with ABORT on every path", fq(ab)+" can refuse with a panic (THROW) instead of ABORT: a caller that recovers goes on as if the payment had been accepted", cx.W.pos(ab.Pos()))
	// … and every refusal of a payment callback goes through it (or through util.Abort itself)
	for _, cn := range []string{"alphabet", "neofs", "processing", "proxy"} {
		m := cx.method(cn, "OnNEP17Payment")
		if m == nil {
			continue
		}
		own := false
		for _, b := range m.Fn.Blocks {
			if _, isP := b.Instrs[len(b.Instrs)-1].(*ssa.Panic); isP {
				own = true
			}
		}
		cx.decide(!own, "abort-not-throw", cn+".OnNEP17Payment", "no refusal by panic in the callback itself", cn+".OnNEP17Payment refuses with a panic: catchable by the paying contract", cx.W.pos(m.Fn.Pos()))
	}
}
