package main

// Fact lattice (DESIGN §3.4): a small CNF over interned literals. Join at
// control-flow merges is logical OR (clause-wise union), passing a gate is
// AND with unit resolution. Facts are under-approximated: clauses may be
// dropped (width/size caps), never invented.

import (
	"fmt"
	"sort"
	"strings"
)

type LitKind uint8

const (
	KW      LitKind = iota + 1 // runtime.CheckWitness(A) returned true (positive only)
	KCaller                    // runtime.GetCallingScriptHash() == A
	KE                         // effect site #C has executed
	KB                         // boolean term A is true
	KNil                       // A == nil
	KEq                        // A == B (terms)
	KEqC                       // A == C (integer constant)
	KLtC                       // A < C
	KLt                        // A < B
	KS                         // path selector #C: "control entered join point via predecessor C"
)

type Lit struct {
	Kind LitKind
	A, B *Term
	C    int64
}

func (l Lit) String() string {
	switch l.Kind {
	case KW:
		return "W(" + l.A.pretty() + ")"
	case KCaller:
		return "CallerIs(" + l.A.pretty() + ")"
	case KE:
		return fmt.Sprintf("E(%d)", l.C)
	case KB:
		return "B(" + l.A.pretty() + ")"
	case KNil:
		return "Nil(" + l.A.pretty() + ")"
	case KEq:
		return "Eq(" + l.A.pretty() + "," + l.B.pretty() + ")"
	case KEqC:
		return fmt.Sprintf("(%s == %d)", l.A.pretty(), l.C)
	case KLtC:
		return fmt.Sprintf("(%s < %d)", l.A.pretty(), l.C)
	case KLt:
		return "(" + l.A.pretty() + " < " + l.B.pretty() + ")"
	case KS:
		return fmt.Sprintf("s%d", l.C)
	}
	return "?"
}

type LitTable struct {
	lits  []Lit // index = id (0 unused)
	index map[string]int32
	norm  func(Lit) Lit // canonical form of a literal before it is interned (set by the analysis)
}

func newLitTable() *LitTable { return &LitTable{lits: []Lit{{}}, index: map[string]int32{}} }

func (lt *LitTable) id(l Lit) int32 {
	if lt.norm != nil {
		l = lt.norm(l)
	}
	var sb strings.Builder
	fmt.Fprintf(&sb, "%d|", l.Kind)
	if l.A != nil {
		sb.WriteString(l.A.s)
	}
	sb.WriteByte('|')
	if l.B != nil {
		sb.WriteString(l.B.s)
	}
	fmt.Fprintf(&sb, "|%d", l.C)
	k := sb.String()
	if id, ok := lt.index[k]; ok {
		return id
	}
	id := int32(len(lt.lits))
	lt.lits = append(lt.lits, l)
	lt.index[k] = id
	return id
}

func (lt *LitTable) get(id int32) (Lit, bool) { // literal, positive?
	if id < 0 {
		return lt.lits[-id], false
	}
	return lt.lits[id], true
}

func (lt *LitTable) str(id int32) string {
	l, pos := lt.get(id)
	if pos {
		return l.String()
	}
	return "¬" + l.String()
}

// implies: does unit literal u make literal q true (+1), false (-1), or neither (0)?
func (lt *LitTable) implies(u, q int32) int {
	if u == q {
		return 1
	}
	if u == -q {
		return -1
	}
	lu, pu := lt.get(u)
	lq, pq := lt.get(q)
	if lu.A == nil || lu.A != lq.A {
		return 0
	}
	isC := func(k LitKind) bool { return k == KEqC || k == KLtC }
	if !isC(lu.Kind) || !isC(lq.Kind) {
		return 0
	}
	// value of positive lq under u
	val := 0
	switch {
	case lu.Kind == KLtC && pu: // t <= c-1
		if lq.Kind == KLtC && lq.C >= lu.C {
			val = 1
		}
		if lq.Kind == KEqC && lq.C >= lu.C {
			val = -1
		}
	case lu.Kind == KLtC && !pu: // t >= c
		if lq.Kind == KLtC && lq.C <= lu.C {
			val = -1
		}
		if lq.Kind == KEqC && lq.C < lu.C {
			val = -1
		}
	case lu.Kind == KEqC && pu:
		if lq.Kind == KLtC {
			if lu.C < lq.C {
				val = 1
			} else {
				val = -1
			}
		}
		if lq.Kind == KEqC {
			if lu.C == lq.C {
				val = 1
			} else {
				val = -1
			}
		}
	}
	if !pq {
		val = -val
	}
	return val
}

const maxWidth = 7
const maxClauses = 1500

type Clause []int32

func (c Clause) key() string {
	b := make([]byte, 0, len(c)*4)
	for _, x := range c {
		b = append(b, byte(x), byte(x>>8), byte(x>>16), byte(x>>24))
	}
	return string(b)
}

type CNF struct {
	bottom bool
	cl     map[string]Clause
}

func newCNF() *CNF { return &CNF{cl: map[string]Clause{}} }

func (a *CNF) clone() *CNF {
	b := &CNF{bottom: a.bottom, cl: make(map[string]Clause, len(a.cl))}
	for k, c := range a.cl {
		b.cl[k] = c
	}
	return b
}

func mkClause(lits []int32) (Clause, bool) {
	sort.Slice(lits, func(i, j int) bool { return lits[i] < lits[j] })
	out := lits[:0:0]
	for i, l := range lits {
		if i > 0 && lits[i-1] == l {
			continue
		}
		out = append(out, l)
	}
	set := map[int32]bool{}
	for _, l := range out {
		if set[-l] {
			return nil, false // tautology
		}
		set[l] = true
	}
	if len(out) > maxWidth {
		return nil, false
	}
	return Clause(out), true
}

func (a *CNF) add(c Clause) {
	if len(c) == 0 {
		a.bottom = true
		return
	}
	a.cl[c.key()] = c
}

func (a *CNF) hasUnit(l int32) bool {
	_, ok := a.cl[Clause{l}.key()]
	return ok
}

func (a *CNF) units() []int32 {
	var out []int32
	for _, c := range a.cl {
		if len(c) == 1 {
			out = append(out, c[0])
		}
	}
	sort.Slice(out, func(i, j int) bool { return out[i] < out[j] })
	return out
}

// addUnit adds literal l with unit resolution (+ the small integer theory).
func (a *CNF) addUnit(lt *LitTable, l int32) {
	if a.bottom {
		return
	}
	if a.hasUnit(l) {
		return
	}
	work := []int32{l}
	done := map[int32]bool{}
	for len(work) > 0 && !a.bottom {
		u := work[0]
		work = work[1:]
		if done[u] {
			continue
		}
		done[u] = true
		next := make(map[string]Clause, len(a.cl)+1)
		for k, c := range a.cl {
			sat := false
			var rest []int32
			changed := false
			for _, x := range c {
				switch lt.implies(u, x) {
				case 1:
					sat = true
				case -1:
					changed = true
				default:
					rest = append(rest, x)
				}
				if sat {
					break
				}
			}
			if sat {
				if len(c) == 1 && c[0] != u {
					// a weaker unit implied by u: keep it (harmless), needed when u is later killed
					next[k] = c
				}
				continue
			}
			if !changed {
				next[k] = c
				continue
			}
			if len(rest) == 0 {
				a.bottom = true
				return
			}
			nc := Clause(rest)
			next[nc.key()] = nc
			if len(rest) == 1 {
				work = append(work, rest[0])
			}
		}
		next[Clause{u}.key()] = Clause{u}
		a.cl = next
		// integer pinning: c ≤ t and t < c+1 among the units give t == c (two units are needed, which the
		// pairwise implies() cannot see)
		if lu, _ := lt.get(u); lu.Kind == KLtC && lu.A != nil {
			haveLo, haveHi := false, false
			var lo, hi int64
			if lu.A.Op == "len" {
				haveLo = true // a length is never negative: `len(x) > 0` and `len(x) != 0` are one fact
			}
			for _, c := range a.cl {
				if len(c) != 1 {
					continue
				}
				lx, px := lt.get(c[0])
				if lx.Kind != KLtC || lx.A != lu.A {
					continue
				}
				if px { // t < C
					if !haveHi || lx.C < hi {
						haveHi, hi = true, lx.C
					}
				} else { // t ≥ C
					if !haveLo || lx.C > lo {
						haveLo, lo = true, lx.C
					}
				}
			}
			if haveLo && haveHi {
				switch {
				case hi <= lo:
					a.bottom = true
					return
				case hi == lo+1:
					if e := lt.id(Lit{Kind: KEqC, A: lu.A, C: lo}); !a.hasUnit(e) {
						work = append(work, e)
					}
				}
			}
		}
	}
}

// addClause adds a disjunction, simplifying it against the current units.
func (a *CNF) addClause(lt *LitTable, lits []int32) {
	if a.bottom {
		return
	}
	var rest []int32
	us := a.units()
	for _, x := range lits {
		v := 0
		for _, u := range us {
			if r := lt.implies(u, x); r != 0 {
				v = r
				break
			}
		}
		if v == 1 {
			return
		}
		if v == 0 {
			rest = append(rest, x)
		}
	}
	if len(rest) == 0 {
		a.bottom = true
		return
	}
	if len(rest) == 1 {
		a.addUnit(lt, rest[0])
		return
	}
	if c, ok := mkClause(rest); ok {
		a.add(c)
	}
}

// kill removes every clause mentioning a literal selected by pred.
func (a *CNF) kill(pred func(int32) bool) {
	for k, c := range a.cl {
		for _, x := range c {
			if pred(x) {
				delete(a.cl, k)
				break
			}
		}
	}
}

func subsetClause(a, b Clause) bool { // a ⊆ b, both sorted
	i := 0
	for _, x := range b {
		if i < len(a) && a[i] == x {
			i++
		}
	}
	return i == len(a)
}

func (a *CNF) reduce(lt *LitTable) {
	cs := make([]Clause, 0, len(a.cl))
	for _, c := range a.cl {
		cs = append(cs, c)
	}
	sort.Slice(cs, func(i, j int) bool {
		if len(cs[i]) != len(cs[j]) {
			return len(cs[i]) < len(cs[j])
		}
		return cs[i].key() < cs[j].key()
	})
	var keep []Clause
	for _, c := range cs {
		sub := false
		for _, k := range keep {
			if len(k) < len(c) && subsetClause(k, c) {
				sub = true
				break
			}
		}
		if !sub {
			keep = append(keep, c)
		}
	}
	if len(keep) > maxClauses {
		// drop the widest, least important clauses first
		imp := func(c Clause) int {
			n := 0
			for _, x := range c {
				l, _ := lt.get(x)
				if l.Kind == KW || l.Kind == KCaller || l.Kind == KE {
					n++
				}
			}
			return n
		}
		sort.SliceStable(keep, func(i, j int) bool {
			if len(keep[i]) != len(keep[j]) {
				return len(keep[i]) < len(keep[j])
			}
			return imp(keep[i]) > imp(keep[j])
		})
		keep = keep[:maxClauses]
	}
	a.cl = make(map[string]Clause, len(keep))
	for _, k := range keep {
		a.cl[k.key()] = k
	}
}

// joinAll: disjunction of the predecessor states. Clauses common to every
// predecessor are kept; a clause c present only in predecessor i becomes
// (¬sel_i ∨ c), and (sel_1 ∨ … ∨ sel_k) is added. This is equivalent to the
// clause-wise cross product under unit propagation (which is how entailment
// is decided, see refutes) but linear instead of multiplicative in size.
func joinAll(lt *LitTable, states []*CNF, sels []int32) *CNF {
	var live []*CNF
	var lsel []int32
	for i, s := range states {
		if s != nil && !s.bottom {
			live = append(live, s)
			lsel = append(lsel, sels[i])
		}
	}
	if len(live) == 0 {
		b := newCNF()
		b.bottom = true
		return b
	}
	if len(live) == 1 {
		return live[0].clone()
	}
	r := newCNF()
	for k, c := range live[0].cl {
		all := true
		for _, o := range live[1:] {
			if _, ok := o.cl[k]; !ok {
				all = false
				break
			}
		}
		if all {
			r.cl[k] = c
		}
	}
	if len(live) == 2 {
		lsel[1] = -lsel[0]
	} else {
		r.add(Clause(append([]int32{}, lsel...)).sorted())
	}
	for i, s := range live {
		for k, c := range s.cl {
			if _, ok := r.cl[k]; ok {
				continue
			}
			merged := append(append([]int32{}, c...), -lsel[i])
			if nc, ok := mkClause(merged); ok {
				r.add(nc)
			}
		}
	}
	if len(r.cl) > maxClauses {
		r.reduce(lt)
	}
	return r
}

func (c Clause) sorted() Clause {
	sort.Slice(c, func(i, j int) bool { return c[i] < c[j] })
	return c
}

// join of two states without a stable join point (used for summaries only).
func join(lt *LitTable, a, b *CNF) *CNF {
	if a == nil || a.bottom {
		return b.clone()
	}
	if b.bottom {
		return a.clone()
	}
	r := newCNF()
	for k, c := range a.cl {
		if _, ok := b.cl[k]; ok {
			r.cl[k] = c
		}
	}
	return r
}

// refutes: does the state, together with the negation of every literal in
// query, lead to a contradiction? (state ⊨ query[0] ∨ query[1] ∨ …)
// Decided by unit propagation plus bounded case splitting: the join encoding
// nests selector clauses ((¬s6 ∨ s1 ∨ s31), (¬s6 ∨ ¬s1), (¬s6 ∨ ¬s31)), which
// unit propagation alone does not close. Running out of budget answers
// "not entailed" (the sound direction).
func (a *CNF) refutes(lt *LitTable, query []int32) bool {
	if a.bottom {
		return true
	}
	c := a.clone()
	for _, q := range query {
		c.addUnit(lt, -q)
		if c.bottom {
			return true
		}
	}
	budget := 4000
	return c.unsat(lt, 0, &budget)
}

func (a *CNF) unsat(lt *LitTable, depth int, budget *int) bool {
	if a.bottom {
		return true
	}
	*budget--
	if *budget <= 0 || depth > 24 {
		return false
	}
	// shortest non-unit clause, selector-only clauses first
	var best Clause
	bestScore := 1 << 30
	for _, c := range a.cl {
		if len(c) < 2 {
			continue
		}
		score := len(c) * 4
		for _, x := range c {
			if l, _ := lt.get(x); l.Kind != KS {
				score++
			}
		}
		if score < bestScore || (score == bestScore && c.key() < best.key()) {
			best, bestScore = c, score
		}
	}
	if best == nil {
		return false // only units left and no contradiction: satisfiable
	}
	// every way of satisfying `best` must be contradictory
	for i, x := range best {
		b := a.clone()
		// literals tried before are false in this branch
		for _, y := range best[:i] {
			b.addUnit(lt, -y)
		}
		b.addUnit(lt, x)
		if !b.unsat(lt, depth+1, budget) {
			return false
		}
	}
	return true
}

func (a *CNF) equal(b *CNF) bool {
	if a.bottom != b.bottom || len(a.cl) != len(b.cl) {
		return false
	}
	for k := range a.cl {
		if _, ok := b.cl[k]; !ok {
			return false
		}
	}
	return true
}

// entails: some clause of the state has every literal accepted by ok (which
// decides whether a state literal implies the query disjunction).
func (a *CNF) entails(ok func(int32) bool) bool {
	if a.bottom {
		return true
	}
	for _, c := range a.cl {
		all := true
		for _, l := range c {
			if !ok(l) {
				all = false
				break
			}
		}
		if all {
			return true
		}
	}
	return false
}

func (a *CNF) dump(lt *LitTable) []string {
	var out []string
	for _, c := range a.cl {
		var ps []string
		for _, l := range c {
			ps = append(ps, lt.str(l))
		}
		out = append(out, strings.Join(ps, " ∨ "))
	}
	sort.Strings(out)
	return out
}
