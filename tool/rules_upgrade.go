package main

// C16 — contract upgrade is committee-gated, version-monotonic, data-preserving (DESIGN §5, App. C).

import (
	"fmt"
	"go/ast"
	"go/constant"
	"go/token"
	"go/types"
	"sort"
	"strings"

	"golang.org/x/tools/go/ssa"
)

func init() {
	register(&Check{
		ID:        "C16",
		Level:     "other",
		Technique: "abstract interpretation of every Update and of every _deploy with isUpdate fixed to true: gate entailment, version-bound facts at every effect and exit, write-set inclusion in the migration table with per-entry version guards, move/re-visit rules over the key schemas of the migration loops",
		Explanation: "D1 all 11 Update methods call management.update only under the documented majority (committee, resp. the NeoFS Alphabet designated for the next block for neofs/processing) and pass AppendVersion(data), i.e. the running Version constant appended. " +
			"D2 every _deploy(isUpdate = true) establishes PrevVersion ≤ v < Version for v = the last element of data at every effect and at every normal exit; PrevVersion < Version. D3 the update side never reaches the fresh-deploy initialisation and its write set is contained in the migration table (DESIGN App. C), each entry under its version guard. " +
			"D4 migrations are moves — Put(prefix‖key, value) and Delete(key) of the same scanned item — selected by key length, and re-visit safe (the inserted keys have a length that is not selected); the in-place rewrites (netmap, nns) store values derived from the scanned value under the scanned key. D5 a migration step is gone round only with version ≥ its recorded layout-change version (skip-edge rule). D6 index-keyed in-place rewrites run over the stored count. M: every documented migration step whose layout-change version lies above PrevVersion is reachable; migration loops end only on exhaustion. R6: Version and PrevVersion are linear forms with equal weights over disjoint declared components, every declared component enters one of them. R7: the window agreement between Vote and TryPurgeVotes (C17) is decided here as well: the legacy migrations rely on TryPurgeVotes to detect a pending vote. R10: every scanned item of the selected key length is moved by a migration loop; the declared field order and types of every struct type of the contracts and of common equal the recorded layout of the data in storage (renames in place and appended fields accepted). R13 catching-frame: no function with a deferred recover that a method of the property's contracts can reach lies outside the who-may-catch table (container.deleteNNSRecords).",
		NotCovered: "preservation of the read API for arbitrary prior storages (value level); behaviour of the native management contract.",
		Run:        runC16,
	})
}

// migration table (DESIGN App. C): contract -> allowed effects on the update path
type migRow struct {
	effect string // put | delete | transfer
	key    string // constant key, or family prefix ending in '*', or "<scanned>" for keys of scanned items
	below  int64  // version guard: v < below (0 = none)
	why    string
}

var tMigrate = map[string][]migRow{
	"alphabet": {
		{"delete", "notary", 17000, "leave non-notary mode"}, {"delete", "ballots", 17000, "purge finished votes"},
		{"put", "proxyScriptHash", 17000, "remember the Proxy contract"}, {"transfer", "*", 17000, "documented 75% GAS split on notarisation"},
	},
	"audit": {{"delete", "notary", 17000, ""}, {"delete", "netmapScriptHash", 17000, ""}},
	"balance": {{"delete", "notary", 17000, ""}, {"delete", "ballots", 17000, ""}, {"delete", "netmapScriptHash", 17000, ""}, {"delete", "containerScriptHash", 17000, ""},
		{"put", "a*", 20000, "move accounts under the 'a' prefix"}, {"delete", "<scanned>", 20000, "move accounts under the 'a' prefix"}},
	"container": {{"delete", "notary", 17000, ""}, {"delete", "ballots", 17000, ""},
		{"put", "x*", 0, "move containers under 'x'"}, {"put", "o*", 0, "move owner index under 'o'"}, {"delete", "<scanned>", 0, "move"}},
	"neofsid": {{"delete", "notary", 17000, ""}, {"delete", "ballots", 17000, ""}, {"delete", "containerScriptHash", 17000, ""}, {"delete", "netmapScriptHash", 19000, ""}},
	"netmap": {{"put", "snapshot_*", 16000, "rewrite legacy snapshots in place"}, {"put", "<scanned>", 16000, "rewrite candidates in place"},
		{"delete", "notary", 17000, ""}, {"delete", "innerring", 17000, ""}, {"delete", "ballots", 17000, ""},
		{"put", "e*", 19000, "subscribe balance/container"}, {"delete", "balanceScriptHash", 19000, ""}, {"delete", "containerScriptHash", 19000, ""}},
	"nns":        {{"put", "<scanned>", 18000, "TLD owners become nil"}, {"put", "\x01*", 18000, "updateBalance(-1)"}, {"delete", "\x01*", 18000, "updateBalance(-1)"}, {"delete", "\x02*", 18000, "updateBalance(-1)"}},
	"reputation": {{"delete", "notary", 17000, ""}, {"delete", "ballots", 17000, ""}},
	"neofs":      {},
	"processing": {},
	"proxy":      {},
}

func commonConst(cx *CheckCtx, name string) (int64, bool) {
	p := cx.W.ByPath[modPrefix+"common"]
	if p == nil {
		return 0, false
	}
	c, ok := p.Types.Scope().Lookup(name).(*types.Const)
	if !ok {
		return 0, false
	}
	v, exact := constant.Int64Val(c.Val())
	return v, exact
}

func runC16(cx *CheckCtx) {
	w := cx.W
	version, ok1 := commonConst(cx, "Version")
	prev, ok2 := commonConst(cx, "PrevVersion")
	if !ok1 || !ok2 {
		cx.undecided("anchor", "common.Version", "common.Version / common.PrevVersion are gone", "")
		return
	}
	cx.decide(prev < version, "version-bounds", "common.PrevVersion<Version", fmt.Sprintf("%d < %d", prev, version), fmt.Sprintf("PrevVersion (%d) is not below Version (%d): no deployed version can be updated", prev, version), "common/version.go")
	checkVersionComponents(cx)
	// data preservation: the records an upgrade finds in storage are read with the layout they were written in
	checkStoredLayouts(cx)
	// the legacy migrations refuse to run over a pending vote (TryPurgeVotes): what they take for "pending"
	// must be what Vote takes for "alive" (shared with C17)
	runC17Common(cx, w)
	for _, cn := range w.CNames {
		checkUpgradeOf(cx, cn, version, prev)
	}
	cx.floor("update_methods", 11)
	cx.floor("deploy_methods", 11)
}

// checkUpgradeOf: the upgrade rules of one contract (D1–D4 of C16); also run for the Balance contract
// under C01/C02/C09, whose statements are about balances that an upgrade must carry over.
func checkUpgradeOf(cx *CheckCtx, cn string, version, prev int64) {
	w := cx.W
	{
		_ = w.Contracts[cn]
		// ---- D1 Update
		if m := cx.method(cn, "Update"); m != nil {
			a := cx.run(m)
			tb := a.tb
			var call *Site
			for _, s := range a.RealEffects() {
				if s.Effect == "call" {
					call = s
				} else {
					cx.violated("update-call", cn+".Update/"+siteConstruct(a, s), "Update performs an effect besides the management.update call", s.Where(w))
				}
			}
			cx.count("update_methods", 1)
			if call == nil {
				cx.violated("update-call", cn+".Update", "Update no longer calls management.update", w.pos(m.Fn.Pos()))
			} else {
				want := "MAJ"
				if cn == "neofs" || cn == "processing" {
					want = "MAJ_IR"
				}
				ok, _ := gated(a, call, witnessLits(a, []string{want}))
				why := ""
				if !ok {
					for _, sub := range allWitnessSubjects(a) {
						why += " [" + sub + "]"
					}
				}
				cx.decide(ok, "update-gate", cn+".Update", "management.update only under "+want, cn+".Update reaches management.update without the "+want+" witness; witnesses seen:"+why, call.Where(w))
				mh, _ := call.Args[0].BytesConst()
				meth, _ := call.Args[1].BytesConst()
				okArgs := mgmtHashIs(cx, mh) && meth == "update" && len(call.Args) >= 4 && call.Args[3].Op == "arr" && len(call.Args[3].Args) == 3
				if okArgs {
					as := call.Args[3].Args
					okArgs = as[0] == tb.mk("param", "0:"+m.Fn.Params[0].Name(), 0) && as[1] == tb.mk("param", "1:"+m.Fn.Params[1].Name(), 0)
					data := paramTerm(tb, m, "data")
					okV := len(tb.Alts(as[2])) > 0
					for _, alt := range tb.Alts(as[2]) {
						switch {
						case alt.Op == "arr" && len(alt.Args) == 1:
							if v, isC := alt.Args[0].IntConst(); !isC || v != version {
								okV = false
							}
						case alt.Op == "append" && len(alt.Args) == 2 && alt.Args[0] == data && alt.Args[1].Op == "arr" && len(alt.Args[1].Args) == 1:
							if v, isC := alt.Args[1].Args[0].IntConst(); !isC || v != version {
								okV = false
							}
						default:
							okV = false
						}
					}
					okArgs = okArgs && okV
				}
				cx.decide(okArgs, "update-call", cn+".Update/args", "management.update(script, manifest, data + running Version)", cn+".Update does not hand (script, manifest, data with the running Version appended) to management.update: _deploy cannot check the version it is updated from", call.Where(w))
			}
		}
		// ---- D2/D3 _deploy(isUpdate = true)
		dm := cx.method(cn, "_deploy")
		if dm == nil {
			return
		}
		a := cx.runWith(dm, map[int]constant.Value{1: constant.MakeBool(true)}, "upd")
		tb := a.tb
		cx.count("deploy_methods", 1)
		// the version term: last element of data
		var vT *Term
		for id := 1; id < len(a.lt.lits); id++ {
			l := a.lt.lits[id]
			if l.Kind == KLtC && l.C == prev && l.A != nil {
				vT = l.A
			}
		}
		if vT == nil {
			cx.violated("version-check", cn+"._deploy", "the update path of _deploy does not compare the version it is updated from with PrevVersion", w.pos(dm.Fn.Pos()))
			return
		}
		data := tb.mk("param", "0:data", 0)
		okSrc := vT.contains(func(x *Term) bool { return x == data }) && vT.Op == "index" &&
			vT.Args[1] == tb.binop(sub, tb.mk("len", "", 0, vT.Args[0]), tb.constInt(1), intType)
		cx.decide(okSrc, "version-check", cn+"._deploy/source", "the checked version is the last element of data", "the version checked on update is "+vT.pretty()+", not the last element of the data handed over by Update", w.pos(dm.Fn.Pos()))
		inWindow := func(st *CNF) bool {
			return a.holdsAt(st, -a.litLtC(vT, prev)) && a.holdsAt(st, a.litLtC(vT, version))
		}
		okAll := true
		where := ""
		for _, s := range a.RealEffects() {
			if !inWindow(s.In) {
				okAll = false
				where = s.Where(w)
			}
		}
		for _, ex := range a.Exits() {
			if !inWindow(ex.State) {
				okAll = false
				where = exitPos(w, ex)
			}
		}
		cx.decide(okAll, "version-check", cn+"._deploy", fmt.Sprintf("%d ≤ v < %d established at every effect and every normal exit of the update path", prev, version), cn+"._deploy can complete an update (or migrate data) without PrevVersion ≤ v < Version: rollbacks or updates from unsupported versions are accepted", where)
		// write set ⊆ T-migrate
		rows := tMigrate[cn]
		matched := map[*migRow]bool{}
		for _, s := range a.RealEffects() {
			skey := cn + "._deploy(update)/" + siteConstruct(a, s)
			var row *migRow
			for i := range rows {
				r := &rows[i]
				if r.effect != s.Effect && !(r.effect == "transfer" && s.Effect == "transfer") {
					continue
				}
				if s.Effect == "transfer" {
					row = r
					break
				}
				k := s.Args[1]
				ks, isC := k.BytesConst()
				fam := keyFamily(k)
				switch {
				case r.key == "<scanned>":
					base := k
					if base.Op == "field" {
						base = base.Args[0]
					}
					if base.Op == "iterval" {
						row = r
					}
				case strings.HasSuffix(r.key, "*"):
					p := strings.TrimSuffix(r.key, "*")
					if fam == p || (isC && strings.HasPrefix(ks, p)) || (fam != "" && strings.HasPrefix(fam, p) && len(keyParts(k)) > 1) {
						row = r
					}
				default:
					if isC && ks == r.key {
						row = r
					}
				}
				if row != nil {
					break
				}
			}
			if row != nil {
				matched[row] = true
			}
			if row == nil {
				cx.violated("migration-writes", skey, "the update path of "+cn+"._deploy performs "+effectDesc(a, s)+" which is not a documented migration step: an upgrade changes data the read API exposes", s.Where(w))
				continue
			}
			// exhaustive gate: the step is gone round (in the root frame) only when the stored
			// version is already ≥ the version that introduced the layout; item selection inside
			// a migration loop is not a skip of the step
			if row.below > 0 {
				if blk := frameBlock(s, a.tb.root); blk != nil {
					target := blk
					if ls := enclosingLoops(blk); len(ls) > 0 {
						target = ls[len(ls)-1]
					}
					okX, whyX := true, ""
					for _, sk := range a.skipEdges(a.tb.root, target, nil) {
						if !a.holdsAt(sk.St, -a.litLtC(vT, row.below)) {
							okX = false
							whyX = blockPos(w, sk.From)
						}
					}
					cx.decide(okX, "migration-gate", skey, fmt.Sprintf("runs for every stored version < %d", row.below), fmt.Sprintf("the migration step %s can be skipped (at %s) for a stored version < %d: data of the old layout survives the upgrade and becomes invisible to the new code", effectDesc(a, s), whyX, row.below), s.Where(w))
				}
			}
			// a migration loop visits every item (no early way out)
			if okL, inL, whyL := loopOnlyExhaustion(a, s); inL {
				cx.decide(okL, "migration-loop", skey, "the migration loop ends only on exhaustion", "the migration loop around "+effectDesc(a, s)+" does not visit every item: "+whyL+"; the rest keeps the old layout", s.Where(w))
			}
			okG := row.below == 0 || a.holdsAt(s.In, a.litLtC(vT, row.below))
			cx.decide(okG, "migration-writes", skey, fmt.Sprintf("documented migration step (guard v < %d)", row.below), fmt.Sprintf("the migration step %s runs without its version guard v < %d: it is re-applied to already migrated data", effectDesc(a, s), row.below), s.Where(w))
		}
		// every documented step that still matters (its layout-change version lies above the
		// oldest supported version) is present: a step that has become unreachable or was dropped
		// leaves data of the old layout behind
		for i := range rows {
			r := &rows[i]
			if r.below != 0 && r.below <= prev {
				continue // only versions that can no longer be upgraded from needed it
			}
			cx.decide(matched[r], "migration-present", fmt.Sprintf("%s._deploy(update)/%s %s", cn, r.effect, r.key), "the documented migration step is reachable on the update path", fmt.Sprintf("the documented migration step '%s %s' (for stored versions < %d) is no longer reachable on the update path of %s._deploy: data of the old layout is not migrated", r.effect, r.key, r.below, cn), w.pos(dm.Fn.Pos()))
		}
		// fresh-deploy initialisation unreachable on update: every effect of the fresh path is absent here
		fresh := cx.runWith(dm, map[int]constant.Value{1: constant.MakeBool(false)}, "fresh")
		freshOnly := map[string]bool{}
		for _, s := range fresh.RealEffects() {
			freshOnly[fmt.Sprint(s.Instr.Pos())] = true
		}
		reach := ""
		for _, s := range a.RealEffects() {
			if freshOnly[fmt.Sprint(s.Instr.Pos())] && !s.Ctx.inFunc("common.SetSerialized") && s.Ctx.parent == nil {
				// shared helper sites are fine; a root-frame site reachable in both modes is initialisation leaking into updates
				reach = s.Where(w)
			}
		}
		cx.decide(reach == "", "migration-writes", cn+"._deploy/no-init-on-update", "no fresh-deploy initialisation site is reachable with isUpdate = true", "fresh-deploy initialisation ("+reach+") is reachable on the update path: an upgrade resets stored state", reach)
		// ---- D4 moves
		checkMoves(cx, a, cn)
		// ---- D6 an in-place rewrite of an index-keyed family (key = constant ‖ byte(i)) runs over
		// the stored size of that family, not over a constant: slots beyond the constant keep the old layout
		for _, s := range a.RealEffects() {
			if s.Effect != "put" {
				continue
			}
			ps := keyParts(s.Args[1])
			if len(ps) != 2 || ps[1].Op != "byte" || !ps[1].Args[0].contains(func(x *Term) bool { return x.Op == "phi" }) {
				continue
			}
			fam, _ := ps[0].BytesConst()
			blk := frameBlock(s, a.tb.root)
			if blk == nil {
				continue
			}
			hdr := innermostLoop(blk)
			okR, detail := false, "the rewrite is not in a counted loop of _deploy"
			if hdr != nil {
				if ifi, isIf := hdr.Instrs[len(hdr.Instrs)-1].(*ssa.If); isIf {
					ct := a.tb.Term(a.tb.root, ifi.Cond)
					detail = "the loop runs while " + ct.pretty()
					if ct.Op == "bin" && (ct.Name == "<" || ct.Name == "<=") && len(ct.Args) == 2 {
						b := a.Canon(s.In, ct.Args[1])
						okR = b.contains(func(x *Term) bool { return x.Op == "read" })
					}
				}
			}
			cx.decide(okR, "migration-range", cn+"._deploy(update)/"+siteConstruct(a, s), "the rewrite loop over '"+fam+"'‖index is bounded by a stored count", "the in-place rewrite of family '"+fam+"' is not bounded by the stored number of its entries ("+detail+"): entries beyond the bound keep the old layout after the upgrade", s.Where(w))
		}
	}
	_ = c16unused
}

var c16unused = 0

const sub = token.SUB

func mgmtHashIs(cx *CheckCtx, s string) bool { return constHashIs(cx, "management", s) }

// checkMoves: every Put whose key is prefix‖scanned-key is paired with a
// Delete of that scanned key, carries the scanned value, is selected by a key
// length L and inserts keys of a length that is not selected.
func checkMoves(cx *CheckCtx, a *Analysis, cn string) {
	w := cx.W
	tb := a.tb
	var selected []int64
	type mv struct {
		put  *Site
		item *Term
		L    int64
	}
	var moves []mv
	for _, s := range a.RealEffects() {
		if s.Effect != "put" {
			continue
		}
		ps := keyParts(s.Args[1])
		if len(ps) != 2 {
			continue
		}
		k := ps[1]
		if !(k.Op == "field" && k.Args[0].Op == "iterval") {
			continue
		}
		item := k.Args[0]
		if pre, ok := ps[0].BytesConst(); !ok || len(pre) != 1 {
			continue
		}
		// selected length
		L := int64(-1)
		for _, f := range a.unitFactsRaw(s.In) {
			if f.kind == KEqC && f.pos && f.A.Op == "len" && f.A.Args[0] == k {
				L = f.C
			}
		}
		moves = append(moves, mv{s, item, L})
		if L >= 0 {
			selected = append(selected, L)
		}
	}
	for _, m := range moves {
		skey := cn + "._deploy(update)/" + siteConstruct(a, m.put)
		k := keyParts(m.put.Args[1])[1]
		// same value
		okV := m.put.Args[2].Op == "field" && m.put.Args[2].Args[0] == m.item
		// paired delete of the old key, executed together
		var del *Site
		for _, d := range a.RealEffects() {
			if d.Effect == "delete" && d.Args[1] == k && d.Instr.Block() == m.put.Instr.Block() {
				del = d
			}
		}
		cx.decide(okV && del != nil, "migration-move", skey, "Put(prefix‖key, value) with Delete(key) of the same scanned item", "a migrated entry is not moved as a whole (same value, old key deleted): data is lost or duplicated by the upgrade", m.put.Where(w))
		okL := m.L >= 0
		if okL {
			for _, l := range selected {
				if l == m.L+1 {
					okL = false
				}
			}
		}
		// every item of the selected length is moved: an iteration goes round the move only for a key of
		// another length (a filter on the key's *content* — "starts with the new prefix" — leaves the old
		// entries whose first byte happens to be that prefix where the new code does not look)
		if m.L >= 0 {
			okE, whyE := everyElement(a, m.put, func(st *CNF) bool { return a.holdsAt(st, -a.litEqC(a.litLen(k), int64(m.L))) })
			cx.decide(okE, "migration-move", skey+"/every-selected", fmt.Sprintf("every scanned item with len(key) == %d is moved", m.L), fmt.Sprintf("a scanned item with len(key) == %d can be left where it is (%s): entries of the old layout survive the upgrade under keys the new code never reads", m.L, whyE), m.put.Where(w))
		}
		cx.decide(okL, "migration-move", skey+"/revisit", fmt.Sprintf("selected by len(key) == %d; inserted keys have length %d which is not selected", m.L, m.L+1), "the migration selects entries by a key length that its own inserted keys can have (or by none): entries are migrated twice when the scan reaches them", m.put.Where(w))
	}
	_ = tb
}

// checkVersionComponents: common.Version and common.PrevVersion are each
// composed from their *own* declared triple: both are linear forms over
// package constants with the same multiset of weights, they share no
// component, and no integer constant declared beside them in the same const
// block is left out of both (a "prev" component that is declared but unused
// means the oldest supported version silently follows the current triple).
func checkVersionComponents(cx *CheckCtx) {
	w := cx.W
	p := w.ByPath[modPrefix+"common"]
	if p == nil {
		return
	}
	type lin map[types.Object]int64
	// constants used by *both* expressions are weights (named 1_000_000 / 1_000), not components
	weightConsts := map[types.Object]bool{}
	var eval func(e ast.Expr) (lin, int64, bool) // components, constant part
	eval = func(e ast.Expr) (lin, int64, bool) {
		switch x := ast.Unparen(e).(type) {
		case *ast.BasicLit:
			if tv, ok := p.TypesInfo.Types[x]; ok && tv.Value != nil {
				v, exact := constant.Int64Val(tv.Value)
				return lin{}, v, exact
			}
		case *ast.Ident:
			if o, ok := p.TypesInfo.Uses[x].(*types.Const); ok && o.Pkg() == p.Types && !weightConsts[o] {
				return lin{o: 1}, 0, true
			}
			if tv, ok := p.TypesInfo.Types[x]; ok && tv.Value != nil {
				v, exact := constant.Int64Val(tv.Value)
				return lin{}, v, exact
			}
		case *ast.BinaryExpr:
			a, ca, ok1 := eval(x.X)
			b, cb, ok2 := eval(x.Y)
			if !ok1 || !ok2 {
				return nil, 0, false
			}
			switch x.Op {
			case token.ADD:
				for o, c := range b {
					a[o] += c
				}
				return a, ca + cb, true
			case token.MUL:
				if len(a) > 0 && len(b) > 0 {
					return nil, 0, false
				}
				if len(a) == 0 {
					a, b, ca, cb = b, a, cb, ca
				}
				for o := range a {
					a[o] *= cb
				}
				return a, ca * cb, true
			}
		}
		return nil, 0, false
	}
	var block *ast.GenDecl
	exprs := map[string]ast.Expr{}
	for _, f := range p.Syntax {
		for _, d := range f.Decls {
			gd, ok := d.(*ast.GenDecl)
			if !ok || gd.Tok != token.CONST {
				continue
			}
			for _, s := range gd.Specs {
				vs := s.(*ast.ValueSpec)
				for i, n := range vs.Names {
					if (n.Name == "Version" || n.Name == "PrevVersion") && i < len(vs.Values) {
						exprs[n.Name] = vs.Values[i]
						block = gd
					}
				}
			}
		}
	}
	if exprs["Version"] == nil || exprs["PrevVersion"] == nil {
		cx.undecided("anchor", "common.Version", "the declarations of common.Version / common.PrevVersion have no value expression", "")
		return
	}
	{
		uses := func(e ast.Expr) map[types.Object]bool {
			m := map[types.Object]bool{}
			ast.Inspect(e, func(n ast.Node) bool {
				if id, ok := n.(*ast.Ident); ok {
					if o, ok := p.TypesInfo.Uses[id].(*types.Const); ok && o.Pkg() == p.Types {
						m[o] = true
					}
				}
				return true
			})
			return m
		}
		uv, up := uses(exprs["Version"]), uses(exprs["PrevVersion"])
		for o := range uv {
			// a shared constant that stands *alone* as a summand is a component used twice, not a weight:
			// only constants that multiply something are weights
			if up[o] && multipliesSomething(exprs["Version"], p.TypesInfo, o) && multipliesSomething(exprs["PrevVersion"], p.TypesInfo, o) {
				weightConsts[o] = true
			}
		}
	}
	lv, _, ok1 := eval(exprs["Version"])
	lp, _, ok2 := eval(exprs["PrevVersion"])
	if !ok1 || !ok2 {
		cx.undecided("version-components", "common.Version", "Version / PrevVersion are not linear forms over package constants any more: the composition cannot be compared", w.pos(exprs["Version"].Pos()))
		return
	}
	if len(lv) == 0 && len(lp) == 0 {
		cx.holds("version-components", "common.Version", "both versions are written as plain literals: nothing to compare")
		return
	}
	weights := func(l lin) string {
		var ws []int64
		for _, c := range l {
			ws = append(ws, c)
		}
		sort.Slice(ws, func(i, j int) bool { return ws[i] < ws[j] })
		return fmt.Sprint(ws)
	}
	var bad []string
	if weights(lv) != weights(lp) {
		bad = append(bad, fmt.Sprintf("Version weighs its components %s, PrevVersion %s", weights(lv), weights(lp)))
	}
	for o := range lp {
		if _, shared := lv[o]; shared {
			bad = append(bad, fmt.Sprintf("PrevVersion is composed from %s, a component of the *current* version", o.Name()))
		}
	}
	if block != nil {
		for _, s := range block.Specs {
			vs := s.(*ast.ValueSpec)
			for _, n := range vs.Names {
				o, ok := p.TypesInfo.Defs[n].(*types.Const)
				if !ok || n.IsExported() || o.Val().Kind() != constant.Int {
					continue
				}
				if _, a := lv[o]; a {
					continue
				}
				if _, b := lp[o]; b {
					continue
				}
				// a constant that something else uses (a named weight, a radix) is not a forgotten component
				usedElsewhere := false
				for _, uo := range p.TypesInfo.Uses {
					if uo == types.Object(o) {
						usedElsewhere = true
						break
					}
				}
				if usedElsewhere {
					continue
				}
				bad = append(bad, fmt.Sprintf("%s is declared beside the versions and is used by nothing", n.Name))
			}
		}
	}
	sort.Strings(bad)
	cx.decide(len(bad) == 0, "version-components", "common.PrevVersion", fmt.Sprintf("Version and PrevVersion are linear forms with weights %s over disjoint components, every declared component enters one of them", weights(lv)), "the oldest supported version is not composed from its own declared triple: "+strings.Join(bad, "; ")+" — the lower bound of CheckVersion is not the documented one (updates from unsupported releases run, or supported ones are refused)", w.pos(exprs["PrevVersion"].Pos()))
}

// multipliesSomething: every occurrence of the constant o in e is an operand of a multiplication.
func multipliesSomething(e ast.Expr, info *types.Info, o types.Object) bool {
	all, any := true, false
	var walk func(n ast.Expr, inMul bool)
	walk = func(n ast.Expr, inMul bool) {
		switch x := ast.Unparen(n).(type) {
		case *ast.Ident:
			if info.Uses[x] == o {
				any = true
				if !inMul {
					all = false
				}
			}
		case *ast.BinaryExpr:
			m := x.Op == token.MUL
			walk(x.X, m)
			walk(x.Y, m)
		}
	}
	walk(e, false)
	return any && all
}
