package main

// Witness subjects (DESIGN §3.4): who a CheckWitness term stands for, decided
// from the structure of the term, never from identifiers.

import (
	"go/token"
	"strings"
)

func isCall(t *Term, name string) bool { return t != nil && t.Op == "call" && t.Name == name }

// keySource: where a list of public keys comes from.
func keySource(tb *TermBuilder, k *Term) string {
	switch {
	case isCall(k, "native/neo.GetCommittee"):
		return "committee"
	case isCall(k, "native/roles.GetDesignatedByRole"):
		// roles.NeoFSAlphabet == 16
		// the list designated as of the block being built: every site in the repository asks
		// for CurrentIndex()+1 (a designation made in block N is recorded under N+1)
		if len(k.Args) == 2 {
			next := tb.binop(token.ADD, tb.mk("call", "native/ledger.CurrentIndex", 0), tb.constInt(1), intType)
			if r, ok := k.Args[0].IntConst(); ok && r == 16 && k.Args[1] == next {
				return "fsalphabet"
			}
		}
		return "role?"
	}
	// stored alphabet: Deserialize(Get("alphabet")) or the empty default
	alts := tb.Alts(k)
	stored := false
	for _, a := range alts {
		switch {
		case isCall(a, "native/std.Deserialize") && len(a.Args) == 1 && a.Args[0].Op == "read":
			if s, ok := a.Args[0].Args[0].BytesConst(); ok && s == "alphabet" {
				stored = true
				continue
			}
			return ""
		case a.Op == "arr" && len(a.Args) == 0:
			continue
		case a.Op == "const":
			continue
		default:
			return ""
		}
	}
	if stored {
		return "stored"
	}
	return ""
}

// thresholdForm: "23" for ⌊2n/3⌋+1, "maj" for ⌊n/2⌋+1 (either spelling), "" otherwise.
func thresholdForm(tb *TermBuilder, T, K *Term) string {
	n := tb.mk("len", "", 0, K)
	intT := intType
	two, three, one := tb.constInt(2), tb.constInt(3), tb.constInt(1)
	f23 := tb.binop(token.ADD, tb.binop(token.QUO, tb.binop(token.MUL, n, two, intT), three, intT), one, intT)
	fmaj1 := tb.binop(token.ADD, tb.binop(token.QUO, n, two, intT), one, intT)
	fmaj2 := tb.binop(token.SUB, n, tb.binop(token.QUO, tb.binop(token.SUB, n, one, intT), two, intT), intT)
	switch T {
	case f23:
		return "23"
	case fmaj1, fmaj2:
		return "maj"
	}
	return ""
}

// classify maps a witnessed term to a subject name:
//
//	A23 | MAJ | MAJ_IR | A23_ST | MEM_ST | MEM(<src>) | AT_INDEX | P:<pretty> | OWNER:<id> | ADMIN:<id> |
//	EXT:<method> | MULTISIG?(<why>) | ?:<pretty>
func classify(tb *TermBuilder, t *Term) string {
	if isCall(t, "contract.CreateMultisigAccount") && len(t.Args) == 2 {
		src := keySource(tb, t.Args[1])
		form := thresholdForm(tb, t.Args[0], t.Args[1])
		if form == "" {
			return "MULTISIG?(threshold " + t.Args[0].pretty() + " is neither ⌊2n/3⌋+1 nor ⌊n/2⌋+1 of its key list)"
		}
		switch src + "/" + form {
		case "committee/23":
			return "A23"
		case "committee/maj":
			return "MAJ"
		case "fsalphabet/maj":
			return "MAJ_IR"
		case "fsalphabet/23":
			return "A23_IR"
		case "stored/23":
			return "A23_ST"
		case "stored/maj":
			return "MAJ_ST"
		}
		return "MULTISIG?(key list " + t.Args[1].pretty() + " has no recognised source)"
	}
	if t.Op == "elem" && len(t.Args) == 1 {
		switch keySource(tb, t.Args[0]) {
		case "stored":
			return "MEM_ST"
		case "committee":
			return "MEM(committee)"
		case "fsalphabet":
			return "MEM(fsalphabet)"
		}
		return "?:" + t.pretty()
	}
	// committee[stored index]
	if t.Op == "index" && len(t.Args) == 2 && keySource(tb, t.Args[0]) == "committee" {
		stored := false
		for _, a := range tb.Alts(t.Args[1]) {
			if a.Op == "read" {
				if _, ok := a.Args[0].BytesConst(); ok {
					stored = true
				}
			}
		}
		if stored {
			return "AT_INDEX"
		}
	}
	// NNS name state owner/admin
	if t.Op == "field" && (t.Name == "Owner" || t.Name == "Admin") {
		if id, ok := nameStateOf(tb, t.Args[0]); ok {
			if t.Name == "Owner" {
				return "OWNER:" + id
			}
			return "ADMIN:" + id
		}
	}
	if t.Op == "ext" && len(t.Args) >= 2 {
		if m, ok := t.Args[1].BytesConst(); ok {
			return "EXT:" + m
		}
	}
	if paramDerived(t) {
		return "P:" + t.pretty()
	}
	return "?:" + t.pretty()
}

// nameStateOf: t is Deserialize(Get(0x21 ‖ ripemd160(X))) → pretty(X)
func nameStateOf(tb *TermBuilder, t *Term) (string, bool) {
	for _, a := range tb.Alts(t) {
		if isCall(a, "native/std.Deserialize") && len(a.Args) == 1 && a.Args[0].Op == "read" {
			k := a.Args[0].Args[0]
			if k.Op == "cat" && len(k.Args) == 2 {
				if p, ok := k.Args[0].BytesConst(); ok && p == "\x21" && isCall(k.Args[1], "native/crypto.Ripemd160") {
					return k.Args[1].Args[0].pretty(), true
				}
			}
		}
	}
	return "", false
}

// paramDerived: built only from root parameters, constants and pure operations.
func paramDerived(t *Term) bool {
	hasParam := false
	ok := true
	t.walk(func(x *Term) bool {
		switch x.Op {
		case "param":
			hasParam = true
		case "const", "slice", "field", "none", "index", "len", "sum", "mul", "bin", "cat", "byte", "varint", "toint":
		case "call":
			if !purePrims[x.Name] {
				ok = false
			}
		default:
			ok = false
		}
		return ok
	})
	return ok && hasParam
}

func subjectIn(s string, allowed []string) bool {
	for _, a := range allowed {
		if a == s {
			return true
		}
		if strings.HasSuffix(a, "*") && strings.HasPrefix(s, strings.TrimSuffix(a, "*")) {
			return true
		}
	}
	return false
}
