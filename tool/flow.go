package main

// Flat method graph + fact dataflow (DESIGN §3.2, §3.4).
//
// Nodes are (call string, basic block, instruction index). Every call whose
// static callee has a body inside contracts/ or common/ is expanded in place;
// interop stubs and builtins are leaves. The abstract state is the CNF of
// cnf.go; the analysis is a forward monotone dataflow to fixpoint. No path is
// enumerated and nothing is executed.

import (
	"fmt"
	"go/constant"
	"go/token"
	"go/types"
	"sort"
	"strings"

	"golang.org/x/tools/go/ssa"
)

type Query struct {
	Name   string
	Root   *ssa.Function
	Consts map[int]constant.Value // root parameters assumed constant (e.g. isUpdate)
	// WantCmp: generate a comparison literal for these operand terms?
	WantCmp func(a, b *Term) bool
	// NoEq: do not generate binding equalities (cheaper, for pure gate queries)
	NoEq bool
}

type Node struct {
	ctx *Ctx
	b   *ssa.BasicBlock
	idx int
}

type Site struct {
	Idx     int
	Ctx     *Ctx
	Instr   ssa.CallInstruction
	Callee  string
	Fn      *ssa.Function
	Args    []*Term
	Val     *Term
	In      *CNF
	Effect  string // "", put, delete, notify, transfer, vote, call, unknown, dynamic
	Inlined bool
	EIdx    int // index among effects (for E literals), -1 otherwise
}

func (s *Site) Pos(w *World) string { return w.pos(s.Instr.Pos()) }

func (s *Site) Where(w *World) string {
	ch := s.Ctx.chain(w)
	if len(ch) == 0 {
		return s.Pos(w)
	}
	return s.Pos(w) + " (via " + strings.Join(ch, " > ") + ")"
}

type Exit struct {
	Ctx     *Ctx
	Instr   *ssa.Return
	State   *CNF
	Results []*Term
}

type Watch struct {
	Ctx   *Ctx
	Instr ssa.Instruction
	In    *CNF
}

type siteKey struct {
	ctx *Ctx
	ins ssa.Instruction
}

type Analysis struct {
	w       *World
	q       *Query
	tb      *TermBuilder
	lt      *LitTable
	in      map[Node]*CNF
	ns      map[Node]*nodeState
	backPre map[edgeKey]*CNF // state on a back edge before the loop kill
	visits  map[Node]int
	work    []Node
	queued  map[Node]bool
	selLoc  []Node // selector id -> join point it belongs to
	okeys   map[Node][]int
	cur     Node
	edges   map[Node]map[Node]bool
	sites   []*Site
	siteIdx map[siteKey]*Site
	effects []*Site
	exits   map[siteKey]*Exit
	watches map[siteKey]*Watch
	defers  map[*Ctx][]*ssa.Defer
	notes   []string // things that make the result undecided (dynamic calls, budget)
	steps   int
	maxCl   int
	pass    int
	nodes   int
}

// ---------- effect classification ----------

var nonEffectPkgs = map[string]bool{
	"native/std": true, "native/crypto": true, "convert": true, "iterator": true, "util": true,
	"lib/address": true, "neogointernal": true, "native/ledger": true, "math": true, "interop": true,
}
var nonEffectFuncs = map[string]bool{
	"runtime.Log": true, "runtime.BurnGas": true, "runtime.CheckWitness": true, "runtime.GetTime": true,
	"runtime.GetNetwork": true, "runtime.GetScriptContainer": true, "runtime.GetExecutingScriptHash": true,
	"runtime.GetCallingScriptHash": true, "runtime.GetEntryScriptHash": true, "runtime.GetTrigger": true,
	"runtime.GasLeft": true, "runtime.GetInvocationCounter": true, "runtime.GetRandom": true, "runtime.Platform": true,
	"runtime.GetAddressVersion": true, "runtime.GetNotifications": true, "runtime.CurrentSigners": true,
	"storage.Get": true, "storage.Find": true, "storage.GetContext": true, "storage.GetReadOnlyContext": true,
	"storage.ConvertContextToReadOnly": true,
	"contract.CreateMultisigAccount":   true, "contract.CreateStandardAccount": true, "contract.GetCallFlags": true,
	"contract.GetStorageItem": true, "contract.SeekStorage": true,
	"native/roles.GetDesignatedByRole": true,
	"native/management.GetContract":    true, "native/management.GetContractByID": true, "native/management.HasMethod": true,
	"native/management.GetMinimumDeploymentFee": true, "native/management.GetContractHashes": true,
	"native/neo.GetCommittee": true, "native/neo.BalanceOf": true, "native/neo.Decimals": true, "native/neo.Symbol": true,
	"native/neo.TotalSupply": true, "native/neo.GetCandidates": true, "native/neo.GetNextBlockValidators": true,
	"native/neo.GetGASPerBlock": true, "native/neo.GetAccountState": true, "native/neo.UnclaimedGAS": true,
	"native/neo.GetRegisterPrice": true, "native/neo.GetAllCandidates": true, "native/neo.GetCandidateVote": true,
	"native/neo.GetCommitteeAddress": true,
	"native/gas.BalanceOf":           true, "native/gas.Decimals": true, "native/gas.Symbol": true, "native/gas.TotalSupply": true,
	"native/notary.BalanceOf": true, "native/notary.ExpirationOf": true, "native/notary.GetMaxNotValidBeforeDelta": true,
	"native/policy.GetFeePerByte": true, "native/policy.GetExecFeeFactor": true, "native/policy.GetStoragePrice": true,
	"native/policy.IsBlocked": true, "native/policy.GetAttributeFee": true,
}
var effectClass = map[string]string{
	"storage.Put": "put", "storage.Delete": "delete", "runtime.Notify": "notify",
	"native/gas.Transfer": "transfer", "native/neo.Transfer": "transfer", "native/neo.Vote": "vote",
}

const (
	flagReadStates = 1
	flagAllowCall  = 4
	flagReadOnly   = flagReadStates | flagAllowCall
)

func (a *Analysis) classify(name string, args []*Term) string {
	if c, ok := effectClass[name]; ok {
		return c
	}
	if name == "contract.Call" {
		if len(args) >= 3 {
			if f, ok := args[2].IntConst(); ok && f&^int64(flagReadOnly) == 0 {
				return ""
			}
		}
		return "call"
	}
	if nonEffectFuncs[name] {
		return ""
	}
	if i := strings.LastIndex(name, "."); i >= 0 {
		pkg := name[:i]
		// methods: "interop.Hash160.Equals"
		if j := strings.Index(name, "."); j >= 0 && nonEffectPkgs[name[:j]] {
			return ""
		}
		if nonEffectPkgs[pkg] {
			return ""
		}
	}
	return "unknown"
}

// ---------- driver ----------

func analyze(w *World, q *Query) *Analysis {
	tb := newTermBuilder(w, q.Root)
	for k, v := range q.Consts {
		tb.consts[k] = v
	}
	lt := newLitTable()
	// comparisons of a sum with a constant are kept about the sum without its constant part:
	// `len(id) − 32 < 3` and `len(id) < 35` are one literal
	lt.norm = func(l Lit) Lit {
		if (l.Kind != KLtC && l.Kind != KEqC) || l.A == nil || l.A.Op != "sum" {
			return l
		}
		for i, x := range l.A.Args {
			if n, ok := x.IntConst(); ok {
				if l.A.Name[i] == '-' {
					n = -n
				}
				l.A = tb.binop(token.SUB, l.A, tb.constInt(n), intType)
				l.C -= n
				break
			}
		}
		// x − y == 0 is x == y
		if l.Kind == KEqC && l.C == 0 && l.A.Op == "sum" && len(l.A.Args) == 2 && l.A.Name[0] != l.A.Name[1] {
			x, y := l.A.Args[0], l.A.Args[1]
			if x.s > y.s {
				x, y = y, x
			}
			return Lit{Kind: KEq, A: x, B: y}
		}
		return l
	}
	// pass 1: enumerate effect sites; pass 2: with ¬E units
	first := runPass(w, q, tb, lt, nil, 1)
	second := runPass(w, q, tb, lt, first.effects, 2)
	second.steps += first.steps
	return second
}

func runPass(w *World, q *Query, tb *TermBuilder, lt *LitTable, effects []*Site, pass int) *Analysis {
	a := &Analysis{w: w, q: q, tb: tb, lt: lt, in: map[Node]*CNF{}, ns: map[Node]*nodeState{}, queued: map[Node]bool{}, visits: map[Node]int{}, siteIdx: map[siteKey]*Site{},
		exits: map[siteKey]*Exit{}, watches: map[siteKey]*Watch{}, defers: map[*Ctx][]*ssa.Defer{}, pass: pass}
	init := newCNF()
	// keep effect numbering stable across passes
	for _, e := range effects {
		s := &Site{Idx: len(a.sites), Ctx: e.Ctx, Instr: e.Instr, Callee: e.Callee, Fn: e.Fn, Args: e.Args, Val: e.Val, Effect: e.Effect, Inlined: e.Inlined, EIdx: len(a.effects)}
		a.sites = append(a.sites, s)
		a.siteIdx[siteKey{e.Ctx, e.Instr}] = s
		a.effects = append(a.effects, s)
		init.add(Clause{-lt.id(Lit{Kind: KE, C: int64(s.EIdx)})})
	}
	if q.Root.Blocks == nil {
		return a
	}
	a.push(Node{tb.root, q.Root.Blocks[0], 0}, "entry", init)
	for len(a.work) > 0 {
		// pick the earliest node in program order (call string, block, index)
		best := 0
		for i := 1; i < len(a.work); i++ {
			if a.before(a.work[i], a.work[best]) {
				best = i
			}
		}
		n := a.work[best]
		a.work[best] = a.work[len(a.work)-1]
		a.work = a.work[:len(a.work)-1]
		a.queued[n] = false
		a.cur = n
		a.run(n)
		if a.steps > 400000 {
			a.notes = append(a.notes, "fixpoint step budget exhausted")
			break
		}
	}
	a.nodes = len(a.in)
	return a
}

// order key of a node: positions along the call string, then its own.
func (a *Analysis) orderKey(n Node) []int {
	if k, ok := a.okeys[n]; ok {
		return k
	}
	var chain []*Ctx
	for c := n.ctx; c != nil && c.parent != nil; c = c.parent {
		chain = append(chain, c)
	}
	var key []int
	for i := len(chain) - 1; i >= 0; i-- {
		c := chain[i]
		key = append(key, rpoIndex(c.cont.Block()), instrIndex(c.cont))
	}
	key = append(key, rpoIndex(n.b), n.idx)
	if a.okeys == nil {
		a.okeys = map[Node][]int{}
	}
	a.okeys[n] = key
	return key
}

// rpoIndex: reverse-postorder number of a block in its function (a
// topological order of the CFG without its back edges).
var rpoCache = map[*ssa.Function]map[*ssa.BasicBlock]int{}

func rpoIndex(b *ssa.BasicBlock) int {
	fn := b.Parent()
	m, ok := rpoCache[fn]
	if !ok {
		m = map[*ssa.BasicBlock]int{}
		seen := map[*ssa.BasicBlock]bool{}
		var post []*ssa.BasicBlock
		var dfs func(x *ssa.BasicBlock)
		dfs = func(x *ssa.BasicBlock) {
			seen[x] = true
			// visit successors in reverse so that the first successor comes first in RPO
			for i := len(x.Succs) - 1; i >= 0; i-- {
				if !seen[x.Succs[i]] {
					dfs(x.Succs[i])
				}
			}
			post = append(post, x)
		}
		if len(fn.Blocks) > 0 {
			dfs(fn.Blocks[0])
		}
		for i, x := range post {
			m[x] = len(post) - 1 - i
		}
		for _, x := range fn.Blocks {
			if _, ok := m[x]; !ok {
				m[x] = len(post) + x.Index
			}
		}
		rpoCache[fn] = m
	}
	return m[b]
}

func (a *Analysis) before(x, y Node) bool {
	kx, ky := a.orderKey(x), a.orderKey(y)
	for i := 0; i < len(kx) && i < len(ky); i++ {
		if kx[i] != ky[i] {
			return kx[i] < ky[i]
		}
	}
	return len(kx) > len(ky) // deeper frame (callee) before the continuation
}

type nodeState struct {
	preds map[any]*CNF
	order []any
	sel   map[any]int32
}

// push records the state arriving at n from predecessor `from` and recomputes
// the in-state of n as the (selector-encoded) disjunction over predecessors.
func (a *Analysis) push(n Node, from any, st *CNF) {
	if st.bottom {
		return
	}
	if a.cur.b != nil {
		if a.edges == nil {
			a.edges = map[Node]map[Node]bool{}
		}
		if a.edges[a.cur] == nil {
			a.edges[a.cur] = map[Node]bool{}
		}
		a.edges[a.cur][n] = true
	}
	ns := a.ns[n]
	if ns == nil {
		ns = &nodeState{preds: map[any]*CNF{}, sel: map[any]int32{}}
		a.ns[n] = ns
	}
	if _, ok := ns.preds[from]; !ok {
		ns.order = append(ns.order, from)
		a.selLoc = append(a.selLoc, n)
		ns.sel[from] = a.lt.id(Lit{Kind: KS, C: int64(len(a.selLoc) - 1)})
	}
	if old, seen := ns.preds[from]; seen && old != nil && n.idx == 0 && isLoopHeader(n.b) && !old.equal(st) {
		// a new state enters the loop from outside: the states that came around the
		// back edges were computed from the previous entry state and must not be
		// mixed with the new one (they would freeze facts at a weaker fixpoint)
		if fb, isBlock := from.(*ssa.BasicBlock); !isBlock || !n.b.Dominates(fb) {
			for k := range ns.preds {
				if kb, isBlock := k.(*ssa.BasicBlock); isBlock && n.b.Dominates(kb) && k != from {
					ns.preds[k] = nil
				}
			}
		}
	}
	ns.preds[from] = st
	states := make([]*CNF, len(ns.order))
	sels := make([]int32, len(ns.order))
	for i, k := range ns.order {
		states[i] = ns.preds[k]
		sels[i] = ns.sel[k]
	}
	nw := joinAll(a.lt, states, sels)
	old := a.in[n]
	if old != nil && old.equal(nw) {
		return
	}
	if len(nw.cl) > a.maxCl {
		a.maxCl = len(nw.cl)
	}
	a.visits[n]++
	if a.visits[n] > 300 {
		if a.visits[n] == 301 {
			a.notes = append(a.notes, "node visit budget exhausted at "+a.w.pos(n.b.Instrs[0].Pos()))
		}
		return
	}
	a.in[n] = nw
	if !a.queued[n] {
		a.queued[n] = true
		a.work = append(a.work, n)
	}
}

func (a *Analysis) site(ctx *Ctx, ins ssa.CallInstruction, callee *ssa.Function, st *CNF, inlined bool) *Site {
	k := siteKey{ctx, ins}
	s, ok := a.siteIdx[k]
	if !ok {
		s = &Site{Idx: len(a.sites), Ctx: ctx, Instr: ins, Fn: callee, Inlined: inlined, EIdx: -1}
		if callee != nil {
			s.Callee = fq(callee)
		}
		a.sites = append(a.sites, s)
		a.siteIdx[k] = s
	}
	if s.Args == nil {
		for i, ar := range ins.Common().Args {
			if i == 1 && strings.HasPrefix(s.Callee, "storage.") {
				s.Args = append(s.Args, a.tb.editedTerm(ctx, ar, ins))
				continue
			}
			s.Args = append(s.Args, a.tb.Term(ctx, ar))
		}
		if v := ins.Value(); v != nil {
			s.Val = a.tb.Term(ctx, v)
		}
	}
	s.In = st.clone()
	return s
}

func (a *Analysis) markEffect(s *Site, class string) {
	if s.Effect == "" {
		s.Effect = class
	}
	if s.EIdx < 0 && a.pass == 1 {
		s.EIdx = len(a.effects)
		a.effects = append(a.effects, s)
	}
}

// effectfulFn: does fn (transitively, syntactically) reach a write primitive?
var effectfulCache = map[*ssa.Function]int{}

func effectfulFn(a *Analysis, fn *ssa.Function, depth int) bool {
	if v, ok := effectfulCache[fn]; ok {
		return v == 1
	}
	effectfulCache[fn] = 2 // in progress: assume no
	res := false
	for _, b := range fn.Blocks {
		for _, ins := range b.Instrs {
			ci, ok := ins.(ssa.CallInstruction)
			if !ok {
				continue
			}
			c := ci.Common().StaticCallee()
			if c == nil {
				if _, isB := ci.Common().Value.(*ssa.Builtin); !isB {
					res = true
				}
				continue
			}
			if inlinable(c) {
				if depth < 20 && effectfulFn(a, c, depth+1) {
					res = true
				}
				continue
			}
			if isInterop(c) {
				name := fq(c)
				if name == "contract.Call" {
					// flags must be a constant within ReadOnly
					args := ci.Common().Args
					ok := false
					if len(args) >= 3 {
						if k, isC := args[2].(*ssa.Const); isC && k.Value != nil {
							if f, exact := constant.Int64Val(k.Value); exact && f&^int64(flagReadOnly) == 0 {
								ok = true
							}
						}
					}
					if !ok {
						res = true
					}
					continue
				}
				if a.classify(name, nil) != "" {
					res = true
				}
			}
		}
	}
	if res {
		effectfulCache[fn] = 1
	} else {
		effectfulCache[fn] = 0
	}
	return res
}

func (a *Analysis) eLit(s *Site) int32 { return a.lt.id(Lit{Kind: KE, C: int64(s.EIdx)}) }

func (a *Analysis) run(n Node) {
	a.steps++
	st := a.in[n].clone()
	ctx, b := n.ctx, n.b
	for i := n.idx; i < len(b.Instrs); i++ {
		if w, ok := a.watches[siteKey{ctx, b.Instrs[i]}]; ok {
			w.In = st.clone()
		} else if bo, ok := b.Instrs[i].(*ssa.BinOp); ok && (bo.Op == token.REM || bo.Op == token.QUO) {
			a.watches[siteKey{ctx, bo}] = &Watch{Ctx: ctx, Instr: bo, In: st.clone()}
		}
		switch ins := b.Instrs[i].(type) {
		case *ssa.Defer:
			found := false
			for _, d := range a.defers[ctx] {
				if d == ins {
					found = true
				}
			}
			if !found {
				a.defers[ctx] = append(a.defers[ctx], ins)
			}
		case *ssa.Go:
			a.notes = append(a.notes, "go statement at "+a.w.pos(ins.Pos()))
		case *ssa.RunDefers:
			ds := a.defers[ctx]
			if len(ds) == 0 {
				continue
			}
			if len(ds) > 1 {
				a.notes = append(a.notes, "more than one defer in "+fq(ctx.fn))
			}
			d := ds[len(ds)-1]
			var body *ssa.Function
			if mc, ok := d.Call.Value.(*ssa.MakeClosure); ok {
				body, _ = mc.Fn.(*ssa.Function)
			} else if f, ok := d.Call.Value.(*ssa.Function); ok {
				body = f
			}
			if body == nil || body.Blocks == nil {
				a.notes = append(a.notes, "deferred call not resolved in "+fq(ctx.fn))
				continue
			}
			k := a.tb.childAt(ctx, d, ins, body)
			a.push(Node{k, body.Blocks[0], 0}, ins, st)
			return
		case *ssa.Call:
			com := ins.Common()
			if _, isB := com.Value.(*ssa.Builtin); isB {
				continue
			}
			callee := com.StaticCallee()
			if callee == nil {
				s := a.site(ctx, ins, nil, st, false)
				a.markEffect(s, "dynamic")
				a.notes = append(a.notes, "call through a function value at "+a.w.pos(ins.Pos()))
				a.execEffect(st, s)
				continue
			}
			name := fq(callee)
			if name == "util.Abort" {
				return
			}
			if inlinable(callee) {
				if ctx.onStack(callee) || ctx.depth() >= 16 {
					// recursion (or depth bound): summarise flow-insensitively
					s := a.site(ctx, ins, callee, st, false)
					if ctx.depth() >= 16 {
						a.notes = append(a.notes, "inlining depth bound reached at "+a.w.pos(ins.Pos()))
					}
					if effectfulFn(a, callee, 0) {
						a.markEffect(s, "recursive")
						a.execEffect(st, s)
					}
					continue
				}
				cs := a.site(ctx, ins, callee, st, true)
				k := a.tb.child(ctx, ins, callee)
				if k.catching {
					// entering an exception-catching frame is itself recorded as an event
					// ("frame"): what happens inside may be cut short by a caught exception
					a.markEffect(cs, "frame")
					a.execEffect(st, cs)
				}
				a.push(Node{k, callee.Blocks[0], 0}, ins, st)
				if k.catching {
					// an exception anywhere inside is caught by the frame: the caller
					// continues with what was known at entry, minus what the frame may have done
					a.push(Node{ctx, b, i + 1}, k, a.weakenForFrame(st, k))
				}
				return
			}
			s := a.site(ctx, ins, callee, st, false)
			if cl := a.classify(name, s.Args); cl != "" {
				a.markEffect(s, cl)
				a.execEffect(st, s)
			}
		case *ssa.Panic:
			return
		case *ssa.If:
			ct := a.tb.Term(ctx, ins.Cond)
			if cb, ok := ct.BoolConst(); ok {
				t := 0
				if !cb {
					t = 1
				}
				a.edge(ctx, b, b.Succs[t], st)
				return
			}
			for t, pol := range []bool{true, false} {
				s2 := st.clone()
				for _, l := range a.condLits(ct, pol, 0) {
					s2.addUnit(a.lt, l)
				}
				a.edge(ctx, b, b.Succs[t], s2)
			}
			return
		case *ssa.Jump:
			a.edge(ctx, b, b.Succs[0], st)
			return
		case *ssa.Return:
			a.ret(ctx, ins, st)
			return
		}
	}
}

func (a *Analysis) execEffect(st *CNF, s *Site) {
	if s.EIdx < 0 {
		return
	}
	e := a.eLit(s)
	st.kill(func(l int32) bool { return l == -e })
	st.addUnit(a.lt, e)
}

// weakenForFrame: facts that survive an exception caught by frame k.
func (a *Analysis) weakenForFrame(st *CNF, k *Ctx) *CNF {
	out := st.clone()
	inside := map[int64]bool{}
	for _, e := range a.effects {
		if e.Ctx.isDescOrSelf(k) {
			inside[int64(e.EIdx)] = true
		}
	}
	out.kill(func(l int32) bool {
		lit, _ := a.lt.get(l)
		return lit.Kind == KE && inside[lit.C]
	})
	return out
}

func (a *Analysis) ret(ctx *Ctx, ins *ssa.Return, st *CNF) {
	if ctx.parent == nil {
		k := siteKey{ctx, ins}
		ex, ok := a.exits[k]
		if !ok {
			ex = &Exit{Ctx: ctx, Instr: ins}
			for _, r := range ins.Results {
				ex.Results = append(ex.Results, a.tb.Term(ctx, r))
			}
			a.exits[k] = ex
		}
		ex.State = st.clone()
		return
	}
	// continuation
	cont := ctx.cont
	pb := cont.Block()
	ci := instrIndex(cont)
	if call, ok := ctx.site.(*ssa.Call); ok && cont == ssa.Instruction(call) {
		// bind results
		if len(ins.Results) == 1 {
			dst := a.tb.Term(ctx.parent, call)
			a.bind(st, dst, a.tb.Term(ctx, ins.Results[0]), ins.Results[0].Type())
		} else if len(ins.Results) > 1 {
			for j, r := range ins.Results {
				dst := a.tb.call(ctx.parent, call, j)
				a.bind(st, dst, a.tb.Term(ctx, r), r.Type())
			}
		}
	}
	a.push(Node{ctx.parent, pb, ci + 1}, ins, st)
}

// bind: dst (a phi/ret instance) takes the value src on this edge.
func (a *Analysis) bind(st *CNF, dst, src *Term, T types.Type) {
	if dst == src || (dst.Op != "phi" && dst.Op != "ret") {
		return
	}
	if mentions(src, dst.Inst) {
		return
	}
	if isBool(T) {
		if bv, ok := src.BoolConst(); ok {
			l := a.lt.id(Lit{Kind: KB, A: dst})
			if !bv {
				l = -l
			}
			st.addUnit(a.lt, l)
			return
		}
		bl := a.lt.id(Lit{Kind: KB, A: dst})
		for _, l := range a.condLits(src, true, 0) {
			st.addClause(a.lt, []int32{-bl, l})
		}
		for _, l := range a.condLits(src, false, 0) {
			st.addClause(a.lt, []int32{bl, l})
		}
		return
	}
	if src.IsNil() {
		st.addUnit(a.lt, a.lt.id(Lit{Kind: KNil, A: dst}))
		return
	}
	if a.q.NoEq {
		return
	}
	if c, ok := src.IntConst(); ok {
		st.addUnit(a.lt, a.lt.id(Lit{Kind: KEqC, A: dst, C: c}))
		return
	}
	st.addUnit(a.lt, a.eqLit(dst, src))
}

func (a *Analysis) eqLit(x, y *Term) int32 {
	if x.s > y.s {
		x, y = y, x
	}
	return a.lt.id(Lit{Kind: KEq, A: x, B: y})
}

// isCarrier: boolean terms that can carry a correlation between two tests.
func isCarrier(t *Term) bool {
	switch t.Op {
	case "phi", "ret", "assertok", "haskey", "icall", "opaque", "read", "ext", "field", "index", "param", "iterval", "iternext", "elem", "load", "extract":
		return true
	case "call":
		switch t.Name {
		case "runtime.CheckWitness", "interop.Hash160.Equals", "interop.Hash256.Equals", "interop.PublicKey.Equals", "util.Equals":
			return false
		}
		return true
	}
	return false
}

// condLits: literals implied by boolean term t having polarity pol.
func (a *Analysis) condLits(t *Term, pol bool, depth int) []int32 {
	var out []int32
	sign := func(id int32, p bool) int32 {
		if p {
			return id
		}
		return -id
	}
	if depth > 8 {
		return out
	}
	switch t.Op {
	case "not":
		return a.condLits(t.Args[0], !pol, depth+1)
	case "call":
		switch t.Name {
		case "runtime.CheckWitness":
			g := a.generalize(t.Args[0])
			if pol {
				out = append(out, a.lt.id(Lit{Kind: KW, A: g}))
			} else if g == t.Args[0] {
				// no loop element inside: the same term is checked with the same outcome
				// anywhere in this invocation, so the negative outcome may be recorded too
				out = append(out, -a.lt.id(Lit{Kind: KW, A: g}))
			}
			return out
		case "interop.Hash160.Equals", "interop.Hash256.Equals", "interop.PublicKey.Equals", "util.Equals":
			x, y := t.Args[0], t.Args[1]
			if x.Op == "call" && x.Name == "runtime.GetCallingScriptHash" {
				out = append(out, sign(a.lt.id(Lit{Kind: KCaller, A: y}), pol))
				return out
			}
			if y.Op == "call" && y.Name == "runtime.GetCallingScriptHash" {
				out = append(out, sign(a.lt.id(Lit{Kind: KCaller, A: x}), pol))
				return out
			}
			if a.wantCmp(x, y) {
				out = append(out, sign(a.eqLit(x, y), pol))
			}
			return out
		}
	case "bin":
		x, y := t.Args[0], t.Args[1]
		switch t.Name {
		case "==", "!=":
			p := pol
			if t.Name == "!=" {
				p = !p
			}
			if y.IsNil() || x.IsNil() {
				o := x
				if x.IsNil() {
					o = y
				}
				out = append(out, sign(a.lt.id(Lit{Kind: KNil, A: o}), p))
				return out
			}
			if c, ok := y.IntConst(); ok {
				out = append(out, a.cmpC(x, "==", c, p)...)
				return out
			}
			if c, ok := x.IntConst(); ok {
				out = append(out, a.cmpC(y, "==", c, p)...)
				return out
			}
			if bv, ok := y.BoolConst(); ok {
				return a.condLits(x, p == bv, depth+1)
			}
			if bv, ok := x.BoolConst(); ok {
				return a.condLits(y, p == bv, depth+1)
			}
			if a.wantCmp(x, y) {
				out = append(out, sign(a.eqLit(x, y), p))
			}
			return out
		case "<", "<=":
			// x < y  |  x <= y  ≡ ¬(y < x)
			if c, ok := y.IntConst(); ok { // x < c | x <= c
				if t.Name == "<=" {
					c++
				}
				out = append(out, a.ltC(x, c, pol)...)
				return out
			}
			if c, ok := x.IntConst(); ok { // c < y ≡ ¬(y < c+1) ; c <= y ≡ ¬(y < c)
				if t.Name == "<" {
					c++
				}
				out = append(out, a.ltC(y, c, !pol)...)
				return out
			}
			if !a.wantCmp(x, y) {
				return out
			}
			if t.Name == "<" {
				out = append(out, sign(a.lt.id(Lit{Kind: KLt, A: x, B: y}), pol))
			} else {
				out = append(out, sign(a.lt.id(Lit{Kind: KLt, A: y, B: x}), !pol))
			}
			return out
		}
	}
	if isCarrier(t) {
		out = append(out, sign(a.lt.id(Lit{Kind: KB, A: t}), pol))
	}
	return out
}

func (a *Analysis) wantCmp(x, y *Term) bool {
	if a.q.WantCmp == nil {
		return false
	}
	return a.q.WantCmp(x, y)
}

func (a *Analysis) cmpC(x *Term, op string, c int64, pol bool) []int32 {
	// len(x) == 0 is always interesting (nil-ness); others subject to the filter
	isLen := x.Op == "len"
	if !isLen && !a.wantCmp(x, a.tb.constInt(c)) {
		return nil
	}
	id := a.lt.id(Lit{Kind: KEqC, A: x, C: c})
	var out []int32
	if pol {
		out = append(out, id)
	} else {
		out = append(out, -id)
	}
	if isLen && ((pol && c != 0) || (!pol && c == 0)) {
		out = append(out, -a.lt.id(Lit{Kind: KNil, A: x.Args[0]}))
	}
	return out
}

func (a *Analysis) ltC(x *Term, c int64, pol bool) []int32 {
	isLen := x.Op == "len"
	if !isLen && !a.wantCmp(x, a.tb.constInt(c)) {
		return nil
	}
	id := a.lt.id(Lit{Kind: KLtC, A: x, C: c})
	var out []int32
	if pol {
		out = append(out, id)
	} else {
		out = append(out, -id)
		if isLen && c >= 1 {
			out = append(out, -a.lt.id(Lit{Kind: KNil, A: x.Args[0]}))
		}
	}
	return out
}

// generalize strips loop-element instances: W(Elem(K)) is read existentially
// ("the witness of some element of K was checked"), which stays true after
// the loop moves on. Only used for positive W literals.
func (a *Analysis) generalize(t *Term) *Term {
	if t.Op == "elem" {
		return a.tb.mk("elem", "", 0, a.generalize(t.Args[0]))
	}
	if len(t.Args) == 0 {
		return t
	}
	args := make([]*Term, len(t.Args))
	ch := false
	for i, x := range t.Args {
		args[i] = a.generalize(x)
		if args[i] != x {
			ch = true
		}
	}
	if !ch {
		return t
	}
	return a.tb.mk(t.Op, t.Name, t.Inst, args...)
}

func (a *Analysis) edge(ctx *Ctx, from, to *ssa.BasicBlock, st *CNF) {
	st = st.clone()
	back := to.Dominates(from)
	if back {
		if a.backPre == nil {
			a.backPre = map[edgeKey]*CNF{}
		}
		a.backPre[edgeKey{ctx, from, to}] = st.clone()
		// kill facts about values defined inside the loop (this frame's blocks
		// dominated by the header, and every frame called from them)
		st.kill(func(l int32) bool {
			lit, _ := a.lt.get(l)
			if lit.Kind == KS {
				return a.nodeInLoop(a.selLoc[lit.C], ctx, to)
			}
			return a.termInLoop(lit.A, ctx, to) || a.termInLoop(lit.B, ctx, to)
		})
	}
	pi := -1
	for j, p := range to.Preds {
		if p == from {
			pi = j
		}
	}
	if !back {
		for _, ins := range to.Instrs {
			phi, ok := ins.(*ssa.Phi)
			if !ok {
				break
			}
			a.bind(st, a.tb.Term(ctx, phi), a.tb.Term(ctx, phi.Edges[pi]), phi.Type())
		}
	}
	a.push(Node{ctx, to, 0}, from, st)
}

// nodeInLoop: is join point n inside the loop with the given header in ctx
// (in one of its blocks, or in a frame called from them)?
func (a *Analysis) nodeInLoop(n Node, ctx *Ctx, header *ssa.BasicBlock) bool {
	if n.ctx == ctx {
		return header.Dominates(n.b)
	}
	for c := n.ctx; c != nil && c.parent != nil; c = c.parent {
		if c.parent == ctx {
			return c.cont != nil && c.cont.Block() != nil && header.Dominates(c.cont.Block())
		}
	}
	return false
}

func (a *Analysis) termInLoop(t *Term, ctx *Ctx, header *ssa.BasicBlock) bool {
	if t == nil {
		return false
	}
	for _, id := range t.insts {
		in := a.tb.insts[id]
		if in.ctx == ctx {
			if in.ins != nil && in.ins.Block() != nil && header.Dominates(in.ins.Block()) {
				return true
			}
			continue
		}
		// a frame called from inside the loop
		for c := in.ctx; c != nil && c.parent != nil; c = c.parent {
			if c.parent == ctx {
				if c.cont != nil && c.cont.Block() != nil && header.Dominates(c.cont.Block()) {
					return true
				}
				break
			}
		}
	}
	return false
}

// ---------- queries over results ----------

func (a *Analysis) Exits() []*Exit {
	var out []*Exit
	for _, e := range a.exits {
		out = append(out, e)
	}
	sort.Slice(out, func(i, j int) bool { return out[i].Instr.Pos() < out[j].Instr.Pos() })
	return out
}

func (a *Analysis) Sites(pred func(*Site) bool) []*Site {
	var out []*Site
	for _, s := range a.sites {
		if s.In != nil && pred(s) {
			out = append(out, s)
		}
	}
	return out
}

func (a *Analysis) Effects() []*Site {
	var out []*Site
	for _, s := range a.effects {
		if s.In != nil {
			out = append(out, s)
		}
	}
	return out
}

// RealEffects: effects without the pseudo-effect "entered a catching frame".
func (a *Analysis) RealEffects() []*Site {
	var out []*Site
	for _, s := range a.Effects() {
		if s.Effect != "frame" {
			out = append(out, s)
		}
	}
	return out
}

// Canon rewrites t with the unit equalities of st (phi/ret instance -> value).
func (a *Analysis) Canon(st *CNF, t *Term) *Term {
	if st == nil || t == nil {
		return t
	}
	for iter := 0; iter < 6; iter++ {
		changed := false
		for _, u := range st.units() {
			if u < 0 {
				continue
			}
			l, _ := a.lt.get(u)
			if l.Kind != KEq {
				continue
			}
			from, to := l.A, l.B
			if to.Op == "phi" || to.Op == "ret" {
				if from.Op == "phi" || from.Op == "ret" {
					// between two instances: a merged variable (phi) is rewritten to the call
					// result (ret) it holds; otherwise prefer the lower id
					switch {
					case from.Op == "ret" && to.Op == "phi":
						from, to = to, from
					case from.Op == "phi" && to.Op == "ret":
					case from.Inst < to.Inst:
						from, to = to, from
					}
				} else {
					from, to = to, from
				}
			} else if from.Op != "phi" && from.Op != "ret" {
				continue
			}
			if nt := a.tb.Subst(t, from, to); nt != t {
				t = nt
				changed = true
			}
		}
		if !changed {
			break
		}
	}
	return t
}

func (a *Analysis) describe(st *CNF, only func(Lit) bool) []string {
	var out []string
	if st == nil {
		return out
	}
	for _, c := range st.cl {
		keep := false
		var ps []string
		for _, l := range c {
			lit, _ := a.lt.get(l)
			if only == nil || only(lit) {
				keep = true
			}
			ps = append(ps, a.lt.str(l))
		}
		if keep {
			out = append(out, strings.Join(ps, " ∨ "))
		}
	}
	sort.Strings(out)
	return out
}

func (a *Analysis) stats() string {
	return fmt.Sprintf("nodes=%d steps=%d maxClauses=%d sites=%d effects=%d exits=%d", a.nodes, a.steps, a.maxCl, len(a.sites), len(a.effects), len(a.exits))
}

// nodeOf: the graph node whose instruction range contains (ctx, ins).
func (a *Analysis) nodeOf(ctx *Ctx, ins ssa.Instruction) (Node, bool) {
	b := ins.Block()
	i := instrIndex(ins)
	best := Node{}
	found := false
	for n := range a.in {
		if n.ctx == ctx && n.b == b && n.idx <= i && (!found || n.idx > best.idx) {
			best, found = n, true
		}
	}
	return best, found
}

// reachAvoiding: the first site satisfying target that can execute after
// `from` on a path of the flat graph that does not execute any site in avoid
// (from itself may be in avoid: then paths around a loop back to it are cut).
func (a *Analysis) reachAvoiding(from *Site, target func(*Site) bool, avoid []*Site) *Site {
	av := map[*Site]bool{}
	for _, s := range avoid {
		av[s] = true
	}
	start, ok := a.nodeOf(from.Ctx, from.Instr)
	if !ok {
		return nil
	}
	type pos struct {
		n Node
		i int
	}
	seen := map[Node]bool{}
	work := []pos{{start, instrIndex(from.Instr) + 1}}
	for len(work) > 0 {
		p := work[len(work)-1]
		work = work[:len(work)-1]
		stopped := false
		for i := p.i; i < len(p.n.b.Instrs) && !stopped; i++ {
			ins := p.n.b.Instrs[i]
			if ci, ok := ins.(ssa.CallInstruction); ok {
				if s := a.siteIdx[siteKey{p.n.ctx, ci}]; s != nil {
					if av[s] {
						stopped = true
						break
					}
					if target(s) {
						return s
					}
					if s.Inlined {
						break // control continues in the callee: follow the node's edges
					}
				}
			}
			if _, ok := ins.(*ssa.Panic); ok {
				stopped = true
			}
		}
		if stopped {
			continue
		}
		for nx := range a.edges[p.n] {
			if !seen[nx] {
				seen[nx] = true
				work = append(work, pos{nx, nx.idx})
			}
		}
	}
	return nil
}

type edgeKey struct {
	ctx      *Ctx
	from, to *ssa.BasicBlock
}

// edgeState: the state that flows along from→to in frame ctx at the fixpoint
// (for a back edge: before the facts about loop-variant values are dropped);
// nil when the edge was never taken.
func (a *Analysis) edgeState(ctx *Ctx, from, to *ssa.BasicBlock) *CNF {
	if to.Dominates(from) {
		return a.backPre[edgeKey{ctx, from, to}]
	}
	if ns := a.ns[Node{ctx, to, 0}]; ns != nil {
		return ns.preds[from]
	}
	return nil
}

type skipEdge struct {
	From, To *ssa.BasicBlock
	St       *CNF
}

// skipEdges: the feasible edges of frame ctx that leave the region from which
// block target can still be reached (without passing through a stop block)
// towards a block from which it cannot, not counting edges into a block that
// only panics. They are exactly the ways to go round target.
func (a *Analysis) skipEdges(ctx *Ctx, target *ssa.BasicBlock, stop func(*ssa.BasicBlock) bool) []skipEdge {
	reach := map[*ssa.BasicBlock]bool{target: true}
	work := []*ssa.BasicBlock{target}
	for len(work) > 0 {
		b := work[len(work)-1]
		work = work[:len(work)-1]
		if stop != nil && stop(b) && b != target {
			continue
		}
		for _, p := range b.Preds {
			if !reach[p] {
				reach[p] = true
				work = append(work, p)
			}
		}
	}
	var out []skipEdge
	for _, b := range ctx.fn.Blocks {
		if !reach[b] || b == target || stop != nil && stop(b) {
			continue
		}
		for _, s := range b.Succs {
			if reach[s] && !(stop != nil && stop(s)) || s == target {
				continue
			}
			if _, isPanic := s.Instrs[len(s.Instrs)-1].(*ssa.Panic); isPanic {
				continue
			}
			if st := a.edgeState(ctx, b, s); st != nil && !st.bottom {
				out = append(out, skipEdge{b, s, st})
			}
		}
	}
	return out
}

// frameBlock: the block of frame k (an ancestor-or-self of the site's frame)
// in which the site is reached: the site's own block, or the block of the call
// that leads to it.
func frameBlock(s *Site, k *Ctx) *ssa.BasicBlock {
	if s.Ctx == k {
		return s.Instr.Block()
	}
	for c := s.Ctx; c != nil && c.parent != nil; c = c.parent {
		if c.parent == k && c.cont != nil {
			return c.cont.Block()
		}
	}
	return nil
}
