package main

// C20 — epoch-keyed, per-owner and configuration stores return exactly what was put (DESIGN §5).

import (
	"fmt"
	"go/token"
	"go/types"
	"sort"
	"strings"

	"golang.org/x/tools/go/ssa"
)

func init() {
	register(&Check{
		ID:        "C20",
		Level:     "other",
		Technique: "storage-layout analysis: component kinds of every Find prefix and every Put key (constant, fixed-width, variable-length integer, caller-supplied bytes) — R-prefix rule, constant-prefix family disjointness, put/get key-term agreement; must-facts for the gates, the id length bound and the cleanup deltas",
		Explanation: "D1 R-prefix: a Find whose prefix ends in a variable-length integer encoding while stored keys of that family continue after it also enumerates keys of other integers (bytes(1) is a prefix of bytes(257)); every scan of reputation, audit, container estimations, neofsid and the configuration maps is classified. Constant scan prefixes are family-disjoint. " +
			"D2 put/get agreement: every getter builds its key/prefix from the same component terms as the putter (reputation storageID, audit header ID, estimation key, owner keys, config‖key); GetContainerSize accepts exactly the ids ListContainerSizes can return (length bound = prefix + container id). " +
			"D3 gates: putContainerSize under W(key) ∧ membership of that key in the previous epoch's network map, audit.put under W(header.From) ∧ header.From ∈ Inner Ring. D4 cleanup: estimations are removed exactly when epoch − e > 3 (per node) resp. > 4 (global), with the key rebuilt by the same components as the putter. D5 neofsid.AddKey/RemoveKey act on every submitted key (loop-exhaustive rule); netmap.SetConfig, reputation.Put and audit.Put store on every normal return. D6 the global estimation cleanup examines every scanned key (scan left only on exhaustion; an iteration goes round the delete only with epoch − e ≤ 4). M: the reputation value counter continues from the stored one. R7 collect-every: in the list getters and their same-package helpers a loop driven by iterator.Next that accumulates does so in every iteration (or skips only an item already in the map it fills). R9: the per-node list of estimation epochs is read from and written back to a key naming both the container id and the node. S3: every container tick that returns normally has scanned the estimations (scan-always; a way round that depends on a stored key nobody writes is not a way). R13 catching-frame: no function with a deferred recover that a method of the property's contracts can reach lies outside the who-may-catch table (container.deleteNNSRecords).",
		NotCovered: "multiset equality of listings with a model over interleavings. KNOWN FINDINGS (genuine, recorded in known_findings.json): the four scans that end in the variable-length epoch encoding.",
		Run:        runC20,
	})
}

// compKind classifies one component of a key.
func compKind(t *Term) string {
	switch {
	case t.Op == "const":
		return "const"
	case t.Op == "varint":
		return "varint"
	case t.Op == "byte":
		return "fixed1"
	case isCall(t, "native/crypto.Sha256"):
		return "fixed32"
	case isCall(t, "native/crypto.Ripemd160"):
		return "fixed20"
	case t.Op == "slice":
		lo, okl := t.Args[1].IntConst()
		hi, okh := t.Args[2].IntConst()
		if t.Args[1].Op == "none" {
			lo, okl = 0, true
		}
		if okl && okh {
			return fmt.Sprintf("fixed%d", hi-lo)
		}
		return "bytes"
	case t.Op == "call" && fixedWidthFns[t.Name] > 0:
		// a contract helper whose every result is the full slice of one make([]byte, K)
		return fmt.Sprintf("fixed%d", fixedWidthFns[t.Name])
	}
	return "bytes"
}

func kindsOf(t *Term) []string {
	var ks []string
	for _, p := range keyParts(t) {
		ks = append(ks, compKind(p))
	}
	return ks
}

func runC20(cx *CheckCtx) {
	w := cx.W
	checkCollectEvery(cx)
	nScans := 0
	for _, cn := range []string{"reputation", "audit", "container", "neofsid", "netmap", "neofs"} {
		c := cx.contract(cn)
		if c == nil {
			continue
		}
		type keyUse struct {
			key  *Term
			site *Site
			m    *Method
		}
		var puts []keyUse
		type scan struct {
			s *Site
			m *Method
			a *Analysis
		}
		var scans []scan
		for _, m := range c.Methods {
			a := cx.run(m)
			for _, s := range a.RealEffects() {
				if s.Effect == "put" {
					puts = append(puts, keyUse{s.Args[1], s, m})
				}
			}
			for _, s := range a.Sites(func(s *Site) bool { return s.Callee == "storage.Find" }) {
				scans = append(scans, scan{s, m, a})
			}
		}
		// ---- D1 R-prefix
		seenScan := map[string]bool{}
		for _, sc := range scans {
			pre := sc.s.Args[1]
			ps := keyParts(pre)
			fnName := sc.s.Ctx.fn.Name()
			key := fmt.Sprintf("contracts/%s.%s/Find[%s]", cn, fnName, strings.Join(kindsOf(pre), "‖"))
			if fam := keyFamily(pre); fam != "" {
				key = fmt.Sprintf("contracts/%s.%s/Find[%q‖%s]", cn, fnName, fam, strings.Join(kindsOf(pre)[1:], "‖"))
			}
			if seenScan[key] {
				continue
			}
			seenScan[key] = true
			nScans++
			if len(ps) == 0 {
				cx.holds("R-prefix", key, "whole-store scan")
				continue
			}
			last := compKind(ps[len(ps)-1])
			if _, isC := pre.BytesConst(); isC && len(ps) == 1 {
				last = "const"
			}
			if last != "varint" {
				cx.holds("R-prefix", key, "prefix ends in a "+last+" component")
				continue
			}
			// do stored keys continue after the integer?
			continues := ""
			for _, p := range puts {
				pk := keyParts(p.key)
				if len(pk) <= len(ps) {
					continue
				}
				same := true
				for i := range ps {
					ki, kj := compKind(ps[i]), compKind(pk[i])
					if ki != kj {
						same = false
					}
					if ki == "const" && ps[i].String() != pk[i].String() { // terms of different analyses: compare by canonical string
						same = false
					}
				}
				if same {
					continues = p.key.pretty() + " (" + p.m.GoName + ")"
				}
			}
			if continues == "" {
				cx.holds("R-prefix", key, "no stored key continues after the integer component")
				continue
			}
			cx.violated("R-prefix", key, fmt.Sprintf("%s.%s scans the prefix %s which ends in a variable-length integer encoding while stored keys continue after it (%s): listing epoch 1 also returns the entries of epoch 257, 513, … (bytes(1) is a prefix of bytes(257))", cn, fnName, pre.pretty(), continues), sc.s.Where(w))
		}
		// constant scan prefixes are family-disjoint
		fams := map[string]bool{}
		for _, p := range puts {
			if f := keyFamily(p.key); f != "" {
				fams[f] = true
			}
		}
		var famList []string
		for f := range fams {
			famList = append(famList, f)
		}
		sort.Strings(famList)
		for _, sc := range scans {
			pre, isC := sc.s.Args[1].BytesConst()
			if !isC || pre == "" {
				continue
			}
			clash := ""
			for _, f := range famList {
				if f != pre && strings.HasPrefix(f, pre) {
					clash = f
				}
			}
			key := fmt.Sprintf("contracts/%s.%s/Find[%q]", cn, sc.s.Ctx.fn.Name(), pre)
			if seenScan["d:"+key] {
				continue
			}
			seenScan["d:"+key] = true
			cx.decide(clash == "", "family-disjoint", key, "no other key family starts with this scan prefix", fmt.Sprintf("the scan of prefix %q also enumerates the keys of family %q", pre, clash), sc.s.Where(w))
		}
	}
	cx.count("scans", nScans)
	cx.floor("scans", 15)

	// ---- D2 put/get agreement
	// reputation
	if pm, gm := cx.method("reputation", "Put"), cx.method("reputation", "Get"); pm != nil && gm != nil {
		pa, ga := cx.run(pm), cx.run(gm)
		var valPut, cntPut *Site
		for _, s := range pa.RealEffects() {
			if s.Effect == "put" && keyFamily(s.Args[1]) == "r" {
				valPut = s
			}
			if s.Effect == "put" && keyFamily(s.Args[1]) == "c" {
				cntPut = s
			}
		}
		var fnd *Site
		for _, s := range ga.Sites(func(s *Site) bool { return s.Callee == "storage.Find" }) {
			fnd = s
		}
		ok := valPut != nil && cntPut != nil && fnd != nil
		if ok {
			ptb, gtb := pa.tb, ga.tb
			pid := ptb.cat(ptb.mk("varint", "", 0, paramTerm(ptb, pm, "epoch")), paramTerm(ptb, pm, "peerID"))
			gid := gtb.cat(gtb.mk("varint", "", 0, paramTerm(gtb, gm, "epoch")), paramTerm(gtb, gm, "peerID"))
			vk := keyParts(valPut.Args[1])
			ok = cntPut.Args[1] == ptb.cat(ptb.constBytes("c"), pid) && len(vk) == 4 && ptb.cat(vk[:3]...) == ptb.cat(ptb.constBytes("r"), pid) && vk[3].Op == "varint" &&
				fnd.Args[1] == gtb.cat(gtb.constBytes("r"), gid) && valPut.Args[2] == paramTerm(ptb, pm, "value")
			if ok {
				// the value index is the incremented counter that is stored
				ok = vk[3].Args[0] == cntPut.Args[2]
			}
		}
		if ok {
			// the counter continues from the stored one (0 only when there is none)
			okCont := storedPlusD(pa, cntPut.In, pa.canonAt(cntPut, cntPut.Args[2]), 1, cntPut.Args[1])
			cx.decide(okCont, "put-get-key", "reputation.Put/counter", "the value counter is the stored counter + 1 (1 when there is none)", "reputation.Put does not continue the stored counter of the (epoch, peer): values overwrite each other", cntPut.Where(w))
			cx.decide(executedAtEveryExit(pa, valPut, cntPut), "put-always", "reputation.Put", "every normal return has stored the value and the counter", "reputation.Put can return normally without storing the submitted value (or without advancing the counter: the next value overwrites it)", w.pos(pm.Fn.Pos()))
		}
		cx.decide(ok, "put-get-key", "reputation.Put|Get", "values under 'r'‖id‖n with n the stored counter of 'c'‖id; Get scans 'r'‖id with the same id = bytes(epoch)‖peer", "reputation.Get does not scan the keys reputation.Put writes for the same (epoch, peer), or the value index is not the stored counter (values overwrite each other)", w.pos(pm.Fn.Pos()))
	}
	// reputation.ListByEpoch returns the ids without the one-byte family: key[1:]
	if lm := cx.method("reputation", "ListByEpoch"); lm != nil {
		tb := newTermBuilder(w, lm.Fn)
		ok := false
		for _, b := range lm.Fn.Blocks {
			for _, ins := range b.Instrs {
				c, isC := ins.(*ssa.Call)
				if !isC {
					continue
				}
				_, elems, isApp := appendOf(c)
				if !isApp || len(elems) != 1 {
					continue
				}
				t := tb.Term(tb.root, elems[0])
				if t.Op == "slice" && len(t.Args) == 3 && t.Args[0].Op == "iterval" && t.Args[2].Op == "none" {
					lo, isL := t.Args[1].IntConst()
					fam := keyFamily(t.Args[0].Args[0].Args[0])
					ok = isL && fam != "" && lo == int64(len(fam))
				}
			}
		}
		cx.decide(ok, "put-get-key", "reputation.ListByEpoch/id", "each listed id is the scanned key without its constant family prefix", "listByEpoch does not strip exactly the family prefix from the scanned keys: the ids it returns are not the ids get(id) accepts", w.pos(lm.Fn.Pos()))
	}
	// audit
	if pm := cx.method("audit", "Put"); pm != nil {
		pa := cx.run(pm)
		var put *Site
		for _, s := range pa.RealEffects() {
			if s.Effect == "put" {
				put = s
			}
		}
		ok := put != nil && put.Args[2] == paramTerm(pa.tb, pm, "rawAuditResult")
		var idShape []string
		if ok {
			idShape = kindsOf(put.Args[1])
		}
		okNode := false
		if lm := cx.method("audit", "ListByNode"); lm != nil && ok {
			la := cx.run(lm)
			for _, s := range la.Sites(func(s *Site) bool { return s.Callee == "storage.Find" }) {
				okNode = strings.Join(kindsOf(s.Args[1]), ",") == strings.Join(idShape, ",")
				ps := keyParts(s.Args[1])
				if okNode && len(ps) == 3 {
					tb := la.tb
					okNode = ps[0] == tb.mk("varint", "", 0, paramTerm(tb, lm, "epoch")) && ps[1] == paramTerm(tb, lm, "cid") &&
						ps[2] == tb.mk("slice", "", 0, tb.mk("call", "native/crypto.Sha256", 0, paramTerm(tb, lm, "key")), tb.mk("none", "", 0), tb.constInt(24))
				}
			}
		}
		if ok {
			cx.decide(executedAtEveryExit(pa, put), "put-always", "audit.Put", "every normal return has stored the result", "audit.Put can return normally without storing the submitted result", w.pos(pm.Fn.Pos()))
		}
		cx.decide(ok && okNode, "put-get-key", "audit.Put|ListByNode", "both build bytes(epoch)‖cid‖sha256(key)[:24]", "audit.ListByNode does not build the id audit.Put stores results under", w.pos(pm.Fn.Pos()))
		if ok {
			// D3 gate: the reporter key X (whose hash closes the storage key) is witnessed and
			// was found equal to an element of the Inner Ring list
			ps := keyParts(put.Args[1])
			var X *Term
			if n := len(ps); n > 0 && ps[n-1].Op == "slice" && isCall(ps[n-1].Args[0], "native/crypto.Sha256") {
				X = ps[n-1].Args[0].Args[0]
			}
			okW, okIR := false, false
			if X != nil {
				okW = pa.holdsAt(put.In, pa.litW(X))
				for _, f := range pa.unitFactsRaw(put.In) {
					if f.kind == KEq && f.pos {
						for _, pr := range [][2]*Term{{f.A, f.B}, {f.B, f.A}} {
							if pr[0] == X && pr[1].Op == "elem" && keySource(pa.tb, pr[1].Args[0]) == "fsalphabet" {
								okIR = true
							}
						}
					}
				}
			}
			cx.decide(okW && okIR, "gate", "audit.Put", "stores only under W(reporter key) ∧ reporter key == an element of the Inner Ring list, the reporter key being the one hashed into the storage key", "an audit result is stored without the witness of its reporter or without the reporter being an Inner Ring member", put.Where(w))
		}
	}
	// container estimations
	if pm := cx.method("container", "PutContainerSize"); pm != nil {
		pa := cx.run(pm)
		tb := pa.tb
		epoch, cid, pub := paramTerm(tb, pm, "epoch"), paramTerm(tb, pm, "cid"), paramTerm(tb, pm, "pubKey")
		h := tb.mk("call", "native/crypto.Ripemd160", 0, pub)
		wantKey := tb.cat(tb.constBytes("cnr"), tb.mk("varint", "", 0, epoch), cid, tb.mk("slice", "", 0, h, tb.mk("none", "", 0), tb.constInt(10)))
		var put, est, del *Site
		for _, s := range pa.RealEffects() {
			switch {
			case s.Effect == "put" && keyFamily(s.Args[1]) == "cnr":
				put = s
			case s.Effect == "put" && keyFamily(s.Args[1]) == "est":
				est = s
			case s.Effect == "delete":
				del = s
			}
		}
		if put == nil || est == nil || del == nil {
			cx.violated("put-get-key", "container.PutContainerSize/shape", "PutContainerSize no longer stores the estimation, the per-node epoch list and removes outdated estimations", w.pos(pm.Fn.Pos()))
		} else {
			v := unserialize(put.Args[2])
			cx.decide(put.Args[1] == wantKey && v.Op == "struct" && len(v.Args) == 2 && v.Args[0] == pub && v.Args[1] == paramTerm(tb, pm, "usedSize"), "put-get-key", "container.PutContainerSize/key", "'cnr'‖bytes(epoch)‖cid‖ripemd160(key)[:10] → {key, size}", "the estimation is stored under "+put.Args[1].pretty()+" → "+v.pretty(), put.Where(w))
			// D3 gate
			okG := pa.holdsAt(put.In, pa.litW(pub))
			okM := false
			for _, f := range pa.unitFactsRaw(put.In) {
				if f.kind == KB && f.pos {
					if cs := pa.resultSite(f.A, fq(containerIsStorageNodeFn(cx))); cs != nil && len(cs.Args) == 2 && cs.Args[1] == pub {
						okM = true
					}
				}
			}
			cx.decide(okG && okM, "gate", "container.PutContainerSize", "stores only under W(key) ∧ isStorageNode(key)", "an estimation is accepted without the witness of the reporting key or without that key being a storage node of the network map", put.Where(w))
			// D4 per-node cleanup
			old := del.Args[1]
			ops := keyParts(old)
			okD := len(ops) == 4 && ops[0] == tb.constBytes("cnr") && ops[1].Op == "varint" && ops[2] == cid && ops[3] == keyParts(wantKey)[3]
			okDelta := false
			if okD {
				gap := tb.binop(token.SUB, epoch, ops[1].Args[0], intType)
				okDelta = pa.holdsAt(del.In, -pa.litLtC(gap, 4)) && !pa.holdsAt(del.In, -pa.litLtC(gap, 5))
			}
			cx.decide(okD, "cleanup", "container.updateEstimations/key", "removes 'cnr'‖bytes(old epoch)‖cid‖ripemd160(key)[:10]: the key the putter wrote", "the per-node cleanup deletes "+old.pretty()+" which is not the key an older estimation of this node was stored under", del.Where(w))
			// … and the list of old epochs the cleanup walks is the list of *this* container and node: the key
			// it is read from (and written back to: `est`) names every identity component of the estimation
			// key — the container id and the node's hash. A list shared by all containers of a node is
			// consumed by the first container reported, the others keep their outdated estimations
			if okD {
				okHist, whyHist := false, "the old epoch is not an item of a stored list"
				var histKey *Term
				ops[1].walk(func(x *Term) bool {
					if x.Op == "read" && histKey == nil && len(x.Args) > 0 {
						histKey = x.Args[0]
					}
					return true
				})
				if histKey != nil {
					okHist, whyHist = true, ""
					for _, comp := range []*Term{cid, pub} {
						if !histKey.contains(func(x *Term) bool { return x == comp }) {
							okHist, whyHist = false, "the list is read from "+histKey.pretty()+", which does not name "+comp.pretty()
						}
					}
					if est.Args[1] != histKey {
						okHist, whyHist = false, "the list is read from "+histKey.pretty()+" and written back to "+est.Args[1].pretty()
					}
				}
				cx.decide(okHist, "cleanup", "container.updateEstimations/history-key", "the per-node list of epochs is kept per (container, node)", "the per-node cleanup walks a list that is not the one of this container and node: "+whyHist+" — outdated estimations of another container of the same node survive their cleanup delta", del.Where(w))
			}
			cx.decide(okDelta, "cleanup", "container.updateEstimations/delta", "removes exactly when epoch − old > 3", "the per-node cleanup does not remove exactly the estimations older than 3 epochs", del.Where(w))
		}
	}
	if fn := containerIsStorageNodeFn(cx); fn != nil {
		a := cx.analyze(&Query{Name: "std", Root: fn})
		ok := false
		for _, s := range a.Sites(func(s *Site) bool { return s.Callee == "contract.Call" }) {
			if n, _ := s.Args[1].BytesConst(); n == "snapshot" && len(s.Args) >= 4 && s.Args[3].Op == "arr" && len(s.Args[3].Args) == 1 {
				if d, isC := s.Args[3].Args[0].IntConst(); isC && d == 1 {
					if k, _ := s.Args[0].Args[0].BytesConst(); s.Args[0].Op == "read" && k == "netmapScriptHash" {
						ok = true
					}
				}
			}
		}
		// true only after the key was found equal to a node key of that snapshot
		okT := true
		for _, ex := range a.Exits() {
			if len(ex.Results) == 1 {
				if b, isC := ex.Results[0].BoolConst(); isC && b {
					found := false
					for _, f := range a.unitFactsRaw(ex.State) {
						if f.kind == KEq && f.pos {
							found = true
						}
					}
					if !found {
						okT = false
					}
				}
			}
		}
		cx.decide(ok && okT, "gate", "container.isStorageNode", "membership in Netmap.snapshot(1): true only after an equal node key was found", "isStorageNode does not test membership of the key in the previous epoch's network map", w.pos(fn.Pos()))
	}
	var cleanupFn *ssa.Function
	if m := cx.method("container", "NewEpoch"); m != nil {
		// the global cleanup helper: the function holding the delete of scanned 'cnr' keys reached from the tick
		cleanupFn = siteFunc(cx.run(m), func(s *Site) bool {
			return s.Effect == "delete" && s.Args[1].Op == "iterval" && s.Args[1].Args[0].Op == "find" && keyFamily(s.Args[1].Args[0].Args[0]) == "cnr"
		})
		if cleanupFn == nil {
			cx.violated("cleanup", "container.cleanupContainers", "the epoch tick no longer removes outdated size estimations", w.pos(m.Fn.Pos()))
		} else {
			// … at every tick: no normal return of the tick goes round the scan of the estimations (a way round
			// that needs a non-nil read of a key nobody in the contract writes is not a way)
			a := cx.run(m)
			var del *Site
			for _, s := range a.RealEffects() {
				if s.Effect == "delete" && s.Args[1].Op == "iterval" && s.Args[1].Args[0].Op == "find" && keyFamily(s.Args[1].Args[0].Args[0]) == "cnr" {
					del = s
				}
			}
			if del != nil {
				written := writtenFamilies(cx, "container")
				okS, whyS := alwaysReached(a, del, func(es *CNF) bool {
					for _, f := range a.lt.lits {
						if f.Kind == KNil && f.A != nil && f.A.Op == "read" && len(f.A.Args) > 0 {
							if fam := keyFamily(f.A.Args[0]); fam != "" && !written[fam] && a.holdsAt(es, -a.litNil(f.A)) {
								return true
							}
						}
					}
					return false
				})
				cx.decide(okS, "cleanup", "container.NewEpoch/scan-always", "every tick that returns normally has scanned the estimations", "a tick can return normally without scanning the estimations ("+whyS+"): estimations that become older than the documented delta at such a tick stay readable", del.Where(w))
			}
		}
	}
	if fn := cleanupFn; fn != nil && len(fn.Params) == 2 {
		a := cx.analyze(&Query{Name: "std", Root: fn})
		tb := a.tb
		var del *Site
		for _, s := range a.RealEffects() {
			if s.Effect == "delete" {
				del = s
			}
		}
		ok := del != nil && del.Args[1].Op == "iterval" && del.Args[1].Args[0].Op == "find" && del.Args[1].Args[0].Args[0] == tb.constBytes("cnr")
		okDelta := false
		if ok {
			k := del.Args[1]
			n := tb.mk("toint", "", 0, tb.mk("slice", "", 0, k, tb.constInt(3), tb.binop(token.SUB, tb.mk("len", "", 0, k), tb.constInt(42), intType)))
			gap := tb.binop(token.SUB, fnParam(tb, fn, 1), n, intType)
			okDelta = a.holdsAt(del.In, -a.litLtC(gap, 5)) && !a.holdsAt(del.In, -a.litLtC(gap, 6))
			// every scanned key is examined: the scan ends only on exhaustion and an iteration
			// goes round the delete only with epoch − e ≤ 4 established (keys are ordered by the
			// little-endian bytes of the epoch, not by the epoch)
			okAll, whyAll := everyElement(a, del, func(st *CNF) bool { return a.holdsAt(st, a.litLtC(gap, 5)) })
			cx.decide(okAll, "cleanup", "container.cleanupContainers/every-key", "every scanned estimation older than 4 epochs is removed by the tick", "the global cleanup does not examine every scanned estimation: "+whyAll+"; an outdated estimation can survive the tick that should remove it", del.Where(w))
		}
		cx.decide(ok && okDelta, "cleanup", "container.cleanupContainers", "removes exactly the scanned estimations with epoch − e > 4, e decoded from key[3 : len−32−10]", "the global cleanup does not remove exactly the estimations older than 4 epochs (or decodes the epoch from other bytes than the putter wrote)", w.pos(fn.Pos()))
	}
	// iterate/get estimations
	if m := cx.method("container", "IterateContainerSizes"); m != nil {
		a := cx.run(m)
		tb := a.tb
		ok := false
		for _, ex := range a.Exits() {
			for _, r := range ex.Results {
				if r.Op == "find" && r.Args[0] == tb.cat(tb.constBytes("cnr"), tb.mk("varint", "", 0, paramTerm(tb, m, "epoch")), paramTerm(tb, m, "cid")) && a.holdsAt(ex.State, a.litEqC(a.litLen(paramTerm(tb, m, "cid")), 32)) {
					ok = true
				}
			}
		}
		cx.decide(ok, "put-get-key", "container.IterateContainerSizes", "scans 'cnr'‖bytes(epoch)‖cid(32)", "IterateContainerSizes does not scan the keys PutContainerSize writes for (epoch, cid)", w.pos(m.Fn.Pos()))
		// "readable back exactly as stored": an estimation reader refuses only a malformed id — no fault of it is
		// decided on what the registry holds (an estimation stays readable after its container was deleted)
		onState := func(ct *Term) bool {
			return ct.contains(func(x *Term) bool { return x.Op == "read" || x.Op == "ret" || x.Op == "find" || x.Op == "iterval" })
		}
		nRd, _ := panicOnlyIfCond(a, m.Fn, onState, nil)
		cx.decide(nRd == 0, "put-get-key", "container.IterateContainerSizes/refuses-only-malformed", "no fault is decided on stored state", "IterateContainerSizes can fault on what the storage holds (the container is gone, a record is absent): estimations that were accepted and stored cannot be read back", w.pos(m.Fn.Pos()))
	}
	if m := cx.method("container", "GetContainerSize"); m != nil {
		a := cx.run(m)
		tb := a.tb
		id := paramTerm(tb, m, "id")
		okB := true
		for _, ex := range a.Exits() {
			// accepts every id ListContainerSizes can return: 'cnr' ‖ bytes(epoch) (≥ 0 bytes) ‖ cid(32)
			if !a.holdsAt(ex.State, -a.litLtC(a.litLen(id), 35)) || a.holdsAt(ex.State, -a.litLtC(a.litLen(id), 36)) {
				okB = false
			}
		}
		okF := false
		for _, s := range a.Sites(func(s *Site) bool { return s.Callee == "storage.Find" }) {
			if s.Args[1] == id {
				okF = true
			}
		}
		cx.decide(okB && okF, "put-get-key", "container.GetContainerSize", "accepts exactly ids of length ≥ len('cnr') + 32 and scans the id", "GetContainerSize rejects an id ListContainerSizes returns (or accepts a shorter one): the shortest id is 'cnr'‖cid, 35 bytes, for epoch 0 whose encoding is empty", w.pos(m.Fn.Pos()))
	}
	if m := cx.method("container", "ListContainerSizes"); m != nil {
		a := cx.run(m)
		ok := false
		for _, s := range a.Sites(func(s *Site) bool { return s.Callee == "storage.Find" }) {
			if keyFamily(s.Args[1]) == "cnr" {
				ok = true
			}
		}
		cx.decide(ok, "put-get-key", "container.ListContainerSizes", "scans the estimation family", "ListContainerSizes does not scan the estimation family", w.pos(m.Fn.Pos()))
	}
	// neofsid
	if am, rm, km := cx.method("neofsid", "AddKey"), cx.method("neofsid", "RemoveKey"), cx.method("neofsid", "Key"); am != nil && rm != nil && km != nil {
		aa, ra, ka := cx.run(am), cx.run(rm), cx.run(km)
		keyOf := func(a *Analysis, m *Method) *Term {
			tb := a.tb
			return tb.cat(tb.constBytes("o"), paramTerm(tb, m, "owner"), tb.mk("elem", "", 0, paramTerm(tb, m, "keys")))
		}
		ok := true
		strip := func(a *Analysis, t *Term) *Term { return a.generalize(t) }
		var put, del *Site
		for _, s := range aa.RealEffects() {
			if s.Effect == "put" {
				put = s
			}
		}
		for _, s := range ra.RealEffects() {
			if s.Effect == "delete" {
				del = s
			}
		}
		if put == nil || del == nil {
			ok = false
		} else {
			ok = strip(aa, put.Args[1]) == keyOf(aa, am) && strip(ra, del.Args[1]) == keyOf(ra, rm) &&
				aa.holdsAt(put.In, aa.litEqC(aa.litLen(paramTerm(aa.tb, am, "owner")), 25)) && ra.holdsAt(del.In, ra.litEqC(ra.litLen(paramTerm(ra.tb, rm, "owner")), 25))
		}
		okK := false
		for _, s := range ka.Sites(func(s *Site) bool { return s.Callee == "storage.Find" }) {
			tb := ka.tb
			if s.Args[1] == tb.cat(tb.constBytes("o"), paramTerm(tb, km, "owner")) && ka.holdsAt(s.In, ka.litEqC(ka.litLen(paramTerm(tb, km, "owner")), 25)) {
				if fl, isC := s.Args[2].IntConst(); isC && fl == (1|2) {
					okK = true
				}
			}
		}
		if put != nil && del != nil {
			okE, why := everyElement(aa, put, nil)
			cx.decide(okE, "every-key", "neofsid.AddKey", "every submitted key is bound", "AddKey does not bind every submitted key: "+why, put.Where(w))
			// an iteration may go round the delete only when the record is established absent
			okE, why = everyElement(ra, del, func(st *CNF) bool {
				for _, f := range ra.unitFactsRaw(st) {
					if f.kind == KNil && f.pos && f.A.Op == "read" && len(f.A.Args) > 0 && f.A.Args[0] == del.Args[1] {
						return true // the record was just read absent under the very key that would be deleted
					}
				}
				return false
			})
			cx.decide(okE, "every-key", "neofsid.RemoveKey", "every submitted key is unbound", "RemoveKey does not unbind every submitted key (key(owner) keeps returning removed keys): "+why, del.Where(w))
		}
		cx.decide(ok && okK, "put-get-key", "neofsid.AddKey|RemoveKey|Key", "'o'‖owner(25)‖key for add/remove, Key scans 'o'‖owner(25) returning the key part", "neofsid add/remove/key do not agree on the key 'o'‖owner(25)‖public key", w.pos(am.Fn.Pos()))
	}
	// configuration maps
	checkNetmapSetConfigAlways(cx, "config-set")
	for _, cn := range []string{"netmap", "neofs"} {
		sm, gm, lm := cx.method(cn, "SetConfig"), cx.method(cn, "Config"), cx.method(cn, "ListConfig")
		if sm == nil || gm == nil || lm == nil {
			continue
		}
		sa, ga, la := cx.run(sm), cx.run(gm), cx.run(lm)
		var put *Site
		for _, s := range sa.RealEffects() {
			if s.Effect == "put" && keyFamily(s.Args[1]) == "config" {
				put = s
			}
		}
		ok := put != nil && put.Args[1] == sa.tb.cat(sa.tb.constBytes("config"), paramTerm(sa.tb, sm, "key")) && put.Args[2] == paramTerm(sa.tb, sm, "val")
		okG := false
		for _, ex := range ga.Exits() {
			for _, r := range ex.Results {
				if r.Op == "read" && r.Args[0] == ga.tb.cat(ga.tb.constBytes("config"), paramTerm(ga.tb, gm, "key")) {
					okG = true
				}
			}
		}
		okL := false
		for _, s := range la.Sites(func(s *Site) bool { return s.Callee == "storage.Find" }) {
			if p, isC := s.Args[1].BytesConst(); isC && p == "config" {
				okL = true
			}
		}
		cx.decide(ok && okG && okL, "put-get-key", cn+".SetConfig|Config|ListConfig", "'config'‖key → value; Config reads the same key; ListConfig scans 'config'", cn+": setConfig/config/listConfig do not agree on the key 'config'‖key", w.pos(sm.Fn.Pos()))
	}
}

// checkNetmapSetConfigAlways: every normal return of netmap.SetConfig has stored
// the submitted value under 'config'‖key (no value — in particular not the
// empty string that encodes 0 — is silently dropped). Shared by C20 (the
// configuration map returns what was put) and C05 (the fee charged is the fee
// configured at that moment).
func checkNetmapSetConfigAlways(cx *CheckCtx, rule string) {
	m := cx.method("netmap", "SetConfig")
	if m == nil {
		return
	}
	a := cx.run(m)
	var put *Site
	for _, s := range a.RealEffects() {
		if s.Effect == "put" && keyFamily(s.Args[1]) == "config" {
			put = s
		}
	}
	ok := put != nil && put.Args[1] == a.tb.cat(a.tb.constBytes("config"), paramTerm(a.tb, m, "key")) && put.Args[2] == paramTerm(a.tb, m, "val") && len(a.Exits()) > 0
	where := cx.W.pos(m.Fn.Pos())
	if ok {
		for _, ex := range a.Exits() {
			if !a.holdsAt(ex.State, a.eLit(put)) {
				ok = false
				where = exitPos(cx.W, ex)
			}
		}
	}
	cx.decide(ok, rule, "netmap.SetConfig/always", "every normal return has stored 'config'‖key → val", "netmap.SetConfig can return normally without storing the submitted value (for example the empty string that encodes 0): the previous setting silently stays in force", where)
}

// containerIsStorageNodeFn: the membership predicate of PutContainerSize — the
// one bool-valued helper of the container contract that calls another contract itself.
func containerIsStorageNodeFn(cx *CheckCtx) *ssa.Function {
	return cx.locate(cnrPkg, "isStorageNode", "returns a bool and calls snapshot of another contract itself", func(f *ssa.Function) bool {
		r := f.Signature.Results()
		if r.Len() != 1 || !types.Identical(r.At(0).Type().Underlying(), types.Typ[types.Bool]) {
			return false
		}
		return callsWithConstArg(f, "contract.Call", 1, "snapshot")
	})
}

// executedAtEveryExit: every normal exit of the analysis has executed each of the sites.
func executedAtEveryExit(a *Analysis, sites ...*Site) bool {
	if len(a.Exits()) == 0 {
		return false
	}
	for _, ex := range a.Exits() {
		for _, s := range sites {
			if s == nil || !a.holdsAt(ex.State, a.eLit(s)) {
				return false
			}
		}
	}
	return true
}

// checkCollectEvery: the list getters of the exact stores return *every* item
// of their scan. In the getter and in the same-package helpers it calls, a
// loop driven by iterator.Next that accumulates (append, map insert) does so
// in every iteration: the accumulating block dominates every way round the
// loop. A filter added to such a loop (length of the rest of the key, a type
// test, …) silently drops stored values from the answer.
func checkCollectEvery(cx *CheckCtx) {
	checkCollectEveryIn(cx, map[string][]string{
		"reputation": {"Get", "GetByID", "ListByEpoch"},
		"audit":      {"Get", "List", "ListByEpoch", "ListByCID", "ListByNode"},
		"neofsid":    {"Key"},
		"container":  {"GetContainerSize", "ListContainerSizes"},
	}, 4)
}

func checkCollectEveryIn(cx *CheckCtx, roots map[string][]string, floor int) {
	w := cx.W
	var cns []string
	for cn := range roots {
		cns = append(cns, cn)
	}
	sort.Strings(cns)
	n := 0
	for _, cn := range cns {
		seen := map[*ssa.Function]bool{}
		var work []*ssa.Function
		for _, name := range roots[cn] {
			if m := cx.method(cn, name); m != nil {
				work = append(work, m.Fn)
			}
		}
		for len(work) > 0 {
			fn := work[0]
			work = work[1:]
			if seen[fn] || fn.Blocks == nil {
				continue
			}
			seen[fn] = true
			for _, b := range fn.Blocks {
				for _, ins := range b.Instrs {
					if c, ok := ins.(ssa.CallInstruction); ok {
						if cal := c.Common().StaticCallee(); cal != nil && cal.Pkg == fn.Pkg && len(seen) < 40 {
							work = append(work, cal)
						}
					}
				}
			}
			// loops whose test is iterator.Next
			for _, hdr := range fn.Blocks {
				ifi, isIf := hdr.Instrs[len(hdr.Instrs)-1].(*ssa.If)
				if !isIf {
					continue
				}
				c, isCall := ifi.Cond.(*ssa.Call)
				if !isCall {
					continue
				}
				if cal := c.Common().StaticCallee(); cal == nil || fq(cal) != "iterator.Next" {
					continue
				}
				var back []*ssa.BasicBlock
				for _, p := range hdr.Preds {
					if hdr.Dominates(p) {
						back = append(back, p)
					}
				}
				if len(back) == 0 {
					continue
				}
				in := loopBlocks(hdr)
				var acc []*ssa.BasicBlock
				for blk := range in {
					for _, ins := range blk.Instrs {
						switch x := ins.(type) {
						case *ssa.MapUpdate:
							acc = append(acc, blk)
						case *ssa.Call:
							// an append that carries the answer round the loop: its base is a value of the loop
							// header (the accumulator) or a cell outside the loop — not the construction of a key
							// from a constant prefix inside one iteration
							// (an accumulating helper: result = add(result, item) with the loop-carried answer as first
							// argument and the call's value going back into that phi)
							if cal := x.Common().StaticCallee(); cal != nil && cal.Pkg == fn.Pkg && len(x.Common().Args) >= 2 {
								if ph, isPhi := stripConv(x.Common().Args[0]).(*ssa.Phi); isPhi && in[ph.Block()] {
									for _, e := range ph.Edges {
										if stripConv(e) == ssa.Value(x) {
											acc = append(acc, blk)
										}
									}
								}
							}
							if base, _, isApp := appendOf(x); isApp {
								carried := false
								switch bv := base.(type) {
								case *ssa.Phi:
									carried = in[bv.Block()]
								case *ssa.UnOp:
									carried = true // a load of a cell (captured or spilled accumulator)
								case *ssa.Parameter, *ssa.FreeVar:
									carried = true
								}
								if carried {
									acc = append(acc, blk)
								}
							}
						}
					}
				}
				if len(acc) == 0 {
					continue // not a collecting loop
				}
				ok := false
				for _, ab := range acc {
					every := true
					for _, p := range back {
						if !ab.Dominates(p) {
							every = false
						}
					}
					if every {
						ok = true
					}
				}
				if !ok {
					// a set: the item is skipped only when it is already in the map the loop fills (the
					// membership question is asked about the same map and the same key that is inserted)
					for blk := range in {
						for _, ins := range blk.Instrs {
							mu, isMU := ins.(*ssa.MapUpdate)
							if !isMU {
								continue
							}
							for q := range in {
								for _, qi := range q.Instrs {
									switch x := qi.(type) {
									case *ssa.Lookup:
										if x.X == mu.Map && x.Index == mu.Key && x.CommaOk {
											ok = true
										}
									case *ssa.Call:
										hasMap, hasKey := false, false
										for _, a := range x.Common().Args {
											if mi, isMI := a.(*ssa.MakeInterface); isMI {
												a = mi.X
											}
											if a == mu.Map {
												hasMap = true
											}
											if a == mu.Key {
												hasKey = true
											}
										}
										if hasMap && hasKey {
											ok = true
										}
									}
								}
							}
						}
					}
				}
				n++
				cx.decide(ok, "collect-every", cn+"."+fn.Name()+"@"+blockPos(w, hdr), "every item of the scan is collected (a set: unless it is already in)", cn+"."+fn.Name()+" collects the items of its scan only in some iterations: stored values that the filter does not let through are missing from the answer although they were accepted and stored", blockPos(w, hdr))
			}
		}
	}
	cx.count("collecting_loops", n)
	cx.floor("collecting_loops", floor)
}
