package main

// C13 — committee-run deployment: structural necessary conditions (DESIGN §5 C13, §3.6).

import (
	"fmt"
	"go/ast"
	"go/constant"
	"go/importer"
	"go/parser"
	"go/token"
	"go/types"
	"sort"
	"strings"

	"golang.org/x/tools/go/packages"
	"golang.org/x/tools/go/ssa"
)

func init() {
	register(&Check{
		ID:        "C13",
		Level:     "other",
		Technique: "AST/type-based lints written for deploy/ (index-space consistency of re-sliced ranges, map iteration order reaching a witness script, codec field tables, name constants) and SSA dominance rules (single-deployer guards, stage order, cache invalidation on reset); each zero-expected rule carries a positive control that must fire on every run",
		Explanation: "Decides structural necessary conditions only. D1 index-space consistency: the key of a range over a re-sliced slice S[k:], k ≠ 0, is never used bare as an index into S nor passed as a committee index. D2 no map iteration order reaches a transaction witness: nothing is written into (an alias of) an InvocationScript inside a range over a map. " +
			"D3 single deployer: every tryDeploy/tryTransfer flag is computed as 'local committee index == 0' (or '== loop index' for the per-member Alphabet contracts), every deploying/funding submission is dominated by the true side of its flag, the committee is sorted before the local index is computed, the NNS stage dominates the Notary stage and every contract synchronisation. " +
			"D4 restartability: package deploy imports nothing that can persist process-external progress (decisions can only come from the chain). D5 codec layout: encoder and decoder of the shared transaction data agree on (field, offset, width, byte order) and on the total length; both checksum helpers hash the same bytes and use the same prefix length. " +
			"D6 names: the domain names used by the deployment equal rpc/nns names and the names the contracts resolve; the TLD constant is equal in common, rpc/nns and deploy. D7 cache invalidation: a closure that invalidates the shared transaction (stores nil into it) also clears every captured collection whose entries were validated against that transaction. D8 Transaction.Nonce/ValidUntilBlock depend on a chain height only through h/c or h − h%c (SSA taint). D9 stated constant: the typed constant a call is made with agrees with the one its error wrap names (positive control embedded). D10 a local that starts at a negative sentinel and is branched on is assigned somewhere (frozen-sentinel, positive control embedded). " +
			"D11 nil-error-use: on the side where an error was just found nil it is not wrapped, logged, asked for its text or returned (positive control embedded). D12 sentinel-test: the first rejecting ordering test of a 'position of the match or -1' local keeps every position >= 0 on one side (member 0, signer 0 are not thrown out with the sentinel; positive control embedded). D13 index-on-equal: a search loop with an Equal test hands out its index on the equal side. D14 pending-guard: at every test of the monitor's in-flight query (found as the func() bool method answering with the Load of an atomic.Bool field of its receiver) no submission is reachable only through the 'still pending' side. D15 shared-match: the bool predicate over (shared transaction data, transaction) answers true only where every field of the shared data compared equal. D16 signature-verified: a byte string stored into a map and handed to a Verify* method, or produced by an (ok, rest) splitter, is stored only on the side where the verification / ok answered true. D17 collection-tolerant: in the signature-collection loop the failure side of a per-member error test always goes on with the next member. D18 divide-indices: a share-out helper calling f(index, amount) from two counting loops passes adjacent index ranges. D19 fixed-width-result: a function returning interop.Hash160/Hash256/PublicKey does not return convert.ToBytes(…) as it is. R9: the gates of the committee methods of NNS the procedure calls (Update, RegisterTLD; gate rule shared with C03) are decided here as well. R10: and the gate of netmap.SubscribeForNewEpoch, which Balance and Container call at deployment. D20 nil-side-use: a pointer, map, function or interface just found nil is not dereferenced, called or written through on that side (SSA, positive control built on every run). D21 submission-tracked: in a function with an in-flight monitor, validUntilBlock and every transaction id a submission answers with are handed to one tracker call. D22 package-state: no package-level variable of deploy is written, written through or handed out by address in a function body (sentinel errors are only loaded). D23 found-flag: the boolean that chooses between two submissions and is set true inside the innermost succeeded lookup is not left false anywhere inside it. D24 pending-released: every path of the goroutine the tracker starts releases the in-flight flag.",
		NotCovered: "termination and convergence under all schedules and crash points, the n-member end-to-end run, divideFundsEvenly and the nonce/validity-window helper as functions of run-time integers: these need execution or model checking and are declared not applicable to this family (the property's suggested verif hook is therefore not used). Observed, not armed: distributeNEOToAlphabetContracts submits without an isPending guard; the leader tick guards the designation send with registerDomainTxMonitor and never resets triedDesignateRoleTx.",
		Run:        runC13,
	})
}

// ---------- positive controls ----------

const controlSrc = `package ctl
type W struct{ InvocationScript []byte }
type T struct{ Scripts []W }
func dom(memberIndex int) string { return "" }
func f(committee []int, m map[int][]byte, tx *T) {
	for i := range committee[1:] {
		_ = dom(i)
		_ = committee[i]
	}
	buf := tx.Scripts[1].InvocationScript[2:]
	for _, sig := range m {
		buf = buf[copy(buf, sig):]
	}
	n := 0
	for _, sig := range m {
		n += len(sig)
	}
	for i := range committee[1:] {
		_ = committee[i+1]
	}
}
func h(xs []int) int {
	a := -1
	b := -1
	for i := range xs {
		switch xs[i] {
		case 1:
			a = i
		case 2:
			a = i
		}
	}
	if a < 0 && b < 0 {
		return 0
	}
	return a + b
}
func s(xs []int) int {
	p := -1
	q := -1
	for i := range xs {
		if xs[i] == 1 {
			p = i
		}
		if xs[i] == 2 {
			q = i
		}
	}
	if p <= 0 {
		return 0
	}
	if q < 0 {
		return 0
	}
	return p + q
}
func mayFail() error { return nil }
func k() error {
	err := mayFail()
	if err != nil {
		return fmt.Errorf("a: %w", err)
	}
	err = mayFail()
	if !(err != nil) {
		return fmt.Errorf("b: %w", err)
	}
	err = mayFail()
	if err == nil {
		return err
	}
	return nil
}
type Role int
const (
	RA Role = 1
	RB Role = 2
)
type fmtT struct{}
func (fmtT) Errorf(f string, a ...interface{}) error { return nil }
var fmt fmtT
func chk(r Role) (bool, error) { return false, nil }
func g() error {
	_, err := chk(RA)
	if err != nil {
		return fmt.Errorf("%v: %w", RA, err)
	}
	_, err = chk(RA)
	if err != nil {
		return fmt.Errorf("%v: %w", RB, err)
	}
	return nil
}
`

type astPkg struct {
	fset  *token.FileSet
	files []*ast.File
	info  *types.Info
	rel   func(token.Pos) string
}

func controlPkg() (*astPkg, error) {
	fset := token.NewFileSet()
	f, err := parser.ParseFile(fset, "control.go", controlSrc, 0)
	if err != nil {
		return nil, err
	}
	info := &types.Info{Types: map[ast.Expr]types.TypeAndValue{}, Defs: map[*ast.Ident]types.Object{}, Uses: map[*ast.Ident]types.Object{}}
	conf := types.Config{Importer: importer.Default()}
	if _, err := conf.Check("ctl", fset, []*ast.File{f}, info); err != nil {
		return nil, err
	}
	return &astPkg{fset: fset, files: []*ast.File{f}, info: info, rel: func(p token.Pos) string { return fset.Position(p).String() }}, nil
}

// ---------- D1 ----------

type finding struct {
	pos  token.Pos
	fn   string
	what string
}

func enclosingFuncs(files []*ast.File) map[ast.Node]string {
	out := map[ast.Node]string{}
	for _, f := range files {
		for _, d := range f.Decls {
			if fd, ok := d.(*ast.FuncDecl); ok {
				name := fd.Name.Name
				ast.Inspect(fd, func(n ast.Node) bool {
					if n != nil {
						out[n] = name
					}
					return true
				})
			}
		}
	}
	return out
}

// indexParams: parameters that are indexes into the committee (by declared name).
func isIndexParam(name string) bool {
	l := strings.ToLower(name)
	return strings.Contains(l, "memberindex") || strings.Contains(l, "committeeindex")
}

func ruleIndexSpace(p *astPkg) []finding {
	var out []finding
	encl := enclosingFuncs(p.files)
	for _, f := range p.files {
		ast.Inspect(f, func(n ast.Node) bool {
			rs, ok := n.(*ast.RangeStmt)
			if !ok {
				return true
			}
			se, ok := rs.X.(*ast.SliceExpr)
			if !ok || se.Low == nil {
				return true
			}
			if tv, ok := p.info.Types[se.Low]; ok && tv.Value != nil {
				if v, exact := constant.Int64Val(tv.Value); exact && v == 0 {
					return true
				}
			}
			key, _ := rs.Key.(*ast.Ident)
			if key == nil || key.Name == "_" {
				return true
			}
			kobj := p.info.Defs[key]
			base := types.ExprString(se.X)
			ast.Inspect(rs.Body, func(m ast.Node) bool {
				switch y := m.(type) {
				case *ast.IndexExpr:
					if id, ok := y.Index.(*ast.Ident); ok && p.info.Uses[id] == kobj && types.ExprString(y.X) == base {
						out = append(out, finding{y.Pos(), encl[rs], fmt.Sprintf("the key of 'range %s[%s:]' is used bare as an index into %s (it is an index into the re-sliced slice: element %s[%s] of the loop is %s[%s+%s])", base, types.ExprString(se.Low), base, base, key.Name, base, key.Name, types.ExprString(se.Low))})
					}
				case *ast.CallExpr:
					sig, _ := p.info.Types[y.Fun].Type.(*types.Signature)
					if sig == nil {
						return true
					}
					for i, a := range y.Args {
						id, ok := a.(*ast.Ident)
						if !ok || p.info.Uses[id] != kobj || i >= sig.Params().Len() {
							continue
						}
						if isIndexParam(sig.Params().At(i).Name()) {
							out = append(out, finding{y.Pos(), encl[rs], fmt.Sprintf("the key of 'range %s[%s:]' is passed bare as committee index parameter %q of %s", base, types.ExprString(se.Low), sig.Params().At(i).Name(), types.ExprString(y.Fun))})
						}
					}
				}
				return true
			})
			return true
		})
	}
	return out
}

// ---------- D2 ----------

func ruleMapOrderWitness(p *astPkg) []finding {
	var out []finding
	encl := enclosingFuncs(p.files)
	for _, f := range p.files {
		for _, d := range f.Decls {
			fd, ok := d.(*ast.FuncDecl)
			if !ok || fd.Body == nil {
				continue
			}
			// aliases of an InvocationScript within this function (flow-insensitive, transitive)
			alias := map[types.Object]bool{}
			mentions := func(e ast.Expr) bool {
				found := false
				ast.Inspect(e, func(n ast.Node) bool {
					switch x := n.(type) {
					case *ast.SelectorExpr:
						if x.Sel.Name == "InvocationScript" {
							found = true
						}
					case *ast.Ident:
						if o := p.info.Uses[x]; o != nil && alias[o] {
							found = true
						}
					}
					return true
				})
				return found
			}
			for changed := true; changed; {
				changed = false
				ast.Inspect(fd.Body, func(n ast.Node) bool {
					as, ok := n.(*ast.AssignStmt)
					if !ok {
						return true
					}
					for i, l := range as.Lhs {
						id, ok := l.(*ast.Ident)
						if !ok || i >= len(as.Rhs) && len(as.Rhs) != 1 {
							continue
						}
						r := as.Rhs[0]
						if len(as.Rhs) == len(as.Lhs) {
							r = as.Rhs[i]
						}
						obj := p.info.Defs[id]
						if obj == nil {
							obj = p.info.Uses[id]
						}
						if obj == nil || alias[obj] {
							continue
						}
						if _, isSlice := obj.Type().Underlying().(*types.Slice); !isSlice {
							continue
						}
						if mentions(r) {
							alias[obj] = true
							changed = true
						}
					}
					return true
				})
			}
			ast.Inspect(fd.Body, func(n ast.Node) bool {
				rs, ok := n.(*ast.RangeStmt)
				if !ok {
					return true
				}
				t := p.info.Types[rs.X].Type
				if t == nil {
					return true
				}
				if _, isMap := t.Underlying().(*types.Map); !isMap {
					return true
				}
				ast.Inspect(rs.Body, func(m ast.Node) bool {
					switch y := m.(type) {
					case *ast.CallExpr:
						if id, ok := y.Fun.(*ast.Ident); ok && (id.Name == "copy" || id.Name == "append") && len(y.Args) > 0 && mentions(y.Args[0]) {
							out = append(out, finding{y.Pos(), encl[rs], fmt.Sprintf("%s into (an alias of) a witness InvocationScript inside 'range %s' over a map: signatures are laid out in map iteration order, CHECKMULTISIG needs key order", id.Name, types.ExprString(rs.X))})
						}
					case *ast.AssignStmt:
						for _, l := range y.Lhs {
							if ie, ok := l.(*ast.IndexExpr); ok && mentions(ie.X) {
								out = append(out, finding{y.Pos(), encl[rs], fmt.Sprintf("store into (an alias of) a witness InvocationScript inside 'range %s' over a map", types.ExprString(rs.X))})
							}
						}
					}
					return true
				})
				return true
			})
		}
	}
	return out
}

// ---------- driver ----------

func runC13(cx *CheckCtx) {
	w := cx.W
	dp := w.ByPath[modPrefix+"deploy"]
	if dp == nil {
		cx.undecided("anchor", "deploy", "package deploy is gone", "")
		return
	}
	p := &astPkg{fset: w.Fset, files: dp.Syntax, info: dp.TypesInfo, rel: w.pos}
	// positive controls
	ctl, err := controlPkg()
	if err != nil {
		cx.undecided("engine", "control", "the positive-control source does not type-check: "+err.Error(), "")
	} else {
		c1, c2 := ruleIndexSpace(ctl), ruleMapOrderWitness(ctl)
		cx.decide(len(c1) == 2, "positive-control", "index-space", "the rule fires on the embedded example of the defect (2 uses) and not on the corrected loop", fmt.Sprintf("the index-space rule matched %d sites of its embedded positive example, expected 2: the rule is broken", len(c1)), "")
		n5, c5 := ruleNilErrorUse(ctl)
		cx.decide(n5 == 5 && len(c5) == 2, "positive-control", "nil-error-use", "the rule sees the five embedded error tests and fires on the two inverted ones", fmt.Sprintf("the nil-error-use rule matched %d tests / %d findings on its embedded example, expected 5 / 2: the rule is broken", n5, len(c5)), "")
		n4, c4 := ruleFrozenSentinel(ctl)
		n6, c6 := ruleSentinelTest(ctl)
		cx.decide(n6 == 3 && len(c6) == 1, "positive-control", "sentinel-test", "the rule sees the three embedded 'not found' tests and fires on the one that rejects position 0", fmt.Sprintf("the sentinel-test rule matched %d tests / %d findings on its embedded example, expected 3 / 1: the rule is broken", n6, len(c6)), "")
		cx.decide(n4 == 4 && len(c4) == 1, "positive-control", "frozen-sentinel", "the rule sees the embedded sentinels and fires on the one that is never assigned", fmt.Sprintf("the frozen-sentinel rule matched %d variables / %d findings on its embedded example, expected 2 / 1: the rule is broken", n4, len(c4)), "")
		n3, c3 := ruleStatedConstant(ctl)
		cx.decide(n3 == 2 && len(c3) == 1, "positive-control", "stated-constant", "the rule sees both embedded sites and fires on the contradictory one only", fmt.Sprintf("the stated-constant rule matched %d sites / %d findings on its embedded example, expected 2 / 1: the rule is broken", n3, len(c3)), "")
		cx.decide(len(c2) == 1, "positive-control", "map-order-witness", "the rule fires on the embedded example (and not on the order-insensitive sum)", fmt.Sprintf("the map-order rule matched %d sites of its embedded positive example, expected 1: the rule is broken", len(c2)), "")
	}
	// D1, D2 on the real package
	nRange := 0
	for _, f := range p.files {
		ast.Inspect(f, func(n ast.Node) bool {
			if _, ok := n.(*ast.RangeStmt); ok {
				nRange++
			}
			return true
		})
	}
	cx.count("range_statements", nRange)
	cx.floor("range_statements", 10)
	fs := ruleIndexSpace(p)
	for _, f := range fs {
		cx.violated("index-space", "deploy."+f.fn, f.what, w.pos(f.pos))
	}
	if len(fs) == 0 {
		cx.holds("index-space", "deploy", fmt.Sprintf("%d range statements inspected, no re-sliced range key used in the base index space", nRange))
	}
	fs = ruleMapOrderWitness(p)
	for _, f := range fs {
		cx.violated("map-order-witness", "deploy."+f.fn, f.what, w.pos(f.pos))
	}
	if len(fs) == 0 {
		cx.holds("map-order-witness", "deploy", "no write into a witness script inside a range over a map")
	}
	// D4 imports
	deny := []string{"os", "os/exec", "io/ioutil", "syscall", "net", "database/", "go.etcd.io/bbolt", "github.com/syndtr/goleveldb", "io/fs", "path/filepath"}
	var imps []string
	for ip := range dp.Imports {
		imps = append(imps, ip)
	}
	sort.Strings(imps)
	bad := ""
	for _, ip := range imps {
		for _, d := range deny {
			if ip == d || (strings.HasSuffix(d, "/") && strings.HasPrefix(ip, d)) || strings.HasPrefix(ip, d+"/") && d != "net" && d != "os" {
				bad = ip
			}
		}
	}
	cx.count("imports", len(imps))
	cx.decide(bad == "", "no-local-progress", "deploy/imports", fmt.Sprintf("%d imports, none can persist process-external state", len(imps)), "package deploy imports "+bad+": progress can be kept outside the chain, a restarted run may decide from stale local state", "deploy")
	// D5 codec
	checkCodec(cx, p)
	// D6 names
	checkNames(cx, dp)
	checkHashFromVarint(cx)
	// the procedure signs its NNS calls as the committee majority (and leaves its update loop only on the
	// "already updated" fault): the NNS contract must accept exactly that account for every committee size —
	// the documented gates of the committee methods of NNS (shared with C03/C11)
	for _, name := range []string{"Update", "RegisterTLD"} {
		if m := cx.method("nns", name); m != nil {
			gateRule(cx, m)
		}
	}
	// … and the Alphabet account the procedure signs deployments with is the one the contracts ask for when
	// they subscribe to the tick at deployment (netmap.SubscribeForNewEpoch is called from _deploy of Balance
	// and Container under the deploying transaction's witnesses)
	if m := cx.method("netmap", "SubscribeForNewEpoch"); m != nil {
		gateRule(cx, m)
	}
	// D3, D7 (SSA)
	sp := w.Prog.Package(dp.Types)
	if sp == nil {
		cx.undecided("anchor", "deploy/ssa", "no SSA for package deploy", "")
		return
	}
	checkSingleDeployer(cx, sp)
	checkStageOrder(cx, sp)
	checkCacheInvalidation(cx, sp)
	checkTxWindow(cx, sp)
	checkPendingGuards(cx, sp)
	checkIndexOnEqualSide(cx, sp)
	checkSharedMatch(cx, sp)
	checkVerifiedSignatures(cx, sp)
	checkDivideIndices(cx, sp)
	checkNilSideUse(cx, sp)
	checkSubmissionTracked(cx, sp)
	checkPackageState(cx, sp)
	checkFoundFlag(cx, sp)
	checkPendingReleased(cx, sp)
	// D12 the 'not found' test of a position-or-sentinel local keeps position 0 with the other positions
	nST, fst := ruleSentinelTest(p)
	cx.count("sentinel_tests", nST)
	cx.floor("sentinel_tests", 2)
	for _, f := range fst {
		cx.violated("sentinel-test", "deploy."+f.fn, f.what, w.pos(f.pos))
	}
	if len(fst) == 0 {
		cx.holds("sentinel-test", "deploy", fmt.Sprintf("%d 'not found' tests of position-or-sentinel locals: each keeps all positions on one side", nST))
	}
	// D11 an error value used on the branch where it was just found to be nil
	nErr, fnil := ruleNilErrorUse(p)
	cx.count("error_tests", nErr)
	cx.floor("error_tests", 100)
	for _, f := range fnil {
		cx.violated("nil-error-use", "deploy."+f.fn, f.what, w.pos(f.pos))
	}
	if len(fnil) == 0 {
		cx.holds("nil-error-use", "deploy", fmt.Sprintf("%d tests of an error against nil: none wraps, logs or returns the error on its nil side", nErr))
	}
	// D10 a local initialised to a constant sentinel, never assigned again, but branched on
	nSent, fsent := ruleFrozenSentinel(p)
	cx.count("sentinel_variables", nSent)
	for _, f := range fsent {
		cx.violated("frozen-sentinel", "deploy."+f.fn, f.what, w.pos(f.pos))
	}
	if len(fsent) == 0 {
		cx.holds("frozen-sentinel", "deploy", fmt.Sprintf("%d locals start at a negative sentinel and are branched on: each is assigned somewhere", nSent))
	}
	// D9 stated belief: the typed constant a call is made with is the one its error wrap names
	n, fsb := ruleStatedConstant(p)
	cx.count("stated_constant_sites", n) // no floor: an error text need not name its constant; the positive control keeps the rule alive
	for _, f := range fsb {
		cx.violated("stated-constant", "deploy."+f.fn, f.what, w.pos(f.pos))
	}
	if len(fsb) == 0 {
		cx.holds("stated-constant", "deploy", fmt.Sprintf("%d calls whose error wrap names a typed constant of the call: all agree", n))
	}
}

// ruleStatedConstant: `…, err := f(C, …); if err != nil { … fmt.Errorf(…, C', …) }` with C
// and C' constants of one defined (non-basic) type, e.g. a node role: the error
// text states which constant the call was meant for. C ≠ C' is a contradiction
// between the two (Engler's "stated belief"): one of them is a copy-paste slip.
// Returns the number of sites where both sides name such a constant.
func ruleStatedConstant(p *astPkg) (int, []finding) {
	encl := enclosingFuncs(p.files)
	var out []finding
	n := 0
	typedConsts := func(args []ast.Expr) map[string]map[string]ast.Expr {
		res := map[string]map[string]ast.Expr{}
		for _, e := range args {
			tv, ok := p.info.Types[e]
			if !ok || tv.Value == nil {
				continue
			}
			nt, ok := tv.Type.(*types.Named)
			if !ok {
				continue
			}
			k := nt.String()
			if res[k] == nil {
				res[k] = map[string]ast.Expr{}
			}
			res[k][tv.Value.ExactString()] = e
		}
		return res
	}
	for _, f := range p.files {
		ast.Inspect(f, func(nd ast.Node) bool {
			blk, ok := nd.(*ast.BlockStmt)
			if !ok {
				return true
			}
			for i := 0; i+1 < len(blk.List); i++ {
				as, ok := blk.List[i].(*ast.AssignStmt)
				if !ok || len(as.Rhs) != 1 {
					continue
				}
				call, ok := as.Rhs[0].(*ast.CallExpr)
				if !ok {
					continue
				}
				ifs, ok := blk.List[i+1].(*ast.IfStmt)
				if !ok {
					continue
				}
				be, ok := ifs.Cond.(*ast.BinaryExpr)
				if !ok || be.Op != token.NEQ || types.ExprString(be.X) != "err" {
					continue
				}
				in := typedConsts(call.Args)
				if len(in) == 0 {
					continue
				}
				ast.Inspect(ifs.Body, func(m ast.Node) bool {
					ec, ok := m.(*ast.CallExpr)
					if !ok || types.ExprString(ec.Fun) != "fmt.Errorf" {
						return true
					}
					st := typedConsts(ec.Args)
					for t, vals := range st {
						want, ok := in[t]
						if !ok {
							continue
						}
						n++
						for v, e := range vals {
							if _, same := want[v]; !same {
								var called []string
								for _, we := range want {
									called = append(called, types.ExprString(we))
								}
								sort.Strings(called)
								out = append(out, finding{call.Pos(), encl[nd], fmt.Sprintf("%s is called with %s but its error wrap names %s: the call was meant for the other constant (copy-paste slip); the result is computed for the wrong %s", types.ExprString(call.Fun), strings.Join(called, ", "), types.ExprString(e), t)})
							}
						}
					}
					return true
				})
			}
			return true
		})
	}
	return n, out
}

// ---------- D8 shared transaction window ----------

// checkTxWindow: committee members sign the same transaction only if they set
// the same Nonce and ValidUntilBlock while their heights fall into the same
// window. In every function that stores Transaction.ValidUntilBlock or
// Transaction.Nonce, the stored values and the conditions that select them may
// depend on a chain height (a uint32 obtained from a call) only through
// height / constant or height − height % constant — the window index or start. A raw height anywhere else makes two
// members of one window disagree for some height.
func checkTxWindow(cx *CheckCtx, sp *ssa.Package) {
	w := cx.W
	n := 0
	for _, fn := range allFuncs(sp) {
		if fn.Blocks == nil {
			continue
		}
		var stores []*ssa.Store
		for _, b := range fn.Blocks {
			for _, ins := range b.Instrs {
				st, ok := ins.(*ssa.Store)
				if !ok {
					continue
				}
				if fa, ok := st.Addr.(*ssa.FieldAddr); ok {
					if f := fieldName(fa.X.Type(), fa.Field); (f == "ValidUntilBlock" || f == "Nonce") && strings.HasSuffix(typeName(fa.X.Type()), "transaction.Transaction") {
						stores = append(stores, st)
					}
				}
			}
		}
		if len(stores) == 0 {
			continue
		}
		// taint: raw heights. A height is the uint32 result of a call made in fn; the
		// quotient by a constant is the window index and is clean; loads of the fields
		// stored here carry the taint of what was stored.
		taint := map[ssa.Value]bool{}
		var tainted func(v ssa.Value, seen map[ssa.Value]bool) bool
		tainted = func(v ssa.Value, seen map[ssa.Value]bool) bool {
			if seen[v] {
				return false
			}
			seen[v] = true
			switch x := v.(type) {
			case *ssa.Call:
				if b, ok := x.Type().Underlying().(*types.Basic); ok && b.Kind() == types.Uint32 {
					return true
				}
			case *ssa.BinOp:
				if x.Op == token.QUO {
					if _, isC := x.Y.(*ssa.Const); isC {
						return false
					}
				}
				if x.Op == token.SUB {
					// h − h % constant: the height rounded down to the window start
					if r, ok := x.Y.(*ssa.BinOp); ok && r.Op == token.REM && r.X == x.X {
						if _, isC := r.Y.(*ssa.Const); isC {
							return false
						}
					}
				}
				return tainted(x.X, seen) || tainted(x.Y, seen)
			case *ssa.Convert:
				return tainted(x.X, seen)
			case *ssa.ChangeType:
				return tainted(x.X, seen)
			case *ssa.Phi:
				for _, e := range x.Edges {
					if tainted(e, seen) {
						return true
					}
				}
			case *ssa.UnOp:
				if x.Op == token.MUL {
					// a load of a field written in fn: the taint of any value stored there
					if fa, ok := x.X.(*ssa.FieldAddr); ok {
						for _, st := range stores {
							if fa2 := st.Addr.(*ssa.FieldAddr); fa2.Field == fa.Field && fa2.X == fa.X && tainted(st.Val, seen) {
								return true
							}
						}
					}
					return false
				}
				return tainted(x.X, seen)
			}
			return false
		}
		_ = taint
		for _, st := range stores {
			n++
			f := fieldName(st.Addr.(*ssa.FieldAddr).X.Type(), st.Addr.(*ssa.FieldAddr).Field)
			key := "deploy." + fn.Name() + "/" + f
			bad := ""
			if tainted(st.Val, map[ssa.Value]bool{}) {
				bad = "the stored value depends on the raw height"
			}
			for _, b := range fn.Blocks {
				if i, ok := b.Instrs[len(b.Instrs)-1].(*ssa.If); ok && b.Dominates(st.Block()) && b != st.Block() {
					// only conditions that choose between different stores matter: the If has a side that avoids this store
					if !(blockReaches(b.Succs[0], st.Block(), nil) && blockReaches(b.Succs[1], st.Block(), nil)) && tainted(i.Cond, map[ssa.Value]bool{}) {
						bad = "the condition at " + blockPos(w, b) + " that selects the value depends on the raw height"
					}
				}
			}
			cx.decide(bad == "", "tx-window", key, "depends on the height only through height / constant (the window index)", "Transaction."+f+" is not a function of the height window alone: "+bad+"; two members whose heights fall into the same window build different transactions and their signatures never combine", w.pos(st.Pos()))
		}
	}
	cx.count("tx_window_stores", n)
	cx.floor("tx_window_stores", 2)
}

func typeName(t types.Type) string {
	if p, ok := t.Underlying().(*types.Pointer); ok {
		t = p.Elem()
	}
	return t.String()
}

// ---------- D5 codec ----------

type fieldSlot struct {
	field  string
	offset int64
	order  string
	width  int64
}

func checkCodec(cx *CheckCtx, p *astPkg) {
	w := cx.W
	constVal := func(e ast.Expr) (int64, bool) {
		if e == nil {
			return 0, true
		}
		if tv, ok := p.info.Types[e]; ok && tv.Value != nil {
			return constant.Int64Val(tv.Value)
		}
		return 0, false
	}
	var enc, dec []fieldSlot
	var encPos, decPos token.Pos
	recvName := ""
	selField := func(e ast.Expr) string {
		if se, ok := e.(*ast.SelectorExpr); ok {
			if id, ok := se.X.(*ast.Ident); ok && id.Name == recvName {
				return se.Sel.Name
			}
		}
		return ""
	}
	// the codec type: the one receiver type of the package with a method that lays fields
	// out with PutUint32 (the encoder) and a method that reads them back with Uint32 (the decoder)
	usesCall := func(fd *ast.FuncDecl, suffix string) bool {
		found := false
		ast.Inspect(fd.Body, func(n ast.Node) bool {
			if c, ok := n.(*ast.CallExpr); ok && strings.HasSuffix(types.ExprString(c.Fun), suffix) {
				found = true
			}
			return true
		})
		return found
	}
	sliceLow := func(e ast.Expr) (int64, int64, bool) { // low, high(-1 = open)
		switch x := e.(type) {
		case *ast.SliceExpr:
			lo, ok1 := constVal(x.Low)
			hi := int64(-1)
			ok2 := true
			if x.High != nil {
				hi, ok2 = constVal(x.High)
			}
			return lo, hi, ok1 && ok2
		case *ast.Ident:
			return 0, -1, true
		}
		return 0, 0, false
	}
	for _, f := range p.files {
		for _, d := range f.Decls {
			fd, ok := d.(*ast.FuncDecl)
			if !ok || fd.Recv == nil || fd.Body == nil {
				continue
			}
			if len(fd.Recv.List[0].Names) != 1 {
				continue
			}
			recvName = fd.Recv.List[0].Names[0].Name
			role := ""
			switch {
			case usesCall(fd, ".PutUint32"):
				role = "encode"
			case usesCall(fd, ".Uint32"):
				role = "decode"
			}
			switch role {
			case "encode":
				encPos = fd.Pos()
				ast.Inspect(fd.Body, func(n ast.Node) bool {
					c, ok := n.(*ast.CallExpr)
					if !ok {
						return true
					}
					fn := types.ExprString(c.Fun)
					switch {
					case fn == "copy" && len(c.Args) == 2:
						lo, _, ok := sliceLow(c.Args[0])
						fld := ""
						ast.Inspect(c.Args[1], func(m ast.Node) bool {
							if e, ok := m.(ast.Expr); ok && selField(e) != "" {
								fld = selField(e)
							}
							return true
						})
						order := "raw"
						if strings.Contains(types.ExprString(c.Args[1]), "BytesBE") {
							order = "BE"
						} else if strings.Contains(types.ExprString(c.Args[1]), "BytesLE") {
							order = "LE"
						}
						if ok && fld != "" {
							enc = append(enc, fieldSlot{fld, lo, order, 20})
						}
					case strings.HasSuffix(fn, ".PutUint32") && len(c.Args) == 2:
						lo, _, ok := sliceLow(c.Args[0])
						order := "BE"
						if strings.Contains(fn, "LittleEndian") {
							order = "LE"
						}
						if fld := selField(c.Args[1]); ok && fld != "" {
							enc = append(enc, fieldSlot{fld, lo, order, 4})
						}
					}
					return true
				})
			case "decode":
				decPos = fd.Pos()
				ast.Inspect(fd.Body, func(n ast.Node) bool {
					as, ok := n.(*ast.AssignStmt)
					if !ok || len(as.Rhs) != 1 {
						return true
					}
					fld := selField(as.Lhs[0])
					c, isCall := as.Rhs[0].(*ast.CallExpr)
					if fld == "" || !isCall || len(c.Args) != 1 {
						return true
					}
					fn := types.ExprString(c.Fun)
					lo, hi, ok := sliceLow(c.Args[0])
					if !ok {
						return true
					}
					switch {
					case strings.HasSuffix(fn, ".Uint32"):
						order := "BE"
						if strings.Contains(fn, "LittleEndian") {
							order = "LE"
						}
						dec = append(dec, fieldSlot{fld, lo, order, 4})
					case strings.Contains(fn, "Uint160DecodeBytes"):
						order := "BE"
						if strings.HasSuffix(fn, "LE") {
							order = "LE"
						}
						wd := int64(20)
						if hi >= 0 {
							wd = hi - lo
						}
						dec = append(dec, fieldSlot{fld, lo, order, wd})
					}
					return true
				})
			}
		}
	}
	key := func(s []fieldSlot) string {
		sort.Slice(s, func(i, j int) bool { return s[i].offset < s[j].offset })
		var ps []string
		for _, x := range s {
			ps = append(ps, fmt.Sprintf("%s@%d+%d/%s", x.field, x.offset, x.width, x.order))
		}
		return strings.Join(ps, " ")
	}
	ke, kd := key(enc), key(dec)
	total := int64(0)
	contiguous := true
	for _, x := range enc {
		if x.offset != total {
			contiguous = false
		}
		total += x.width
	}
	lenConst := int64(-1)
	if dp := cx.W.ByPath[modPrefix+"deploy"]; dp != nil {
		if c, ok := dp.Types.Scope().Lookup("sharedTransactionDataLen").(*types.Const); ok {
			lenConst, _ = constant.Int64Val(c.Val())
		}
	}
	cx.count("codec_fields", len(enc))
	cx.floor("codec_fields", 3)
	cx.decide(len(enc) >= 3 && ke == kd, "codec-layout", "deploy.sharedTransactionData/bytes|decodeString", "encoder and decoder agree: "+ke, "the encoder lays the shared transaction data out as ["+ke+"], the decoder reads ["+kd+"]: members reconstruct a different transaction than the leader signed", w.pos(decPos))
	cx.decide(contiguous && total == lenConst, "codec-layout", "deploy.sharedTransactionData/length", fmt.Sprintf("fields are contiguous and sum to sharedTransactionDataLen = %d", lenConst), fmt.Sprintf("the encoded fields cover %d bytes (contiguous=%v) while sharedTransactionDataLen is %d", total, contiguous, lenConst), w.pos(encPos))
	// checksum helpers
	var us, sh string
	var sigs []string
	for _, f := range p.files {
		for _, d := range f.Decls {
			fd, ok := d.(*ast.FuncDecl)
			if !ok || fd.Body == nil {
				continue
			}
			// a checksum helper: hashes something and keeps a constant-length prefix of that hash
			hashVars := map[types.Object]bool{}
			var sig []string
			ast.Inspect(fd.Body, func(n ast.Node) bool {
				switch x := n.(type) {
				case *ast.AssignStmt:
					if len(x.Lhs) == 1 && len(x.Rhs) == 1 {
						if c, ok := x.Rhs[0].(*ast.CallExpr); ok {
							fn := types.ExprString(c.Fun)
							if strings.HasPrefix(fn, "sha256.") || strings.HasPrefix(fn, "sha512.") || strings.Contains(fn, "md5") {
								if id, ok := x.Lhs[0].(*ast.Ident); ok {
									if o := p.info.ObjectOf(id); o != nil {
										hashVars[o] = true
									}
								}
							}
						}
					}
				}
				return true
			})
			ast.Inspect(fd.Body, func(n ast.Node) bool {
				switch x := n.(type) {
				case *ast.CallExpr:
					fn := types.ExprString(x.Fun)
					if strings.HasPrefix(fn, "sha256.") || strings.HasPrefix(fn, "sha512.") || strings.Contains(fn, "md5") {
						sig = append(sig, fn)
					}
				case *ast.SliceExpr:
					if id, ok := x.X.(*ast.Ident); ok && hashVars[p.info.ObjectOf(id)] {
						v, _ := constVal(x.High)
						sig = append(sig, fmt.Sprintf("hash[:%d]", v))
					}
				}
				return true
			})
			if len(hashVars) == 0 || len(sig) < 2 {
				continue
			}
			sort.Strings(sig)
			sigs = append(sigs, fd.Name.Name+": "+strings.Join(sig, ","))
			if us == "" {
				us = strings.Join(sig, ",")
			} else if sh == "" || sh == us {
				sh = strings.Join(sig, ",")
			}
		}
	}
	sort.Strings(sigs)
	cx.decide(len(sigs) >= 2 && us != "" && us == sh, "codec-layout", "deploy.sharedTransactionData/checksum", fmt.Sprintf("all %d checksum helpers use %s", len(sigs), us), "the checksum helpers disagree ("+strings.Join(sigs, "; ")+"): signatures published by members never match the leader's checksum", "deploy/notary.go")
}

// ---------- D6 names ----------

func strConst(p *packages.Package, name string) (string, bool) {
	if p == nil {
		return "", false
	}
	c, ok := p.Types.Scope().Lookup(name).(*types.Const)
	if !ok || c.Val().Kind() != constant.String {
		return "", false
	}
	return constant.StringVal(c.Val()), true
}

func checkNames(cx *CheckCtx, dp *packages.Package) {
	w := cx.W
	rp := w.ByPath[modPrefix+"rpc/nns"]
	cp := w.ByPath[modPrefix+"common"]
	pairs := [][2]string{{"domainAudit", "NameAudit"}, {"domainBalance", "NameBalance"}, {"domainContainer", "NameContainer"}, {"domainNeoFSID", "NameNeoFSID"},
		{"domainNetmap", "NameNetmap"}, {"domainProxy", "NameProxy"}, {"domainReputation", "NameReputation"}}
	n := 0
	for _, pr := range pairs {
		a, ok1 := strConst(dp, pr[0])
		b, ok2 := strConst(rp, pr[1])
		if !ok1 || !ok2 {
			cx.undecided("names", "deploy."+pr[0], "name constant "+pr[0]+" / rpc/nns."+pr[1]+" is gone", "")
			continue
		}
		n++
		_, isDir := w.Contracts[a]
		cx.decide(a == b && isDir, "names", "deploy."+pr[0], fmt.Sprintf("%q = rpc/nns.%s = a contract directory", a, pr[1]), fmt.Sprintf("deploy registers %q, rpc/nns names %q, contract directory exists: %v — readers resolve a name the deployment never registers", a, b, isDir), "deploy/nns.go")
	}
	cx.count("name_constants", n)
	cx.floor("name_constants", 7)
	tldD, ok1 := strConst(dp, "domainContractAddresses")
	tldC, ok2 := strConst(cp, "ContractTLD")
	tldR, ok3 := strConst(rp, "ContractTLD")
	cx.decide(ok1 && ok2 && ok3 && tldD == tldC && tldC == tldR, "names", "TLD", fmt.Sprintf("deploy %q = common %q = rpc/nns %q", tldD, tldC, tldR), fmt.Sprintf("the contract TLD differs: deploy %q, common %q, rpc/nns %q", tldD, tldC, tldR), "deploy/nns.go")
	af, ok4 := strConst(dp, "domainAlphabetFmt")
	ap, ok5 := strConst(rp, "NameAlphabetPrefix")
	cx.decide(ok4 && ok5 && af == ap+"%d", "names", "alphabet-prefix", fmt.Sprintf("%q = %q + index", af, ap), fmt.Sprintf("deploy names Alphabet contracts %q, rpc/nns expects prefix %q", af, ap), "deploy/nns.go")
	// names the contracts resolve when freshly deployed are registered names
	known := map[string]bool{"nns": true}
	for _, pr := range pairs {
		if a, ok := strConst(dp, pr[0]); ok {
			known[a] = true
		}
	}
	for _, cn := range w.CNames {
		c := w.Contracts[cn]
		if c.Deploy == nil {
			continue
		}
		for d, where := range freshDeployDeps(cx, c) {
			cx.decide(known[d], "names", "contracts/"+cn+"/resolves/"+d, "resolves a registered name", cn+" resolves the name "+d+" which the deployment never registers", where)
		}
	}
}

// ---------- D3 single deployer ----------

func isSubmissionType(t types.Type) bool {
	tup, ok := t.(*types.Tuple)
	if !ok || tup.Len() < 3 {
		return false
	}
	n := tup.Len()
	if tup.At(n-1).Type().String() != "error" {
		return false
	}
	if b, ok := tup.At(n - 2).Type().(*types.Basic); !ok || b.Kind() != types.Uint32 {
		return false
	}
	for i := 0; i < n-2; i++ {
		if tup.At(i).Type().String() != "github.com/nspcc-dev/neo-go/pkg/util.Uint256" {
			return false
		}
	}
	return true
}

func allFuncs(sp *ssa.Package) []*ssa.Function {
	var out []*ssa.Function
	var add func(f *ssa.Function)
	add = func(f *ssa.Function) {
		out = append(out, f)
		for _, an := range f.AnonFuncs {
			add(an)
		}
	}
	var names []string
	for n := range sp.Members {
		names = append(names, n)
	}
	sort.Strings(names)
	for _, n := range names {
		if f, ok := sp.Members[n].(*ssa.Function); ok {
			add(f)
		}
	}
	for _, n := range names {
		if t, ok := sp.Members[n].(*ssa.Type); ok {
			for _, ptr := range []bool{false, true} {
				var tt types.Type = t.Type()
				if ptr {
					tt = types.NewPointer(tt)
				}
				ms := sp.Prog.MethodSets.MethodSet(tt)
				for i := 0; i < ms.Len(); i++ {
					if f := sp.Prog.MethodValue(ms.At(i)); f != nil && f.Pkg == sp {
						dup := false
						for _, o := range out {
							if o == f {
								dup = true
							}
						}
						if !dup {
							add(f)
						}
					}
				}
			}
		}
	}
	return out
}

// flagLoad: v is (a load of) a struct field with the given name.
func flagField(v ssa.Value) string {
	v = stripConv(v)
	switch x := v.(type) {
	case *ssa.Field:
		return fieldName(x.X.Type(), x.Field)
	case *ssa.UnOp:
		if x.Op == token.MUL {
			if fa, ok := x.X.(*ssa.FieldAddr); ok {
				return fieldName(fa.X.Type(), fa.Field)
			}
		}
		if x.Op == token.NOT {
			return ""
		}
	}
	return ""
}

func checkSingleDeployer(cx *CheckCtx, sp *ssa.Package) {
	w := cx.W
	nStores, nGuards := 0, 0
	for _, fn := range allFuncs(sp) {
		if fn.Blocks == nil {
			continue
		}
		tb := newTermBuilder(w, fn)
		for _, b := range fn.Blocks {
			for _, ins := range b.Instrs {
				// stores into tryDeploy / tryTransfer
				if st, ok := ins.(*ssa.Store); ok {
					fa, isFA := st.Addr.(*ssa.FieldAddr)
					if !isFA {
						continue
					}
					fname := fieldName(fa.X.Type(), fa.Field)
					if fname != "tryDeploy" && fname != "tryTransfer" {
						continue
					}
					nStores++
					t := tb.Term(tb.root, st.Val)
					ok2 := false
					desc := t.pretty()
					if t.Op == "bin" && t.Name == "==" {
						x, y := t.Args[0], t.Args[1]
						isIdx := func(z *Term) bool {
							return z.Op == "phi" || z.Op == "param" || z.Op == "field" || z.Op == "load" || z.Op == "ret" || z.Op == "call" || z.Op == "icall"
						}
						if n, isC := y.IntConst(); isC && n == 0 && isIdx(x) {
							ok2 = true
						}
						if n, isC := x.IntConst(); isC && n == 0 && isIdx(y) {
							ok2 = true
						}
						if isIdx(x) && isIdx(y) {
							ok2 = true // per-member Alphabet contract: loop index == local index
						}
					}
					if (t.Op == "field" && (t.Name == "tryDeploy" || t.Name == "tryTransfer")) || (t.Op == "load") {
						ok2 = true // flag handed on unchanged
					}
					if t.Op == "param" {
						// a helper that receives the flag as a parameter: every caller in the package
						// must pass an accepted expression (one level)
						if pi := paramIndexOf(fn, st.Val); pi >= 0 {
							ok2 = true
							nCallers := 0
							for _, caller := range allFuncs(sp) {
								for _, cb := range caller.Blocks {
									for _, ci := range cb.Instrs {
										c, isC := ci.(*ssa.Call)
										if !isC || c.Common().StaticCallee() != fn || len(c.Common().Args) <= pi {
											continue
										}
										nCallers++
										ct := newTermBuilder(w, caller)
										at := ct.Term(ct.root, c.Common().Args[pi])
										good := at.Op == "field" && (at.Name == "tryDeploy" || at.Name == "tryTransfer") || at.Op == "load"
										if at.Op == "bin" && at.Name == "==" && len(at.Args) == 2 {
											if n, isC := at.Args[1].IntConst(); isC && n == 0 {
												good = true
											}
											if n, isC := at.Args[0].IntConst(); isC && n == 0 {
												good = true
											}
										}
										if !good {
											ok2 = false
											desc = "Param(" + fn.Params[pi].Name() + ") = " + at.pretty() + " at " + w.pos(c.Pos())
										}
									}
								}
							}
							if nCallers == 0 {
								ok2 = false
							}
						}
					}
					cx.decide(ok2, "single-deployer", fmt.Sprintf("deploy.%s/%s=", fn.Name(), fname), "computed as 'local committee index == 0' (or '== member index')", fmt.Sprintf("the %s flag is set to %s, not to 'local committee index == 0': several members (or none) deploy/fund, contracts are duplicated or never deployed", fname, desc), w.pos(st.Pos()))
				}
				// submissions
				call, ok := ins.(*ssa.Call)
				if !ok || !isSubmissionType(call.Type()) {
					continue
				}
				// which flag does this function have?
				flag := ""
				for _, p := range fn.Params {
					if st, ok := p.Type().Underlying().(*types.Struct); ok {
						for i := 0; i < st.NumFields(); i++ {
							if n := st.Field(i).Name(); n == "tryDeploy" || n == "tryTransfer" {
								flag = n
							}
						}
					}
				}
				if flag == "" {
					continue
				}
				callee := ""
				if c := call.Common().StaticCallee(); c != nil {
					callee = c.Name()
				} else if call.Common().Method != nil {
					callee = call.Common().Method.Name()
				}
				deploying := (flag == "tryDeploy" && strings.HasPrefix(callee, "Deploy")) || flag == "tryTransfer"
				if !deploying {
					continue
				}
				nGuards++
				guarded := flagGuards(fn, call.Block(), flag)
				if !guarded {
					// the submission may sit in a helper that is handed the parameters: then every call of the
					// helper is on the true side of the flag in its caller
					nCallers := 0
					allGuarded := true
					for _, cf := range allFuncs(sp) {
						if cf.Blocks == nil {
							continue
						}
						for _, cb := range cf.Blocks {
							for _, ci := range cb.Instrs {
								if cc, isC := ci.(ssa.CallInstruction); isC && cc.Common().StaticCallee() == fn {
									nCallers++
									if !flagGuards(cf, cb, flag) {
										allGuarded = false
									}
								}
							}
						}
					}
					guarded = nCallers > 0 && allGuarded
				}
				cx.decide(guarded, "single-deployer", fmt.Sprintf("deploy.%s/%s-guards-%s", fn.Name(), flag, callee), "the submission is dominated by the true side of "+flag, fmt.Sprintf("%s submits %s without being dominated by the true side of %s: every committee member sends it", fn.Name(), callee, flag), w.pos(call.Pos()))
			}
		}
	}
	cx.count("flag_stores", nStores)
	cx.count("guarded_submissions", nGuards)
	cx.floor("flag_stores", 5)
	cx.floor("guarded_submissions", 4)
}

func checkStageOrder(cx *CheckCtx, sp *ssa.Package) {
	w := cx.W
	fn := sp.Func("Deploy")
	if fn == nil {
		cx.undecided("anchor", "deploy.Deploy", "anchor function is gone", "")
		return
	}
	var sortCall, nnsCall ssa.Instruction
	var syncs []ssa.Instruction
	syncFn := mostCalledInPackage(fn, 8)
	var idxLoop *ssa.BasicBlock
	// searchesIndex: f holds a loop that compares members with Equal (the local index search)
	searchesIndex := func(f *ssa.Function) bool {
		for _, b := range f.Blocks {
			for _, ins := range b.Instrs {
				if c, ok := ins.(*ssa.Call); ok {
					if cal := c.Common().StaticCallee(); cal != nil && cal.Name() == "Equal" && innermostLoop(b) != nil {
						return true
					}
				}
			}
		}
		return false
	}
	for _, b := range fn.Blocks {
		for _, ins := range b.Instrs {
			c, ok := ins.(*ssa.Call)
			if !ok {
				continue
			}
			cal := c.Common().StaticCallee()
			if cal == nil {
				continue
			}
			switch {
			case strings.HasPrefix(cal.Name(), "SortFunc") || cal.Name() == "Sort":
				sortCall = c
			case cal == syncFn:
				syncs = append(syncs, c)
			case cal.Pkg == fn.Pkg && nnsCall == nil && firstResultIs(cal, "util.Uint160"):
				// the NNS stage: the only other stage of the package that yields a contract address
				nnsCall = c
			case cal.Name() == "Equal" && idxLoop == nil:
				idxLoop = innermostLoop(b)
			case idxLoop == nil && cal.Pkg == fn.Pkg && cal.Blocks != nil && searchesIndex(cal):
				idxLoop = b // the search extracted into a helper: its call site stands for the loop
			}
		}
	}
	dom := func(a, b ssa.Instruction) bool {
		if a == nil || b == nil {
			return false
		}
		if a.Block() == b.Block() {
			return instrIndex(a) < instrIndex(b)
		}
		return a.Block().Dominates(b.Block())
	}
	okSort := sortCall != nil && idxLoop != nil && (sortCall.Block().Dominates(idxLoop) || sortCall.Block() == idxLoop)
	cx.decide(okSort, "stage-order", "deploy.Deploy/sort-before-index", "the committee is sorted before the local index is searched", "the local committee index is computed on an unsorted committee: members disagree on who is the leader", w.pos(fn.Pos()))
	okN := nnsCall != nil && len(syncs) >= 8
	for _, s := range syncs {
		if !dom(nnsCall, s) {
			okN = false
		}
	}
	cx.count("sync_stages", len(syncs))
	cx.decide(okN, "stage-order", "deploy.Deploy/nns-first", fmt.Sprintf("the NNS stage dominates all %d contract synchronisations (the stages that can deploy)", len(syncs)), "the NNS stage does not come first: the first deployed contract would not get ID 1", w.pos(fn.Pos()))
}

// ---------- D7 cache invalidation ----------

// checkCacheInvalidation: in every function F of the package: for each
// captured pointer variable T and captured map M such that some closure of F
// updates M under a condition that depends on *T, every closure of F that
// stores nil into T also clears (or re-assigns) M.
func checkCacheInvalidation(cx *CheckCtx, sp *ssa.Package) {
	w := cx.W
	n := 0
	for _, fn := range allFuncs(sp) {
		if fn.Parent() != nil || len(fn.AnonFuncs) == 0 {
			continue
		}
		var closures []*ssa.Function
		var collect func(f *ssa.Function)
		collect = func(f *ssa.Function) {
			for _, a := range f.AnonFuncs {
				closures = append(closures, a)
				collect(a)
			}
		}
		collect(fn)
		// captured cells are Allocs of fn referenced as FreeVars; identify by name+type
		cellOf := func(v ssa.Value) string {
			switch x := v.(type) {
			case *ssa.FreeVar:
				return x.Name()
			case *ssa.Alloc:
				if x.Parent() == fn {
					return x.Comment
				}
			}
			return ""
		}
		// dependencies: map M updated under a condition depending on a load of cell T
		type dep struct{ m, t string }
		deps := map[dep]token.Pos{}
		for _, cl := range closures {
			for _, b := range cl.Blocks {
				for _, ins := range b.Instrs {
					mu, ok := ins.(*ssa.MapUpdate)
					if !ok {
						continue
					}
					ml, isLoad := mu.Map.(*ssa.UnOp)
					if !isLoad {
						continue
					}
					mcell := cellOf(ml.X)
					if mcell == "" {
						continue
					}
					// conditions dominating the update
					for _, gb := range cl.Blocks {
						ifi, isIf := gb.Instrs[len(gb.Instrs)-1].(*ssa.If)
						if !isIf || !(gb.Succs[0].Dominates(b) || gb.Succs[1].Dominates(b)) {
							continue
						}
						for _, tcell := range cellsFeeding(ifi.Cond, cellOf, 0, map[ssa.Value]bool{}) {
							if tcell != mcell {
								deps[dep{mcell, tcell}] = mu.Pos()
							}
						}
					}
				}
			}
		}
		if len(deps) == 0 {
			continue
		}
		for _, cl := range closures {
			nilStores := map[string]token.Pos{}
			cleared := map[string]bool{}
			for _, b := range cl.Blocks {
				for _, ins := range b.Instrs {
					switch x := ins.(type) {
					case *ssa.Store:
						c := cellOf(x.Addr)
						if c == "" {
							continue
						}
						if k, isC := x.Val.(*ssa.Const); isC && k.Value == nil {
							if _, isPtr := k.Type().Underlying().(*types.Pointer); isPtr {
								nilStores[c] = x.Pos()
							}
						}
						cleared[c] = true
					case *ssa.Call:
						if bi, ok := x.Common().Value.(*ssa.Builtin); ok && bi.Name() == "clear" && len(x.Common().Args) == 1 {
							if l, isLoad := x.Common().Args[0].(*ssa.UnOp); isLoad {
								if c := cellOf(l.X); c != "" {
									cleared[c] = true
								}
							}
						}
					}
				}
			}
			for d, where := range deps {
				pos, inval := nilStores[d.t]
				if !inval {
					continue
				}
				n++
				cx.decide(cleared[d.m], "cache-invalidation", fmt.Sprintf("deploy.%s/%s-depends-on-%s", fn.Name(), d.m, d.t), fmt.Sprintf("the closure that invalidates %s also clears %s", d.t, d.m),
					fmt.Sprintf("a closure of %s sets %s to nil without clearing %s, whose entries are accepted only after a check against %s (%s): entries validated against the old value are reused with the new one", fn.Name(), d.t, d.m, d.t, w.pos(where)), w.pos(pos))
			}
		}
	}
	cx.count("invalidation_sites", n)
	cx.floor("invalidation_sites", 1)
}

// cellsFeeding: captured cells whose loaded value flows (through operands) into v.
func cellsFeeding(v ssa.Value, cellOf func(ssa.Value) string, depth int, seen map[ssa.Value]bool) []string {
	if v == nil || seen[v] || depth > 12 {
		return nil
	}
	seen[v] = true
	var out []string
	if u, ok := v.(*ssa.UnOp); ok && u.Op == token.MUL {
		if c := cellOf(u.X); c != "" {
			out = append(out, c)
		}
		// a local copy *p stored into an alloc and passed by address: follow the alloc's stores
		if al, ok := u.X.(*ssa.Alloc); ok && al.Referrers() != nil {
			for _, r := range *al.Referrers() {
				if st, ok := r.(*ssa.Store); ok && st.Addr == al {
					out = append(out, cellsFeeding(st.Val, cellOf, depth+1, seen)...)
				}
			}
		}
	}
	if al, ok := v.(*ssa.Alloc); ok && al.Referrers() != nil {
		for _, r := range *al.Referrers() {
			if st, ok := r.(*ssa.Store); ok && st.Addr == al {
				out = append(out, cellsFeeding(st.Val, cellOf, depth+1, seen)...)
			}
		}
	}
	if ins, ok := v.(ssa.Instruction); ok {
		var ops []*ssa.Value
		for _, op := range ins.Operands(ops) {
			if op != nil && *op != nil {
				out = append(out, cellsFeeding(*op, cellOf, depth+1, seen)...)
			}
		}
	}
	return out
}

// firstResultIs: the first result of f has the named type (suffix match on the qualified name).
func firstResultIs(f *ssa.Function, suffix string) bool {
	r := f.Signature.Results()
	return r.Len() > 0 && strings.HasSuffix(r.At(0).Type().String(), suffix)
}

// paramIndexOf: v is (a conversion of) the i-th parameter of fn, else -1.
func paramIndexOf(fn *ssa.Function, v ssa.Value) int {
	v = stripConv(v)
	for i, p := range fn.Params {
		if ssa.Value(p) == v {
			return i
		}
	}
	return -1
}

// ruleFrozenSentinel: a local variable declared with a negative integer constant
// ("not found") that is compared or switched on later but never assigned again
// can only ever hold the sentinel: the branch on it is decided at compile time.
// Either the variable is dead or — the copy-paste case — the assignment meant
// for it went to a sibling variable. Returns the number of sentinel locals that
// are branched on, and the frozen ones.
func ruleFrozenSentinel(p *astPkg) (int, []finding) {
	encl := enclosingFuncs(p.files)
	type info struct {
		decl     *ast.Ident
		assigned bool
		branched bool
		node     ast.Node
	}
	vars := map[types.Object]*info{}
	var out []finding
	for _, f := range p.files {
		// declarations
		ast.Inspect(f, func(n ast.Node) bool {
			as, ok := n.(*ast.AssignStmt)
			if !ok || as.Tok != token.DEFINE || len(as.Lhs) != len(as.Rhs) {
				return true
			}
			for i, l := range as.Lhs {
				id, ok := l.(*ast.Ident)
				if !ok {
					continue
				}
				tv, ok := p.info.Types[as.Rhs[i]]
				if !ok || tv.Value == nil || tv.Value.Kind() != constant.Int || constant.Sign(tv.Value) >= 0 {
					continue
				}
				if o := p.info.Defs[id]; o != nil {
					vars[o] = &info{decl: id}
				}
			}
			return true
		})
		// assignments and branches
		var stack []ast.Node
		ast.Inspect(f, func(n ast.Node) bool {
			if n == nil {
				stack = stack[:len(stack)-1]
				return true
			}
			stack = append(stack, n)
			switch x := n.(type) {
			case *ast.AssignStmt:
				if x.Tok != token.DEFINE {
					for _, l := range x.Lhs {
						if id, ok := l.(*ast.Ident); ok {
							if v := vars[p.info.Uses[id]]; v != nil {
								v.assigned = true
							}
						}
					}
				}
			case *ast.IncDecStmt:
				if id, ok := x.X.(*ast.Ident); ok {
					if v := vars[p.info.Uses[id]]; v != nil {
						v.assigned = true
					}
				}
			case *ast.UnaryExpr:
				if x.Op == token.AND {
					if id, ok := x.X.(*ast.Ident); ok {
						if v := vars[p.info.Uses[id]]; v != nil {
							v.assigned = true
						}
					}
				}
			case *ast.RangeStmt:
				for _, e := range []ast.Expr{x.Key, x.Value} {
					if id, ok := e.(*ast.Ident); ok && x.Tok == token.ASSIGN {
						if v := vars[p.info.Uses[id]]; v != nil {
							v.assigned = true
						}
					}
				}
			case *ast.Ident:
				v := vars[p.info.Uses[x]]
				if v == nil || len(stack) < 2 {
					break
				}
				switch par := stack[len(stack)-2].(type) {
				case *ast.BinaryExpr:
					switch par.Op {
					case token.LSS, token.GTR, token.LEQ, token.GEQ, token.EQL, token.NEQ:
						v.branched = true
						v.node = stack[0]
					}
				case *ast.CaseClause:
					v.branched = true
				case *ast.SwitchStmt:
					if par.Tag == ast.Expr(x) {
						v.branched = true
					}
				}
			}
			return true
		})
	}
	n := 0
	for o, v := range vars {
		if !v.branched {
			continue
		}
		n++
		if !v.assigned {
			fn := ""
			for nd, name := range encl {
				if nd.Pos() <= v.decl.Pos() && v.decl.Pos() < nd.End() {
					fn = name
				}
			}
			out = append(out, finding{v.decl.Pos(), fn, fmt.Sprintf("local %s starts at a negative sentinel, is never assigned again and is branched on: it can only ever be the sentinel (the assignment meant for it goes to another variable, or the branch is dead)", o.Name())})
		}
	}
	sort.Slice(out, func(i, j int) bool { return out[i].pos < out[j].pos })
	return n, out
}

// ruleNilErrorUse: `if err == nil { … err … }` (also spelled `if !(err != nil)`
// or as the else branch of `err != nil`): on the branch where an error variable
// was just found to be nil it is wrapped (fmt.Errorf), logged (zap.Error),
// asked for its text (err.Error()) or returned, without having been assigned
// again. The test and the use contradict each other: the condition is
// inverted, and the failure path of the call is taken for its success.
// Returns the number of nil tests of error-typed variables and the findings.
func ruleNilErrorUse(p *astPkg) (int, []finding) {
	encl := enclosingFuncs(p.files)
	errType := types.Universe.Lookup("error").Type()
	var out []finding
	n := 0
	// nilTest: cond tests an error identifier against nil; returns the object and whether cond true means "is nil"
	var nilTest func(e ast.Expr) (types.Object, bool, bool)
	nilTest = func(e ast.Expr) (types.Object, bool, bool) {
		switch x := e.(type) {
		case *ast.ParenExpr:
			return nilTest(x.X)
		case *ast.UnaryExpr:
			if x.Op == token.NOT {
				o, isNil, ok := nilTest(x.X)
				return o, !isNil, ok
			}
		case *ast.BinaryExpr:
			if x.Op != token.EQL && x.Op != token.NEQ {
				return nil, false, false
			}
			id, isID := x.X.(*ast.Ident)
			nl, isNl := x.Y.(*ast.Ident)
			if !isID || !isNl || nl.Name != "nil" {
				return nil, false, false
			}
			o := p.info.Uses[id]
			if o == nil || !types.Identical(o.Type(), errType) {
				return nil, false, false
			}
			return o, x.Op == token.EQL, true
		}
		return nil, false, false
	}
	check := func(body *ast.BlockStmt, o types.Object, at ast.Node) {
		if body == nil {
			return
		}
		reassigned := false
		ast.Inspect(body, func(m ast.Node) bool {
			if reassigned {
				return false
			}
			switch y := m.(type) {
			case *ast.AssignStmt:
				for _, l := range y.Lhs {
					if id, ok := l.(*ast.Ident); ok && (p.info.Uses[id] == o || p.info.Defs[id] != nil && id.Name == o.Name()) {
						// inspect the right-hand side first, then stop: later uses see a new value
						reassigned = true
					}
				}
			case *ast.CallExpr:
				fn := types.ExprString(y.Fun)
				uses := false
				for _, a := range y.Args {
					if id, ok := a.(*ast.Ident); ok && p.info.Uses[id] == o {
						uses = true
					}
				}
				if uses && (fn == "fmt.Errorf" || fn == "zap.Error" || strings.HasPrefix(fn, "errors.")) {
					out = append(out, finding{y.Pos(), encl[at], fmt.Sprintf("%s is passed to %s on the branch where it was just found to be nil: the test is inverted (the call's failure path runs on success and its errors are ignored)", o.Name(), fn)})
				}
				if se, ok := y.Fun.(*ast.SelectorExpr); ok && se.Sel.Name == "Error" {
					if id, ok := se.X.(*ast.Ident); ok && p.info.Uses[id] == o {
						out = append(out, finding{y.Pos(), encl[at], fmt.Sprintf("%s.Error() is called on the branch where %s was just found to be nil", o.Name(), o.Name())})
					}
				}
			case *ast.ReturnStmt:
				for _, r := range y.Results {
					if id, ok := r.(*ast.Ident); ok && p.info.Uses[id] == o {
						out = append(out, finding{y.Pos(), encl[at], fmt.Sprintf("%s is returned on the branch where it was just found to be nil: the test is inverted (success is reported where the call failed, or the work after it is skipped)", o.Name())})
					}
				}
			}
			return true
		})
	}
	for _, f := range p.files {
		ast.Inspect(f, func(nd ast.Node) bool {
			ifs, ok := nd.(*ast.IfStmt)
			if !ok {
				return true
			}
			o, isNil, isTest := nilTest(ifs.Cond)
			if !isTest {
				return true
			}
			n++
			if isNil {
				check(ifs.Body, o, nd)
			} else if eb, ok := ifs.Else.(*ast.BlockStmt); ok {
				check(eb, o, nd)
			}
			return true
		})
	}
	sort.Slice(out, func(i, j int) bool { return out[i].pos < out[j].pos })
	return n, out
}

// checkPendingGuards: a transaction is (re)submitted only when the monitor of
// the previous one says it is no longer pending. For every test of an
// isPending() result, no submission may be reachable only through its
// "pending" side: that would be the inverted guard (resubmit while pending,
// wait for ever once it is not).
func checkPendingGuards(cx *CheckCtx, sp *ssa.Package) {
	w := cx.W
	nTests := 0
	// the pending query: a `func() bool` method that answers with the Load of an
	// atomic.Bool field of its receiver (the monitor's in-flight flag)
	pendingQ := map[*ssa.Function]bool{}
	for _, fn := range allFuncs(sp) {
		if fn.Blocks == nil || fn.Signature.Recv() == nil || fn.Signature.Params().Len() != 0 || fn.Signature.Results().Len() != 1 || !isBoolType(fn.Signature.Results().At(0).Type()) {
			continue
		}
		for _, b := range fn.Blocks {
			for _, ins := range b.Instrs {
				c, ok := ins.(*ssa.Call)
				if !ok {
					continue
				}
				cal := c.Common().StaticCallee()
				if cal == nil || cal.Name() != "Load" || cal.Signature.Recv() == nil || !strings.HasSuffix(typeName(cal.Signature.Recv().Type()), "atomic.Bool") {
					continue
				}
				if fa, ok := c.Common().Args[0].(*ssa.FieldAddr); ok && len(fn.Params) > 0 && fa.X == fn.Params[0] {
					pendingQ[fn] = true
				}
			}
		}
	}
	if len(pendingQ) == 0 {
		cx.undecided("anchor", "deploy/pending-query", "no method of package deploy answers with the Load of an atomic.Bool field of its receiver: the in-flight query of the transaction monitor cannot be identified", "")
		return
	}
	for _, fn := range allFuncs(sp) {
		if fn.Blocks == nil {
			continue
		}
		var subs []*ssa.Call
		for _, b := range fn.Blocks {
			for _, ins := range b.Instrs {
				if c, ok := ins.(*ssa.Call); ok && isSubmissionType(c.Type()) {
					subs = append(subs, c)
				}
			}
		}
		for _, b := range fn.Blocks {
			ifi, isIf := b.Instrs[len(b.Instrs)-1].(*ssa.If)
			if !isIf {
				continue
			}
			c, isCall := ifi.Cond.(*ssa.Call)
			if !isCall {
				continue
			}
			if cal := c.Common().StaticCallee(); cal == nil || !pendingQ[cal] {
				continue
			}
			nTests++
			bad := ""
			for _, sc := range subs {
				if viaEdge(b, 0, sc.Block()) {
					bad = w.pos(sc.Pos())
				}
			}
			cx.decide(bad == "", "pending-guard", fmt.Sprintf("deploy.%s@%s", fn.Name(), w.pos(ifi.Cond.Pos())), "no submission is reachable only through the 'still pending' side", "the submission at "+bad+" is reachable only while the previous transaction is still pending: the guard is inverted (duplicates are sent, and nothing once the first one is gone)", w.pos(ifi.Cond.Pos()))
		}
	}
	cx.count("pending_tests", nTests)
	cx.floor("pending_tests", 8)
}

// checkIndexOnEqualSide: where the local member's index is searched (a loop
// with an Equal test whose index flows into a variable used after the loop),
// the index is taken on the *equal* side of the test.
func checkIndexOnEqualSide(cx *CheckCtx, sp *ssa.Package) {
	w := cx.W
	n := 0
	for _, fn := range allFuncs(sp) {
		if fn.Blocks == nil {
			continue
		}
		for _, b := range fn.Blocks {
			ifi, isIf := b.Instrs[len(b.Instrs)-1].(*ssa.If)
			if !isIf || innermostLoop(b) == nil {
				continue
			}
			c, isCall := ifi.Cond.(*ssa.Call)
			if !isCall {
				continue
			}
			cal := c.Common().StaticCallee()
			if cal == nil || cal.Name() != "Equal" {
				continue
			}
			hdr := innermostLoop(b)
			// helper form: the index is returned straight from the loop
			for _, blk := range fn.Blocks {
				ret, isRet := blk.Instrs[len(blk.Instrs)-1].(*ssa.Return)
				if !isRet || loopBlocks(hdr)[blk] || !hdr.Dominates(blk) {
					continue
				}
				for _, rv := range ret.Results {
					ev, isIns := rv.(ssa.Instruction)
					if !isIns || !isInteger(rv.Type()) || ev.Block() == nil || !loopBlocks(hdr)[ev.Block()] {
						continue
					}
					n++
					cx.decide(viaEdge(b, 0, blk), "index-on-equal", fmt.Sprintf("deploy.%s@%s", fn.Name(), w.pos(ifi.Cond.Pos())), "the found index leaves the loop on the 'equal' side of the test", "the index returned from the search loop is returned on the 'not equal' side: the local member is identified as somebody else (wrong leader, wrong Alphabet contract)", w.pos(ifi.Cond.Pos()))
				}
			}
			// the loop index: a phi of the header (or header+1 for range loops) flowing out of the loop
			for _, blk := range fn.Blocks {
				for _, ins := range blk.Instrs {
					phi, isPhi := ins.(*ssa.Phi)
					if !isPhi || !isInteger(phi.Type()) || loopBlocks(hdr)[blk] {
						break
					}
					// edges coming out of this loop
					for i, p := range blk.Preds {
						if !(loopBlocks(hdr)[p] || hdr.Dominates(p)) || p == hdr {
							continue
						}
						// only a value computed by this loop (its index) counts
						ev, isIns := phi.Edges[i].(ssa.Instruction)
						if !isIns || ev.Block() == nil || !loopBlocks(hdr)[ev.Block()] {
							continue
						}
						n++
						cx.decide(viaEdge(b, 0, p), "index-on-equal", fmt.Sprintf("deploy.%s@%s", fn.Name(), w.pos(ifi.Cond.Pos())), "the found index leaves the loop on the 'equal' side of the test", "the index taken from the search loop leaves it on the 'not equal' side: the local member is identified as somebody else (wrong leader, wrong Alphabet contract)", w.pos(ifi.Cond.Pos()))
					}
				}
			}
		}
	}
	// a library search (slices.Index*) has no side to get wrong; it still counts as a search site
	for _, fn := range allFuncs(sp) {
		for _, b := range fn.Blocks {
			for _, ins := range b.Instrs {
				if c, ok := ins.(*ssa.Call); ok {
					if cal := c.Common().StaticCallee(); cal != nil && cal.Object() != nil && cal.Object().Pkg() != nil && cal.Object().Pkg().Path() == "slices" && strings.HasPrefix(cal.Object().Name(), "Index") {
						n++
					}
				}
			}
		}
	}
	cx.count("index_searches", n)
	cx.floor("index_searches", 1)
}

// flagGuards: block blk of fn is reached only through the true side of a test of the struct field named flag.
func flagGuards(fn *ssa.Function, blk *ssa.BasicBlock, flag string) bool {
	for _, gb := range fn.Blocks {
		ifi, isIf := gb.Instrs[len(gb.Instrs)-1].(*ssa.If)
		if !isIf {
			continue
		}
		cond := ifi.Cond
		neg := false
		if u, isU := cond.(*ssa.UnOp); isU && u.Op == token.NOT {
			cond, neg = u.X, true
		}
		if flagField(cond) != flag {
			continue
		}
		side, other := gb.Succs[0], gb.Succs[1]
		if neg {
			side, other = other, side
		}
		if side.Dominates(blk) && !blockReaches(other, blk, gb) {
			return true
		}
	}
	return false
}
