package main

// C10, C11, C12, C18 — the NNS contract (DESIGN §5).

import (
	"fmt"
	"go/constant"
	"go/token"
	"go/types"
	"os"
	"sort"
	"strings"

	"golang.org/x/tools/go/ssa"
)

const nnsPkg = "contracts/nns"

const (
	pfxSupply  = "\x00"
	pfxBalance = "\x01"
	pfxAccTok  = "\x02"
	pfxRoot    = "\x20"
	pfxName    = "\x21"
	pfxRecord  = "\x22"
)

func init() {
	register(&Check{
		ID:        "C10",
		Level:     "other",
		Technique: "per-path ledger balance over E-literals (every feasible combination of balance/supply updates at an exit sums to zero), single writers, term checks of the stored records and notifications, boundary-operator agreement over all time/expiration comparisons, ordering of release before credit",
		Explanation: "D1 total supply, balances and the token index are written only by updateTotalSupply/updateBalance (and the deploy initialisation). D2 at every normal exit of every ABI method, every combination of executed updateBalance/updateTotalSupply calls that the exit facts allow has Σ balance diffs = Σ supply diffs. " +
			"D3 one Transfer(from, to, 1, name) per ownership change, emitted exactly with the record write, from = the previous owner term (the stored owner whenever a balance was released). D4 Transfer stores the loaded record with Owner := to, Admin := nil. D5 Renew: 1 ≤ years ≤ 10, expiration += 365·24·3600·1000·years, the ten-year bound is enforced for non-TLD names. " +
			"D6 every direct comparison between the block time and an Expiration field puts t == expiration on the expired side (sibling sites agree on the boundary). D7 OwnerOf/Properties return only with 'not expired' and 'parents alive' established; when a re-registration releases the old owner's entry the credit of the new owner has not yet been written (so re-registration by the same owner keeps its token index entry). D8 Transfer and Register hand control to the receiver (onNEP11Payment) only after all their stores (callback-last). M: Register stores only names of at least two labels, with the TLD present, parents alive and over an absent or expired record; RegisterTLD one label, free, root marker written; Transfer rewrites the record on every successful transfer to another account; updateBalance stores or deletes exactly by the new balance, continuing from the stored one; parentExpired level loop (range, pass only present ∧ unexpired, expired only for a missing or expired level); Renew refuses only outside 1 … 10 years / 255 bytes / the cap. R10: the parent-conflict helper reports a conflict only for a real sub-name record (shared with C12). R11: the step rules of updateBalance run for every constant an entry point hands over: for 0 the balance is stored unchanged and the token index entry is not deleted. S3: IsAvailable answers the constant 'taken' only where the liveness helper found the name and its parents unexpired (taken-only-if-alive). R13 catching-frame: no function with a deferred recover that a method of the property's contracts can reach lies outside the who-may-catch table (container.deleteNNSRecords).",
		NotCovered: "availability over time and token enumeration equality with a model; the accounting identity over histories is the inductive consequence of D1–D2, not executed.",
		Run:        runC10,
	})
	register(&Check{
		ID:        "C11",
		Level:     "other",
		Technique: "abstract interpretation: gate entailment with subject agreement — the NameState whose owner/admin is witnessed is the record keyed by the same token-id term that keys the record being changed",
		Explanation: "For addRecord, setRecord, deleteRecords, updateSOA, renew: every effect is gated by committee-majority ∨ W(owner(T)) ∨ W(admin(T)) where T is exactly the token id that keys the written/deleted record; transfer by W(owner(token)); setAdmin by W(owner(name)) and additionally (admin == nil ∨ W(admin)); register by W(owner argument) and, for names of level > 2, additionally by the admin formula of the directly enclosing name (name without its first label); TLD registration by the committee (C03). " +
			"Rights follow ownership because the gate reads the stored record in the same invocation and Transfer clears the admin (C10.D4). D5 Transfer stores the record with Admin := nil (transfer-resets-admin). M: SetAdmin stores the record on every normal return. R7: the documented gates of the NNS mutators (the gate rule of C03) are decided here as well. R8: the token whose owner/admin is asked is the one tokenIDFromName names (record-owner, shared with C12). S3: a registration (Register, RegisterTLD; first or take-over) stores Admin = nil (register-without-admin). R13 catching-frame: no function with a deferred recover that a method of the property's contracts can reach lies outside the who-may-catch table (container.deleteNNSRecords).",
		NotCovered: "signer sets over evolving histories at run time (the statement is over program paths and stored state at invocation time).",
		Run:        runC11,
	})
	register(&Check{
		ID:        "C12",
		Level:     "other",
		Technique: "must-facts at the record stores (limits, CNAME uniqueness, replace-only), exit facts (SOA refresh on every path), key-schema analysis of the record family, constant/argument checks of the redirect budget",
		Explanation: "D1 AddRecord stores only with id ≤ 15 and ¬(CNAME ∧ id ≠ 0), id = number of existing records of that type; SetRecord stores only after the record with that id was read as present. D2 DeleteRecords never runs for SOA and deletes exactly the scanned keys of (token, name, type). D3 every normal path of AddRecord/SetRecord/DeleteRecords refreshes the SOA serial of the same token. " +
			"D4 Resolve starts with budget 2, the recursive call passes budget − 1 and a negative budget cannot return. D5 Register stores only with 'no conflicting parent record' established. D6 the record key is 0x22 ‖ hash(20) ‖ hash(20) ‖ type(1) ‖ id(1): fixed width, so the three scans are exact. D7 GetRecords/GetAllRecords/resolve scan the records of a token only with its own and its parents' liveness established; D8 resolve follows the CNAME only after the loop over the name's own records. M: AddRecord stores only after the data was compared with every record of the scan on the equal side (distinct values); type filters collect on the equal side; tokenIDFromName returns a proper suffix only when registered and unexpired and passes a level only when it is not; the conflict helper reports only names that end with '.'‖name and 'none' only after exhaustion. R13 catching-frame: no function with a deferred recover that a method of the property's contracts can reach lies outside the who-may-catch table (container.deleteNNSRecords).",
		NotCovered: "equality of getRecords/getAllRecords/resolve with a reference model; duplicate detection inside the scan loop.",
		Run:        runC12,
	})
	register(&Check{
		ID:        "C18",
		Level:     "other",
		Technique: "must-facts: validation precedes every state change; dispatch coverage of the record types; numeric limits as facts at the accepting exits of the validators; digit fact on the first byte before every decimal Atoi",
		Explanation: "D1 Register/RegisterTLD reach their first effect only after splitAndCheck accepted the name, AddRecord/SetRecord only after the type-specific validator accepted the data (A: checkIPv4, AAAA: checkIPv6, CNAME: name syntax, TXT: ≤ 255) and only for these four types; the accepting exits of the name validators establish 3 ≤ len ≤ 255, fragment length 1..63 (root: ≤ 16, first byte a letter). " +
			"D2 sign-accepting parser: every decimal std.Atoi/Atoi10 in a validator is reached only with the first byte of its argument established to be a digit. D3 first and last byte of an accepted fragment are in [a-z0-9], the inner bytes are checked by one loop over 1…len−2 whose iterations complete only for '-' or [a-z0-9]. M: the fragment validator and safeSplitAndCheck are decided in both directions: no rejecting exit is satisfiable together with every documented condition. R6: a decimal fragment is accepted only if it does not start with '0' or is one byte long (canonical-decimal); in the ':'-splitting validator the zero-filled range of the elided run and the shifted slot of a later group are adjacent (gap-alignment). R8: every storage key Register writes for a valid name fits the 64-byte key limit (no raw name component). R9: a fragment is refused as 'not a byte' only outside 0 … 255. S3: the level rules of the helper that finds the governing token (a stored but expired level is passed, not returned) are decided here as well: a well-formed record below an expired intermediate level is filed, not refused. R13 catching-frame: no function with a deferred recover that a method of the property's contracts can reach lies outside the who-may-catch table (container.deleteNNSRecords).",
		NotCovered: "that the validators accept exactly the well-formed strings (hand-written scanners over run-time strings: IPv6 groups, inner hyphens, boundary lengths) — declared not applicable to this family; of the IPv4/IPv6 scanners only the leading-zero and the gap-alignment clauses are decided.",
		Run:        runC18,
	})
}

// ---------- helpers ----------

func ripemdArg(t *Term) *Term {
	if isCall(t, "native/crypto.Ripemd160") && len(t.Args) == 1 {
		return t.Args[0]
	}
	return nil
}

// satisfiable: can the state hold together with the given units and clauses?
func (a *Analysis) satisfiable(st *CNF, units []int32, clauses [][]int32) bool {
	c := st.clone()
	for _, cl := range clauses {
		c.addClause(a.lt, append([]int32{}, cl...))
		if c.bottom {
			return false
		}
	}
	for _, u := range units {
		c.addUnit(a.lt, u)
		if c.bottom {
			return false
		}
	}
	budget := 4000
	return !c.unsat(a.lt, 0, &budget)
}

type ledgerCall struct {
	site  *Site
	diff  int64
	kind  string // balance | supply
	marks []*Site
}

// nnsLedgerFns: the two ledger helpers, found from Register: the function that
// holds the store of an owner balance and the one that holds the store of the supply.
func nnsLedgerFns(cx *CheckCtx) (bal, sup *ssa.Function) {
	m := cx.method("nns", "Register")
	if m == nil {
		return nil, nil
	}
	a := cx.run(m)
	// the helper = the nearest frame above the store with the ledger signature (the store itself may sit in a
	// helper of the helper: one for the balance counter, one for the token index)
	up := func(fam string, nparams int) *ssa.Function {
		var res *ssa.Function
		for _, s := range a.Sites(func(s *Site) bool { return isStore(s) && keyFamily(s.Args[1]) == fam }) {
			var f *ssa.Function
			for c := s.Ctx; c != nil && c.parent != nil; c = c.parent {
				if len(c.fn.Params) == nparams {
					f = c.fn
					break
				}
			}
			if f == nil {
				f = s.Ctx.fn
			}
			if res != nil && res != f {
				return nil
			}
			res = f
		}
		return res
	}
	bal, sup = up(pfxBalance, 4), up(pfxSupply, 2)
	if bal == nil || len(bal.Params) != 4 {
		cx.undecided("anchor", nnsPkg+".updateBalance", "Register does not write the owner balance through one helper (ctx, token, account, diff)", "")
		bal = nil
	}
	if sup == nil || len(sup.Params) != 2 {
		cx.undecided("anchor", nnsPkg+".updateTotalSupply", "Register does not write the total supply through one helper (ctx, diff)", "")
		sup = nil
	}
	return
}

func ledgerCalls(a *Analysis, balFn, supFn string) ([]*ledgerCall, string) {
	var out []*ledgerCall
	for _, s := range a.Sites(func(s *Site) bool {
		return s.Inlined && (s.Callee == balFn || s.Callee == supFn)
	}) {
		lc := &ledgerCall{site: s, kind: "balance"}
		di := 3
		if s.Callee == supFn {
			lc.kind = "supply"
			di = 1
		}
		d, ok := s.Args[di].IntConst()
		if !ok {
			return nil, "a ledger update with a non-constant amount at " + s.Where(a.w)
		}
		lc.diff = d
		fr := s.Ctx.kids[s.Instr]
		for _, e := range a.RealEffects() {
			if fr != nil && e.Ctx.isDescOrSelf(fr) && isStore(e) {
				// the site that executes unconditionally in the call marks it as executed
				f := keyFamily(e.Args[1])
				if (lc.kind == "balance" && f == pfxAccTok) || (lc.kind == "supply" && f == pfxSupply) {
					lc.marks = append(lc.marks, e)
				}
			}
		}
		if len(lc.marks) != 1 {
			return nil, "cannot identify the unconditional store of the ledger update at " + s.Where(a.w)
		}
		out = append(out, lc)
	}
	return out, ""
}

func runC10(cx *CheckCtx) {
	w := cx.W
	checkLoaders(cx, nnsPkg)
	// "available again from its expiration instant": availability is refused only for a real conflict
	checkParentConflictHelper(cx, cx.locate(nnsPkg, "getParentConflictingRecord", "searches record names for a suffix itself", func(f *ssa.Function) bool { return directCallees(f)["native/std.MemorySearchLastIndex"] > 0 }))
	// … and a name is reported taken only while it is alive: IsAvailable answers the constant false only on
	// the side where the liveness helper (the one reading name states and the clock) said "nobody on the path
	// has expired" — not on the mere presence of the name's record, which outlives the registration
	if m := cx.method("nns", "IsAvailable"); m != nil {
		if pe := nnsParentExpiredFn(cx); pe != nil {
			a := cx.run(m)
			var peSites []*Site
			for _, s := range a.Sites(func(s *Site) bool { return s.Inlined && s.Callee == fq(pe) }) {
				peSites = append(peSites, s)
			}
			ok, where, n := true, "", 0
			for _, ex := range a.Exits() {
				if len(ex.Results) != 1 {
					continue
				}
				if bv, isC := ex.Results[0].BoolConst(); !isC || bv {
					continue
				}
				n++
				alive := false
				for _, ps := range peSites {
					if ps.Val != nil && a.holdsAt(ex.State, -a.litB(ps.Val)) {
						alive = true
					}
				}
				if !alive {
					ok, where = false, exitPos(w, ex)
				}
			}
			// (an IsAvailable spelled with an answer variable and a single return has no constant 'taken' exit: the
			// rule then has nothing to ask and says so — it decides the early-return spelling only)
			cx.decide(ok, "getter-alive", "nns.IsAvailable/taken-only-if-alive", fmt.Sprintf("%d constant 'taken' answers, each only where the liveness helper found the whole path alive", n), "isAvailable can answer 'taken' without the liveness helper having found the name and its parents unexpired (a stored record is enough): an expired name never becomes available again", where)
		}
	}
	c := cx.contract("nns")
	if c == nil {
		return
	}
	nMethods := 0
	balF, supF := nnsLedgerFns(cx)
	if balF == nil || supF == nil {
		return
	}
	balFn, supFn := fq(balF), fq(supF)
	passedDiffs := map[int64]string{} // every constant some entry point hands to updateBalance, with a site
	for _, m := range c.Methods {
		a := cx.run(m)
		// D1 single writers
		for _, s := range a.RealEffects() {
			if !isStore(s) {
				continue
			}
			skey := "nns." + m.GoName + "/" + siteConstruct(a, s)
			switch keyFamily(s.Args[1]) {
			case pfxSupply:
				cx.decide(s.Ctx.inFunc(supFn), "single-writer", skey, "supply written by updateTotalSupply", "the total supply is written outside updateTotalSupply", s.Where(w))
			case pfxBalance, pfxAccTok:
				cx.decide(s.Ctx.inFunc(balFn), "single-writer", skey, "balance/token index written by updateBalance", "an owner balance or token index entry is written outside updateBalance", s.Where(w))
			}
		}
		// D2 ledger balance per path
		lcs, bad := ledgerCalls(a, balFn, supFn)
		if bad != "" {
			cx.undecided("ledger-balance", "nns."+m.GoName, bad, "")
			continue
		}
		if len(lcs) == 0 {
			continue
		}
		for _, lc := range lcs {
			if lc.kind == "balance" {
				passedDiffs[lc.diff] = lc.site.Where(w)
			}
		}
		nMethods++
		if len(lcs) > 8 {
			cx.undecided("ledger-balance", "nns."+m.GoName, "too many ledger updates to enumerate", "")
			continue
		}
		okAll := true
		detail := ""
		for _, ex := range a.Exits() {
			for mask := 0; mask < 1<<len(lcs); mask++ {
				var units []int32
				var clauses [][]int32
				bal, sup := int64(0), int64(0)
				for i, lc := range lcs {
					var ls []int32
					for _, mk := range lc.marks {
						ls = append(ls, a.eLit(mk))
					}
					if mask&(1<<i) != 0 {
						clauses = append(clauses, ls)
						if lc.kind == "balance" {
							bal += lc.diff
						} else {
							sup += lc.diff
						}
					} else {
						for _, l := range ls {
							units = append(units, -l)
						}
					}
				}
				if bal == sup {
					continue
				}
				if a.satisfiable(ex.State, units, clauses) {
					okAll = false
					var ex2 []string
					for i, lc := range lcs {
						if mask&(1<<i) != 0 {
							ex2 = append(ex2, fmt.Sprintf("%s%+d at %s", lc.kind, lc.diff, lc.site.Pos(w)))
						}
					}
					detail = "a path to the exit at " + exitPos(w, ex) + " executes exactly {" + strings.Join(ex2, "; ") + "}: Σ balances changes by " + fmt.Sprint(bal) + " while totalSupply changes by " + fmt.Sprint(sup)
				}
			}
		}
		cx.decide(okAll, "ledger-balance", "nns."+m.GoName, fmt.Sprintf("every feasible combination of %d ledger updates is balanced at every exit", len(lcs)), detail, w.pos(m.Fn.Pos()))
		// updateBalance internals: index entry follows the sign
	}
	cx.count("ledger_methods", nMethods)
	cx.floor("ledger_methods", 2)
	// updateBalance itself: +diff puts the token index entry, −diff deletes it, balance moves by diff
	if fn := balF; fn != nil {
		ds := []int64{1, -1}
		for d := range passedDiffs {
			if d != 1 && d != -1 {
				ds = append(ds, d)
			}
		}
		sort.Slice(ds[2:], func(i, j int) bool { return ds[2+i] < ds[2+j] })
		for _, d := range ds {
			a := cx.analyze(&Query{Name: fmt.Sprint("std:diff=", d), Root: fn, Consts: map[int]constant.Value{3: constant.MakeInt64(d)}})
			tb := a.tb
			acc, tok := fnParam(tb, fn, 2), fnParam(tb, fn, 1)
			okB, okI := true, false
			for _, s := range a.RealEffects() {
				if s.Effect == "put" && keyFamily(s.Args[1]) == pfxBalance {
					v := a.canonAt(s, s.Args[2])
					good := s.Args[1] == tb.cat(tb.constBytes(pfxBalance), acc) && storedPlusD(a, s.In, v, d, tb.cat(tb.constBytes(pfxBalance), acc))
					if os.Getenv("DBGLEDGER") != "" {
						fmt.Println("LEDGER d=", d, "v=", v, "alts=", termList(tb.Alts(v)), "key=", s.Args[1], "good=", good)
						for _, l := range s.In.dump(a.lt) {
							fmt.Println("     ", l)
						}
					}
					if !good {
						okB = false
					}
				}
				ik := tb.cat(tb.constBytes(pfxAccTok), acc, tb.mk("call", "native/crypto.Ripemd160", 0, tok))
				if d > 0 && s.Effect == "put" && s.Args[1] == ik && s.Args[2] == tok {
					okI = true
				}
				if d < 0 && s.Effect == "delete" && s.Args[1] == ik {
					okI = true
				}
				if keyFamily(s.Args[1]) == pfxAccTok && ((d > 0 && s.Effect == "delete") || (d < 0 && s.Effect == "put")) {
					okI = false
				}
			}
			if d == 0 {
				// an entry point hands over 0 ("nothing moves"): the owner keeps the token, so its index entry
				// must not be removed (re-putting the same entry changes nothing)
				okI = true
				for _, s := range a.RealEffects() {
					if keyFamily(s.Args[1]) == pfxAccTok && s.Effect == "delete" {
						okI = false
					}
				}
			}
			// the new balance is stored when it is not 0 and the entry deleted when it is: exactly one
			// of the two happens on every path
			var bPut, bDel *Site
			for _, s := range a.RealEffects() {
				if s.Effect == "put" && keyFamily(s.Args[1]) == pfxBalance {
					bPut = s
				}
				if s.Effect == "delete" && s.Args[1] == tb.cat(tb.constBytes(pfxBalance), acc) {
					bDel = s
				}
			}
			if bPut == nil || bDel == nil {
				okB = false
			} else {
				v := a.canonAt(bPut, bPut.Args[2])
				// (the test may be known about the variable or about what the state has rewritten it to)
				if !a.holdsAt(bPut.In, -a.litEqC(v, 0)) || !(a.holdsAt(bDel.In, a.litEqC(a.Canon(bDel.In, v), 0)) || a.holdsAt(bDel.In, a.litEqC(v, 0))) {
					if os.Getenv("DBGLEDGER") != "" {
						fmt.Println("LEDGER zero-test fails: v=", v, "canon at del=", a.Canon(bDel.In, v), a.holdsAt(bPut.In, -a.litEqC(v, 0)), a.holdsAt(bDel.In, a.litEqC(a.Canon(bDel.In, v), 0)))
					}
					okB = false
				}
				for _, ex := range a.Exits() {
					if !a.holdsAt(ex.State, a.eLit(bPut), a.eLit(bDel)) {
						okB = false
					}
				}
				// the old balance is the stored one when there is one, 0 only when there is none
				if v.Op == "sum" {
					for _, x := range v.Args {
						if x.Op != "phi" {
							continue
						}
						for _, alt := range tb.Alts(x) {
							if alt.Op == "read" || alt.Op == "toint" {
								rd := alt
								if rd.Op == "toint" {
									rd = rd.Args[0]
								}
								if !a.holdsAt(bPut.In, a.litNil(rd), a.eqLit(x, alt)) || !a.holdsAt(bPut.In, -a.litNil(rd), a.litEqC(x, 0)) {
									okB = false
								}
							}
						}
					}
				}
			}
			if d == 0 {
				// "nothing moves": whatever is stored under the balance key is the value read from it
				okB = true
				bk := tb.cat(tb.constBytes(pfxBalance), acc)
				for _, s := range a.RealEffects() {
					if s.Effect == "put" && keyFamily(s.Args[1]) == pfxBalance {
						v := a.canonAt(s, s.Args[2])
						if v.Op == "toint" {
							v = v.Args[0]
						}
						if !(s.Args[1] == bk && v.Op == "read" && v.Args[0] == bk) {
							okB = false
						}
					}
				}
			}
			cx.decide(okB, "ledger-step", fmt.Sprintf("nns.updateBalance/%+d/balance", d), "stores stored balance + diff under 0x01‖account", "updateBalance does not store (stored balance + diff) for the account", w.pos(fn.Pos()))
			cx.decide(okI, "ledger-step", fmt.Sprintf("nns.updateBalance/%+d/index", d), "token index entry 0x02‖account‖hash(token) follows the sign of diff", "the token index entry is not added on +1 / removed on −1 (kept on 0, which "+passedDiffs[0]+" hands over): tokensOf diverges from the recorded owners", w.pos(fn.Pos()))
		}
	}
	// D3/D4/D7 Register and Transfer
	if m := cx.method("nns", "Register"); m != nil {
		a := cx.run(m)
		tb := a.tb
		name, owner := paramTerm(tb, m, "name"), paramTerm(tb, m, "owner")
		nkey := tb.cat(tb.constBytes(pfxName), tb.mk("call", "native/crypto.Ripemd160", 0, name))
		var namePut, notif, relDel, credPut *Site
		for _, s := range a.RealEffects() {
			switch {
			case s.Effect == "put" && s.Args[1] == nkey:
				namePut = s
			case notifyName(s) == "Transfer":
				notif = s
			case s.Effect == "delete" && keyFamily(s.Args[1]) == pfxAccTok:
				relDel = s
			case s.Effect == "put" && keyFamily(s.Args[1]) == pfxAccTok:
				credPut = s
			}
		}
		if namePut == nil || notif == nil || relDel == nil || credPut == nil {
			cx.violated("ownership-change", "nns.Register/shape", "Register no longer stores the name record, releases an expired owner, credits the new owner and notifies", w.pos(m.Fn.Pos()))
		} else {
			v := unserialize(namePut.Args[2])
			okV := tb.field(v, "Owner") == owner && tb.field(v, "Name") == name && tb.field(v, "Admin").IsNil()
			exp := tb.field(v, "Expiration")
			wantExp := tb.binop(token.ADD, tb.mk("call", "runtime.GetTime", 0), tb.binop(token.MUL, paramTerm(tb, m, "expire"), tb.constInt(1000), intType), intType)
			cx.decide(okV && exp == wantExp, "ownership-change", "nns.Register/record", "stores {owner, name, now + expire·1000, no admin}", "the registered record is "+v.pretty(), namePut.Where(w))
			stored := tb.field(tb.mk("call", "native/std.Deserialize", 0, nil), "Owner")
			_ = stored
			na := notifyArgs(notif)
			okN := len(na) == 4 && na[1] == owner && na[3] == name
			if okN {
				one, _ := na[2].IntConst()
				okN = one == 1
			}
			// from: nil or the stored owner of this name; equal to the released account whenever a release happened
			relAcc := keyParts(relDel.Args[1])
			okF := okN && len(relAcc) == 3
			if okF {
				for _, alt := range tb.Alts(na[0]) {
					if !(alt.IsNil() || alt == relAcc[1]) {
						okF = false
					}
				}
				if !(relAcc[1].Op == "field" && relAcc[1].Name == "Owner" && len(relAcc[1].Args) == 1) {
					okF = false
				} else if k, isRec := recordOf(tb, relAcc[1].Args[0]); !(isRec && k == nkey) {
					okF = false
				}
				if na[0] != relAcc[1] && !a.holdsAt(notif.In, -a.eLit(relDel), a.eqLit(na[0], relAcc[1])) {
					// through intermediate variables (a helper's result bound to its local): equal in
					// the state that knows the release happened
					st2 := notif.In.clone()
					st2.addUnit(a.lt, a.eLit(relDel))
					same := false
					for _, x := range a.eqClass(st2, na[0]) {
						if x == relAcc[1] || a.Canon(st2, x) == a.Canon(st2, relAcc[1]) {
							same = true
						}
					}
					if !same {
						okF = false
					}
				}
			}
			cx.decide(okN && okF, "ownership-change", "nns.Register/Transfer/args", "Transfer(previous owner | nil, owner, 1, name)", "the Transfer notification of a registration carries "+termList(na)+": the previous owner is not the stored owner whose balance was released", notif.Where(w))
			checkNotifyEquiv(cx, a, "nns.Register/Transfer", notif, namePut)
			// release before credit (same owner re-registering an expired name)
			callbackLast(cx, a, "nns.Register")
			cx.decide(a.holdsAt(relDel.In, -a.eLit(credPut)), "ownership-change", "nns.Register/release-before-credit", "the old owner's token index entry is released before the new owner's is written", "the new owner is credited before the old owner is released: when both are the same account the token index entry is written and then deleted, tokensOf loses the name", relDel.Where(w))
			// availability boundary is D6; expiry check on the existing record before takeover
			okTake := false
			for _, f := range a.unitFacts(relDel.In) {
				if f.kind == KLt && !f.pos && isCall(f.A, "runtime.GetTime") && f.B.Op == "field" && f.B.Name == "Expiration" {
					if k, isRec := recordOf(tb, f.B.Args[0]); isRec && k == nkey {
						okTake = true
					}
				}
			}
			// … and at the store of the record itself: there was no record, or it had expired
			var nilLits, ltLits []int32
			for id := int32(1); id < int32(len(a.lt.lits)); id++ {
				l := a.lt.lits[id]
				if l.Kind == KNil && l.A.Op == "read" && len(l.A.Args) > 0 && l.A.Args[0] == nkey {
					nilLits = append(nilLits, id)
				}
				if l.Kind == KLt && isCall(l.A, "runtime.GetTime") && l.B.Op == "field" && l.B.Name == "Expiration" {
					if k, isRec := recordOf(tb, l.B.Args[0]); isRec && k == nkey {
						ltLits = append(ltLits, -id)
					}
				}
			}
			if len(nilLits) == 0 || len(ltLits) == 0 || !a.holdsAt(namePut.In, append(append([]int32{}, nilLits...), ltLits...)...) {
				okTake = false
			}
			// the enclosing names are alive and the TLD exists when the record is stored
			okPar, okTLD := false, false
			for _, f := range a.unitFacts(namePut.In) {
				if f.kind == KB && !f.pos && a.resultSite(f.A, fq(nnsParentExpiredFn(cx))) != nil {
					okPar = true
				}
				if f.kind == KNil && !f.pos && f.A.Op == "read" && len(f.A.Args) > 0 && keyFamily(f.A.Args[0]) == pfxRoot {
					okTLD = true
				}
			}
			okDepth := false
			for _, f := range a.unitFacts(namePut.In) {
				if f.kind == KEqC && !f.pos && f.C == 1 && f.A.Op == "len" && splitOf(a, f.A.Args[0], name) {
					okDepth = true
				}
			}
			cx.decide(okDepth, "ownership-change", "nns.Register/not-a-tld", "the record is stored only for a name of at least two labels", "register can store a top-level name (TLDs are the committee's, through registerTLD)", namePut.Where(w))
			// the liveness helper is asked for every enclosing level (first = 1) and the TLD marker read
			// is the one of the last label
			okLvl := false
			for _, ps := range a.Sites(func(s *Site) bool { return s.Inlined && s.Callee == fq(nnsParentExpiredFn(cx)) }) {
				if n, isC := ps.Args[1].IntConst(); isC && n == 1 && a.holdsAt(namePut.In, -a.litB(ps.Val)) {
					okLvl = true
				}
			}
			okRootKey := false
			for _, f := range a.unitFacts(namePut.In) {
				if f.kind == KNil && !f.pos && f.A.Op == "read" && len(f.A.Args) > 0 && keyFamily(f.A.Args[0]) == pfxRoot {
					if kp := keyParts(f.A.Args[0]); len(kp) == 2 && kp[1].Op == "index" && splitOf(a, kp[1].Args[0], name) && kp[1].Args[1] == tb.binop(token.SUB, tb.mk("len", "", 0, kp[1].Args[0]), tb.constInt(1), intType) {
						okRootKey = true
					}
				}
			}
			cx.decide(okLvl && okRootKey, "ownership-change", "nns.Register/levels", "liveness asked from level 1 (the directly enclosing name) up, TLD marker of the last label", "register does not check the directly enclosing name (or reads the TLD marker of another label)", namePut.Where(w))
			cx.decide(okPar && okTLD, "ownership-change", "nns.Register/parents-alive", "the record is stored only with the TLD present and no enclosing name expired", "a name can be registered under an expired (or missing) parent or a missing TLD", namePut.Where(w))
			cx.decide(okTake, "ownership-change", "nns.Register/takeover-only-expired", "an existing record is taken over only with now ≥ its expiration established", "a registered, unexpired name can be taken over", relDel.Where(w))
			// D5 (C12): conflicting parent record is in C12
		}
	}
	if m := cx.method("nns", "Transfer"); m != nil {
		a := cx.run(m)
		tb := a.tb
		to, tok := paramTerm(tb, m, "to"), paramTerm(tb, m, "tokenID")
		nkey := tb.cat(tb.constBytes(pfxName), tb.mk("call", "native/crypto.Ripemd160", 0, tok))
		var namePut, notif *Site
		for _, s := range a.RealEffects() {
			if s.Effect == "put" && s.Args[1] == nkey {
				namePut = s
			}
			if notifyName(s) == "Transfer" {
				notif = s
			}
		}
		if namePut == nil || notif == nil {
			cx.violated("ownership-change", "nns.Transfer/shape", "Transfer no longer rewrites the name record and notifies", w.pos(m.Fn.Pos()))
		} else {
			v := unserialize(a.canonAt(namePut, namePut.Args[2]))
			X := tb.field(v, "Name")
			ok := X.Op == "field" && X.Name == "Name"
			if ok {
				rec := X.Args[0]
				k, isRec := recordOf(tb, rec)
				ok = isRec && k == nkey && tb.field(v, "Owner") == to && tb.field(v, "Admin").IsNil() && tb.field(v, "Expiration") == tb.field(rec, "Expiration")
				if ok {
					na := notifyArgs(notif)
					one := int64(0)
					if len(na) == 4 {
						one, _ = na[2].IntConst()
					}
					cx.decide(len(na) == 4 && na[0] == tb.field(rec, "Owner") && na[1] == to && one == 1 && na[3] == tok, "ownership-change", "nns.Transfer/Transfer/args", "Transfer(stored owner, to, 1, tokenID)", "the NEP-11 Transfer notification carries "+termList(na), notif.Where(w))
				}
			}
			cx.decide(ok, "ownership-change", "nns.Transfer/record", "stores the loaded record with Owner := to, Admin := nil", "transfer stores "+v.pretty()+": more than the owner changes, or the admin survives the transfer", namePut.Where(w))
			// emitted on every true path
			okT := !siteInLoop(notif)
			for _, ex := range a.Exits() {
				if len(ex.Results) == 1 {
					if bv, isC := ex.Results[0].BoolConst(); isC && bv && !a.holdsAt(ex.State, a.eLit(notif)) {
						okT = false
					}
					if bv, isC := ex.Results[0].BoolConst(); isC && !bv {
						for _, e := range a.RealEffects() {
							if !a.holdsAt(ex.State, -a.eLit(e)) {
								okT = false
							}
						}
					}
				}
			}
			callbackLast(cx, a, "nns.Transfer")
			// the record is rewritten on every successful transfer to another account
			{
				var sameLits []int32
				for id := int32(1); id < int32(len(a.lt.lits)); id++ {
					l := a.lt.lits[id]
					if l.Kind == KEq && (l.A == to || l.B == to) {
						sameLits = append(sameLits, id)
					}
				}
				okW := true
				for _, ex := range a.Exits() {
					if len(ex.Results) != 1 {
						continue
					}
					if bv, isC := ex.Results[0].BoolConst(); isC && !bv {
						continue
					}
					if !a.holdsAt(ex.State, append([]int32{a.eLit(namePut)}, sameLits...)...) {
						okW = false
					}
				}
				cx.decide(okW, "ownership-change", "nns.Transfer/written", "a successful transfer to another account has rewritten the record", "transfer can report success (and announce the transfer) without changing the owner", namePut.Where(w))
			}
			cx.decide(okT, "ownership-change", "nns.Transfer/Transfer/once", "one notification on every path returning true, no effect on paths returning false", "a transfer can succeed without (or fail with) its notification/effects", notif.Where(w))
		}
	}
	// D5 Renew
	for _, m := range c.Methods {
		if m.GoName != "Renew" {
			continue
		}
		a := cx.run(m)
		tb := a.tb
		years := paramTerm(tb, m, "years")
		var put, notif *Site
		for _, s := range a.RealEffects() {
			if s.Effect == "put" && keyFamily(s.Args[1]) == pfxName {
				put = s
			}
			if notifyName(s) == "Renew" {
				notif = s
			}
		}
		if put == nil || notif == nil {
			cx.violated("renew", "nns.Renew/shape", "Renew no longer stores the record and notifies", w.pos(m.Fn.Pos()))
			continue
		}
		cx.decide(a.holdsAt(put.In, -a.litLtC(years, 1)) && a.holdsAt(put.In, a.litLtC(years, 11)), "renew", "nns.Renew/years", "1 ≤ years ≤ 10 established", "renew accepts a period outside 1..10 years", put.Where(w))
		v := unserialize(a.canonAt(put, put.Args[2]))
		nm := tb.field(v, "Name")
		ok := nm.Op == "field"
		var rec *Term
		if ok {
			rec = nm.Args[0]
			year := int64(365 * 24 * 3600 * 1000)
			want := tb.binop(token.ADD, tb.field(rec, "Expiration"), tb.binop(token.MUL, years, tb.constInt(year), intType), intType)
			k, isRec := recordOf(tb, rec)
			ok = isRec && k == tb.cat(tb.constBytes(pfxName), tb.mk("call", "native/crypto.Ripemd160", 0, paramTerm(tb, m, "name"))) &&
				tb.field(v, "Expiration") == want && tb.field(v, "Owner") == tb.field(rec, "Owner") && tb.field(v, "Admin") == tb.field(rec, "Admin")
		}
		cx.decide(ok, "renew", "nns.Renew/record", "stores the loaded record with Expiration += 365·24·3600·1000·years", "renew stores "+v.pretty(), put.Where(w))
		if ok {
			// ten-year bound for non-TLD: fact ¬(now + 10y < newExp) or single fragment
			newExp := tb.field(v, "Expiration")
			ten := int64(10) * 365 * 24 * 3600 * 1000
			bound := tb.binop(token.ADD, tb.mk("call", "runtime.GetTime", 0), tb.constInt(ten), intType)
			okB := false
			var q []int32
			for id := int32(1); id < int32(len(a.lt.lits)); id++ {
				l := a.lt.lits[id]
				if l.Kind == KLt && l.A == bound && l.B == newExp {
					q = append(q, -id)
				}
				if l.Kind == KLtC && l.A.Op == "len" && l.C == 2 {
					// len(fragments) < 2, fragments of the same name
					fr := l.A.Args[0]
					if strings.Contains(fr.String(), "safeSplitAndCheck") || strings.Contains(fr.String(), "StringSplit") {
						q = append(q, id)
					}
				}
			}
			if len(q) > 0 && a.holdsAt(put.In, q...) {
				// and the bound alone must hold for multi-fragment names: the TLD exemption literal must exist
				okB = true
			}
			// converse: Renew's own code refuses only years outside 1 … 10, a name longer than 255
			// bytes or a renewal beyond the ten-year cap (faults of the name lookup and of the
			// authorisation are raised by the helpers it calls)
			{
				name := paramTerm(tb, m, "name")
				reasons := []int32{a.litLtC(years, 1), -a.litLtC(years, 11), -a.litLtC(a.litLen(name), 256)}
				for id := int32(1); id < int32(len(a.lt.lits)); id++ {
					l := a.lt.lits[id]
					if l.Kind == KLt && l.B.Op == "field" && l.B.Name == "Expiration" && l.A.contains(func(x *Term) bool { return isCall(x, "runtime.GetTime") }) {
						reasons = append(reasons, id)
					}
				}
				okAcc, nAcc := true, 0
				for _, b := range m.Fn.Blocks {
					if _, isPanic := b.Instrs[len(b.Instrs)-1].(*ssa.Panic); !isPanic {
						continue
					}
					for _, p := range b.Preds {
						if st := a.edgeState(tb.root, p, b); st != nil {
							nAcc++
							if !a.holdsAt(st, reasons...) {
								okAcc = false
							}
						}
					}
				}
				cx.decide(okAcc && nAcc > 0, "renew", "nns.Renew/accepts", "refuses only years outside 1 … 10, a name over 255 bytes or a renewal beyond the ten-year cap", "a renewal for 1 … 10 years inside the cap can be refused", put.Where(w))
			}
			cx.decide(okB, "renew", "nns.Renew/ten-years", "new expiration ≤ now + 10 years established unless the name is a TLD", "a non-TLD name can be renewed beyond ten years ahead", put.Where(w))
			na := notifyArgs(notif)
			cx.decide(len(na) == 3 && na[1] == tb.field(rec, "Expiration") && na[2] == newExp, "renew", "nns.Renew/notify", "Renew(name, old, new)", "Renew notification carries "+termList(na), notif.Where(w))
		}
	}
	// D4b RegisterTLD: one label, root marker written, only over an absent or expired TLD
	if m := cx.method("nns", "RegisterTLD"); m != nil {
		a := cx.run(m)
		tb := a.tb
		name := paramTerm(tb, m, "name")
		var rootPut, recPut *Site
		for _, s := range a.RealEffects() {
			if s.Effect == "put" && keyFamily(s.Args[1]) == pfxRoot {
				rootPut = s
			}
			if s.Effect == "put" && keyFamily(s.Args[1]) == pfxName {
				recPut = s
			}
		}
		if rootPut == nil || recPut == nil {
			cx.violated("ownership-change", "nns.RegisterTLD/shape", "registerTLD no longer writes the root marker and the name record", w.pos(m.Fn.Pos()))
		} else {
			okOne := false
			for _, f := range a.unitFacts(recPut.In) {
				if f.kind == KEqC && f.pos && f.C == 1 && f.A.Op == "len" && splitOf(a, f.A.Args[0], name) {
					okOne = true
				}
			}
			// absent or expired: Nil(read root marker) ∨ the liveness helper said "expired"
			var reasons []int32
			for id := int32(1); id < int32(len(a.lt.lits)); id++ {
				l := a.lt.lits[id]
				if l.Kind == KNil && l.A.Op == "read" && len(l.A.Args) > 0 && l.A.Args[0] == rootPut.Args[1] {
					reasons = append(reasons, id)
				}
				if l.Kind == KB && a.resultSite(l.A, fq(nnsParentExpiredFn(cx))) != nil {
					reasons = append(reasons, id)
				}
			}
			okFree := len(reasons) >= 2 && a.holdsAt(recPut.In, reasons...)
			cx.decide(okOne && rootPut.Args[1] == tb.cat(tb.constBytes(pfxRoot), name), "ownership-change", "nns.RegisterTLD/one-label", "stores the root marker 0x20‖name and the record only for a one-label name", "registerTLD accepts a name that is not a TLD (or marks another root)", recPut.Where(w))
			cx.decide(okFree, "ownership-change", "nns.RegisterTLD/free", "only over an absent or expired TLD", "registerTLD can overwrite a live TLD (its record and ownership are reset)", recPut.Where(w))
			cx.decide(executedAtEveryExit(a, rootPut, recPut), "ownership-change", "nns.RegisterTLD/written", "every normal return has written the root marker and the record", "registerTLD can return normally without the root marker (or the record): names under the TLD cannot be registered", rootPut.Where(w))
		}
	}
	// D6 boundary agreement
	checkExpiryBoundaries(cx)
	// D7 getters
	for _, g := range []string{"OwnerOf", "Properties"} {
		m := cx.method("nns", g)
		if m == nil {
			continue
		}
		a := cx.run(m)
		tb := a.tb
		tok := paramTerm(tb, m, "tokenID")
		nkey := tb.cat(tb.constBytes(pfxName), tb.mk("call", "native/crypto.Ripemd160", 0, tok))
		ok := true
		for _, ex := range a.Exits() {
			alive, parents := false, false
			for _, f := range a.unitFacts(ex.State) {
				if f.kind == KLt && f.pos && isCall(f.A, "runtime.GetTime") && f.B.Op == "field" && f.B.Name == "Expiration" {
					if k, isRec := recordOf(tb, f.B.Args[0]); isRec && k == nkey {
						alive = true
					}
				}
				if cs := a.resultSite(f.A, fq(nnsParentExpiredFn(cx))); f.kind == KB && !f.pos && cs != nil {
					if n, isC := cs.Args[1].IntConst(); isC && n == 1 {
						parents = true // asked from the directly enclosing name up
					}
				}
			}
			if !alive || !parents {
				ok = false
			}
		}
		cx.decide(ok, "getter-alive", "nns."+g, "returns only with now < expiration of the name and parents alive established", g+" can answer for an expired name or a name under an expired parent", w.pos(m.Fn.Pos()))
	}
	if fn := nnsParentExpiredFn(cx); fn != nil {
		// returns false only through the exhausted exit of its loop
		ok := true
		for _, b := range fn.Blocks {
			if r, isR := b.Instrs[len(b.Instrs)-1].(*ssa.Return); isR && len(r.Results) == 1 {
				if c, isC := r.Results[0].(*ssa.Const); isC && c.Value != nil && !constant.BoolVal(c.Value) {
					// block must be the exit target of a loop header
					isExit := false
					for _, p := range b.Preds {
						if isLoopHeader(p) && !loopBlocks(p)[b] {
							isExit = true
						}
					}
					if !isExit || len(b.Preds) != 1 {
						// or a fast path taken only when the loop would not run at all
						empty := false
						pa := cx.analyze(&Query{Name: "std", Root: fn})
						for _, h := range fn.Blocks {
							if isLoopHeader(h) && loopEmptyAt(pa, pa.tb.root, h, pa.in[Node{pa.tb.root, b, 0}]) {
								empty = true
							}
						}
						if !empty {
							ok = false
						}
					}
				}
			}
		}
		// the loop: from the last label down to `first`, one level per step; an iteration is completed
		// only with the level's record present and unexpired; true is returned only for a missing or
		// expired level
		{
			pa := cx.analyze(&Query{Name: "std", Root: fn})
			ptb := pa.tb
			var rd *Term
			for _, s := range pa.Sites(func(s *Site) bool { return s.Callee == "storage.Get" && keyFamily(s.Args[1]) == pfxName }) {
				rd = s.Val
			}
			var ltLit int32
			for id := int32(1); id < int32(len(pa.lt.lits)); id++ {
				l := pa.lt.lits[id]
				if l.Kind == KLt && l.A.contains(func(x *Term) bool { return isCall(x, "runtime.GetTime") }) && l.B.Op == "field" && l.B.Name == "Expiration" && rd != nil && l.B.Args[0].contains(func(x *Term) bool { return x == rd }) {
					ltLit = id
				}
			}
			okLoop, whyLoop := rd != nil && ltLit != 0, "the level record read or its expiry comparison is gone"
			if okLoop {
				whyLoop = ""
				nHdr := 0
				for _, h := range fn.Blocks {
					if !isLoopHeader(h) {
						continue
					}
					ifi, isIf := h.Instrs[len(h.Instrs)-1].(*ssa.If)
					if !isIf {
						continue
					}
					nHdr++
					ct := ptb.Term(ptb.root, ifi.Cond)
					// the loop variable runs from len(fragments)−1 down to `first` inclusive, whatever the
					// spelling of the test (i >= first, first <= i, i > first-1, …)
					good := false
					for _, ins := range h.Instrs {
						phi, isPhi := ins.(*ssa.Phi)
						if !isPhi || !isInteger(phi.Type()) {
							continue
						}
						k := ptb.Term(ptb.root, phi)
						start, step, cond, ok := loopVarOf(ptb, k)
						if !ok {
							continue
						}
						frs := fnParam(ptb, fn, 2)
						last := ptb.binop(token.SUB, ptb.mk("len", "", 0, frs), ptb.constInt(1), intType)
						if step == -1 && start == last && boundOf(ptb, k, cond, false) == fnParam(ptb, fn, 1) {
							good = true
						}
						// the same levels counted upwards: level = 0 … last − first, the label read being last − level
						if z, isZ := start.IntConst(); isZ && z == 0 && step == 1 && boundOf(ptb, k, cond, true) == ptb.binop(token.SUB, last, fnParam(ptb, fn, 1), intType) {
							good = true
						}
					}
					if !good {
						okLoop, whyLoop = false, "the loop does not run from the last label down to `first` ("+ct.pretty()+")"
					}
					for _, p := range h.Preds {
						if !h.Dominates(p) {
							continue
						}
						if st := pa.edgeState(ptb.root, p, h); st != nil && !(pa.holdsAt(st, -pa.litNil(rd)) && pa.holdsAt(st, ltLit)) {
							okLoop, whyLoop = false, "a level is passed although its record is missing or expired"
						}
					}
				}
				if nHdr != 1 {
					okLoop, whyLoop = false, "expected one loop over the levels"
				}
				for _, ex := range pa.Exits() {
					if len(ex.Results) != 1 {
						continue
					}
					r := ex.Results[0]
					q := []int32{pa.litNil(rd), -ltLit}
					if bv, isC := r.BoolConst(); isC {
						if !bv {
							continue
						}
					} else {
						q = append(q, -pa.litB(r))
					}
					if !pa.holdsAt(ex.State, q...) {
						okLoop, whyLoop = false, "'expired' can be answered although the level is present and unexpired"
					}
				}
			}
			cx.decide(okLoop, "getter-alive", "nns.parentExpired/levels", "every level from the last label down to `first` is read; a level is passed only when present and unexpired; 'expired' only for a missing or expired level", "parentExpired does not answer 'is some enclosing name missing or expired': "+whyLoop, w.pos(fn.Pos()))
		}
		cx.decide(ok, "getter-alive", "nns.parentExpired/exhaustive", "'not expired' is answered only after every level was checked", "parentExpired can answer 'alive' before every parent level was checked", w.pos(fn.Pos()))
	}
}

// checkExpiryBoundaries: DESIGN C10.D6.
func checkExpiryBoundaries(cx *CheckCtx) {
	w := cx.W
	p := w.ByPath[modPrefix+nnsPkg]
	if p == nil {
		return
	}
	sp := w.Prog.Package(p.Types)
	var fns []*ssa.Function
	for _, mem := range sp.Members {
		if f, ok := mem.(*ssa.Function); ok {
			fns = append(fns, f)
		}
	}
	for _, tn := range []string{"NameState"} {
		if t := sp.Type(tn); t != nil {
			ms := w.Prog.MethodSets.MethodSet(t.Type())
			for i := 0; i < ms.Len(); i++ {
				if f := w.Prog.MethodValue(ms.At(i)); f != nil {
					fns = append(fns, f)
				}
			}
		}
	}
	sort.Slice(fns, func(i, j int) bool { return fns[i].Pos() < fns[j].Pos() })
	n := 0
	for _, f := range fns {
		if f.Blocks == nil {
			continue
		}
		tb := newTermBuilder(w, f)
		for _, b := range f.Blocks {
			for _, ins := range b.Instrs {
				bo, ok := ins.(*ssa.BinOp)
				if !ok {
					continue
				}
				switch bo.Op {
				case token.LSS, token.LEQ, token.GTR, token.GEQ:
				default:
					continue
				}
				t := tb.Term(tb.root, bo)
				if t.Op != "bin" || len(t.Args) != 2 {
					continue
				}
				x, y := t.Args[0], t.Args[1]
				isNow := func(z *Term) bool { return isCall(z, "runtime.GetTime") }
				isExp := func(z *Term) bool { return z.Op == "field" && z.Name == "Expiration" }
				if !((isNow(x) && isExp(y)) || (isExp(x) && isNow(y))) {
					continue
				}
				n++
				// normalised operators: "<" and "<=" only
				good := (t.Name == "<" && isNow(x)) || (t.Name == "<=" && isExp(x))
				key := fmt.Sprintf("contracts/nns.%s/%s", f.Name(), map[bool]string{true: "now-vs-expiration"}[true])
				cx.decide(good, "expiry-boundary", key, "t == expiration is on the expired side ("+t.pretty()+")", "this comparison ("+t.pretty()+") puts t == expiration on the alive side while its sibling sites put it on the expired side: at that instant the name is both available and owned", w.pos(bo.Pos()))
			}
		}
	}
	cx.count("expiry_comparisons", n)
	cx.floor("expiry_comparisons", 4)
}

// ---------- C11 ----------

func runC11(cx *CheckCtx) {
	w := cx.W
	nnsTransferResetsAdmin(cx, "transfer-resets-admin")
	nnsRegisterStartsWithoutAdmin(cx, "register-without-admin")
	// "on behalf of an owner who witnesses the transaction", "only with the witness of its owner or admin":
	// the documented gates of the NNS mutators (the T-witness rows, shared with C03)
	for _, name := range []string{"Register", "RegisterTLD", "Transfer", "SetAdmin", "Renew", "RenewDefault", "AddRecord", "SetRecord", "DeleteRecords", "UpdateSOA"} {
		if m := cx.method("nns", name); m != nil {
			gateRule(cx, m)
		}
	}
	// … and the token whose owner/admin is asked is the right one: the longest registered, unexpired
	// enclosing name (shared with C12)
	checkRecordOwner(cx)
	c := cx.contract("nns")
	if c == nil {
		return
	}
	n := 0
	for _, m := range c.Methods {
		switch m.GoName {
		case "AddRecord", "SetRecord", "DeleteRecords", "UpdateSOA", "Renew", "RenewDefault":
		default:
			continue
		}
		a := cx.run(m)
		for _, s := range a.RealEffects() {
			skey := "nns." + m.GoName + "/" + siteConstruct(a, s)
			var T *Term
			if isStore(s) {
				ps := keyParts(s.Args[1])
				switch keyFamily(s.Args[1]) {
				case pfxRecord, pfxName:
					if len(ps) >= 2 {
						T = ripemdArg(ps[1])
					}
				}
				if T == nil && s.Effect == "delete" && s.Args[1].Op == "iterval" && s.Args[1].Args[0].Op == "find" {
					fp := keyParts(s.Args[1].Args[0].Args[0])
					if len(fp) >= 2 {
						T = ripemdArg(fp[1])
					}
				}
			}
			if T == nil {
				if s.Effect == "notify" {
					// notifications ride with the stores of the same method; gate them by any name of the method
					lits := witnessLits(a, []string{"MAJ", "OWNER:*", "ADMIN:*"})
					ok, _ := gated(a, s, lits)
					cx.decide(ok, "subject-agreement", skey, "gated by the admin formula", "notification without the admin formula", s.Where(w))
					continue
				}
				cx.undecided("subject-agreement", skey, "cannot read the token id out of the key "+s.Args[1].pretty(), s.Where(w))
				continue
			}
			n++
			// for Renew the record is re-keyed by the loaded Name field: the subject is the name that was looked up
			subj := T
			if T.Op == "field" && T.Name == "Name" {
				if k, isRec := recordOf(a.tb, T.Args[0]); isRec {
					if kp := keyParts(k); len(kp) == 2 {
						if x := ripemdArg(kp[1]); x != nil {
							subj = x
						}
					}
				}
			}
			if cs := a.resultSite(subj, fq(nnsTokenIDFromNameFn(cx))); m.GoName == "UpdateSOA" && cs != nil {
				// the record is keyed by tokenIDFromName(name); UpdateSOA has just read the name's own
				// record alive (getNameState(name)), so the longest registered suffix found by
				// tokenIDFromName in its first iteration is name itself
				if len(cs.Args) == 2 {
					subj = cs.Args[1]
				}
			}
			allowed := []string{"MAJ", "OWNER:" + subj.pretty(), "ADMIN:" + subj.pretty()}
			ok, ex := gated(a, s, witnessLits(a, allowed))
			detail := ""
			if !ok {
				detail = m.GoName + " changes a record of token " + subj.pretty() + " (" + effectDesc(a, s) + ") without the witness of that token's owner/admin (or the committee)"
				if ex != nil {
					detail += "; path to the exit at " + exitPos(w, ex)
				}
			}
			cx.decide(ok, "subject-agreement", skey, "gated by committee ∨ owner("+subj.pretty()+") ∨ admin("+subj.pretty()+")", detail, s.Where(w))
		}
	}
	cx.count("record_effects", n)
	cx.floor("record_effects", 8)
	// checkAdmin itself: owner empty ⇒ committee; else owner ∨ admin
	if fn := cx.locate(nnsPkg, "NameState.checkAdmin", "tests two witnesses (owner, admin) itself", func(f *ssa.Function) bool { return directCallees(f)["runtime.CheckWitness"] >= 2 }); fn != nil {
		a := cx.analyze(&Query{Name: "std", Root: fn})
		tb := a.tb
		n0 := fnParam(tb, fn, 0)
		own, adm := tb.field(n0, "Owner"), tb.field(n0, "Admin")
		ok := true
		for _, ex := range a.Exits() {
			// (owner empty ∧ committee) ∨ W(owner) ∨ W(admin)
			maj := witnessLits(a, []string{"MAJ"})
			if !a.holdsAt(ex.State, append([]int32{a.litW(own), a.litW(adm)}, maj...)...) {
				ok = false
			}
			// committee suffices only when the owner is empty
			if !a.holdsAt(ex.State, a.litW(own), a.litW(adm), a.litEqC(a.litLen(own), 0)) {
				ok = false
			}
		}
		cx.decide(ok, "admin-formula", "nns.NameState.checkAdmin", "returns only under W(owner) ∨ W(admin) ∨ (owner empty ∧ committee majority)", "checkAdmin can return without the owner's or admin's witness for an owned name", w.pos(fn.Pos()))
	}
	// transfer / setAdmin / register
	if m := cx.method("nns", "Transfer"); m != nil {
		a := cx.run(m)
		allowed := []string{"OWNER:" + paramTerm(a.tb, m, "tokenID").pretty()}
		for _, s := range a.RealEffects() {
			ok, _ := gated(a, s, witnessLits(a, allowed))
			cx.decide(ok, "subject-agreement", "nns.Transfer/"+siteConstruct(a, s), "gated by the owner of the transferred token", "a token can be transferred without the witness of its recorded owner", s.Where(w))
		}
	}
	if m := cx.method("nns", "SetAdmin"); m != nil {
		a := cx.run(m)
		tb := a.tb
		allowed := []string{"OWNER:" + paramTerm(tb, m, "name").pretty()}
		adm := paramTerm(tb, m, "admin")
		nAdminPut := 0
		for _, s := range a.RealEffects() {
			ok, _ := gated(a, s, witnessLits(a, allowed))
			ok2, _ := gated(a, s, []int32{a.litNil(adm), a.litW(adm)})
			cx.decide(ok, "subject-agreement", "nns.SetAdmin/"+siteConstruct(a, s)+"/owner", "gated by the owner of the name", "an admin can be appointed without the owner's witness", s.Where(w))
			cx.decide(ok2, "subject-agreement", "nns.SetAdmin/"+siteConstruct(a, s)+"/admin", "a non-nil admin must witness", "an admin can be appointed without the new admin's witness", s.Where(w))
		}
		// the stored record: loaded with Admin := admin
		for _, s := range a.RealEffects() {
			if s.Effect == "put" && keyFamily(s.Args[1]) == pfxName {
				v := unserialize(a.canonAt(s, s.Args[2]))
				o := tb.field(v, "Owner")
				ok := tb.field(v, "Admin") == adm && o.Op == "field" && o.Name == "Owner"
				cx.decide(ok, "subject-agreement", "nns.SetAdmin/record", "stores the loaded record with Admin := admin", "setAdmin stores "+v.pretty(), s.Where(w))
				cx.decide(executedAtEveryExit(a, s), "subject-agreement", "nns.SetAdmin/written", "every normal return has stored the record", "setAdmin can return normally without storing the new admin", s.Where(w))
				nAdminPut++
			}
		}
		if nAdminPut == 0 {
			cx.violated("subject-agreement", "nns.SetAdmin/written", "setAdmin no longer stores the record", w.pos(m.Fn.Pos()))
		}
	}
	if m := cx.method("nns", "Register"); m != nil {
		a := cx.run(m)
		tb := a.tb
		name := paramTerm(tb, m, "name")
		// parent = name[len(fragments[0])+1:]
		var frag *Term
		for id := 1; id < len(a.lt.lits); id++ {
			l := a.lt.lits[id]
			if l.Kind == KLtC && l.A != nil && l.A.Op == "len" && l.C == 3 {
				frag = l.A.Args[0]
			}
		}
		if frag == nil {
			cx.violated("parent-admin", "nns.Register", "Register no longer distinguishes names of level > 2", w.pos(m.Fn.Pos()))
		} else {
			parent := tb.mk("slice", "", 0, name, tb.binop(token.ADD, tb.mk("len", "", 0, tb.mk("index", "", 0, frag, tb.constInt(0))), tb.constInt(1), intType), tb.mk("none", "", 0))
			allowed := []string{"MAJ", "OWNER:" + parent.pretty(), "ADMIN:" + parent.pretty()}
			lits := append(witnessLits(a, allowed), a.litLtC(tb.mk("len", "", 0, frag), 3))
			okAll := true
			for _, s := range a.RealEffects() {
				if ok, _ := gated(a, s, lits); !ok {
					okAll = false
				}
			}
			fromName := false
			for _, alt := range tb.Alts(frag) {
				if strings.Contains(alt.String(), name.String()) {
					fromName = true
				}
			}
			cx.decide(okAll && fromName, "parent-admin", "nns.Register", "level > 2 ⇒ committee ∨ owner/admin of the name without its first label", "a name of third level or deeper can be registered without the witness of the owner/admin of the directly enclosing name ("+parent.pretty()+")", w.pos(m.Fn.Pos()))
		}
	}
}

// ---------- C12 ----------

func recordKeyOK(tb *TermBuilder, k *Term, nparts int) bool {
	ps := keyParts(k)
	if len(ps) != nparts {
		// the trailing bytes may have been merged into one constant
		if !(len(ps) == nparts-1 && nparts == 5) {
			return false
		}
	}
	if s, ok := ps[0].BytesConst(); !ok || s != pfxRecord {
		return false
	}
	if len(ps) > 1 && ripemdArg(ps[1]) == nil {
		return false
	}
	if len(ps) > 2 && ripemdArg(ps[2]) == nil {
		return false
	}
	if len(ps) < 3 {
		return true
	}
	for _, p := range ps[3:] {
		if p.Op == "byte" {
			continue
		}
		if s, ok := p.BytesConst(); ok && len(s) <= 2 {
			continue
		}
		return false
	}
	return true
}

func runC12(cx *CheckCtx) {
	w := cx.W
	const (
		typCNAME = 5
		typSOA   = 6
	)
	soaKeyFor := func(tb *TermBuilder, T *Term) *Term {
		h := tb.mk("call", "native/crypto.Ripemd160", 0, T)
		return tb.cat(tb.constBytes(pfxRecord), h, h, tb.constBytes("\x06\x00"))
	}
	// ---- AddRecord
	if m := cx.method("nns", "AddRecord"); m != nil {
		a := cx.run(m)
		tb := a.tb
		typ := paramTerm(tb, m, "typ")
		var put, soa *Site
		for _, s := range a.RealEffects() {
			if s.Effect == "put" && keyFamily(s.Args[1]) == pfxRecord && !isSoaKey(s.Args[1]) {
				put = s
			}
			if s.Effect == "put" && keyFamily(s.Args[1]) == pfxRecord && isSoaKey(s.Args[1]) {
				soa = s
			}
		}
		if put == nil || soa == nil {
			cx.violated("record-add", "nns.AddRecord/shape", "AddRecord no longer stores a record and refreshes the SOA", w.pos(m.Fn.Pos()))
		} else {
			ps := keyParts(put.Args[1])
			okK := recordKeyOK(tb, put.Args[1], 5) && len(ps) == 5 && ps[3] == tb.byteOf(typ) && ps[4].Op == "byte" && ripemdArg(ps[2]) == paramTerm(tb, m, "name")
			cx.decide(okK, "record-key", "nns.AddRecord/key", "0x22‖hash(token)‖hash(name)‖type‖id", "the record key is "+put.Args[1].pretty(), put.Where(w))
			if okK {
				id := ps[4].Args[0]
				cx.decide(a.holdsAt(put.In, a.litLtC(id, 16)), "record-add", "nns.AddRecord/limit", "id ≤ 15 established at the store", "a 17th record of one type can be stored", put.Where(w))
				// … and "at most 16" means sixteen can be had: a fault decided on the count alone is raised only
				// for id ≥ 16 (or, for a CNAME, for id ≥ 1)
				if nl, okL := panicOnlyIf(a, m.Fn, id, nil, -a.litLtC(id, 16), a.litEqC(typ, typCNAME)); nl > 0 {
					cx.decide(okL, "record-add", "nns.AddRecord/limit-reached", "refused for the number of records only from the 17th on (a second CNAME excepted)", "a record can be refused for 'too many records' although fewer than 16 of its type exist: the documented capacity of 16 values per name and type is not available", put.Where(w))
				}
				cx.decide(a.holdsAt(put.In, -a.litEqC(typ, typCNAME), a.litEqC(id, 0)), "record-add", "nns.AddRecord/cname", "CNAME ⇒ id == 0 established", "a second CNAME record can be stored", put.Where(w))
				// id counts existing records of the scan of (token, name, type)
				okId := id.Op == "phi"
				if okId {
					zero, inc := false, false
					for _, al := range tb.Alts(id) {
						if n, isC := al.IntConst(); isC && n == 0 {
							zero = true
						} else if al == tb.binop(token.ADD, id, tb.constInt(1), intType) {
							inc = true
						} else {
							okId = false
						}
					}
					okId = okId && zero && inc
				}
				pre := tb.cat(ps[:4]...)
				// distinct values: the store is reached only after the data was compared with the data of
				// every record of the scan and found different
				if blk := frameBlock(put, tb.root); blk != nil {
					var dataV ssa.Value
					for i, p := range m.Fn.Params {
						if paramTerm(tb, m, "data") == fnParam(tb, m.Fn, i) {
							dataV = p
						}
					}
					okDist, memIf, _ := membershipGuard(m.Fn, func(v ssa.Value) bool { return dataV != nil && v == dataV }, blk)
					where := put.Where(w)
					if memIf != nil {
						where = w.pos(memIf.Cond.Pos())
					}
					// … and the duplicate fault is reached on the *equal* side of every comparison that gates
					// it: `r.Name != name && … && r.Data == data` never fires for the records of the scan
					// (they all carry the name and type they were found under), so duplicates would pass
					if okDist && memIf != nil {
						if hdr := innermostLoop(memIf.Block()); hdr != nil {
							in := loopBlocks(hdr)
							var rejects []*ssa.BasicBlock
							for _, pb := range m.Fn.Blocks {
								if _, isPanic := pb.Instrs[len(pb.Instrs)-1].(*ssa.Panic); !isPanic {
									continue
								}
								for _, sd := range []int{0, 1} {
									if viaEdge(memIf.Block(), sd, pb) {
										rejects = append(rejects, pb)
									}
								}
							}
							for g := range in {
								gi, isIf := g.Instrs[len(g.Instrs)-1].(*ssa.If)
								if !isIf {
									continue
								}
								bo, isB := gi.Cond.(*ssa.BinOp)
								if !isB || (bo.Op != token.EQL && bo.Op != token.NEQ) {
									continue
								}
								eqSide := 0
								if bo.Op == token.NEQ {
									eqSide = 1
								}
								for _, rb := range rejects {
									if viaEdge(g, 1-eqSide, rb) {
										okDist = false
										where = w.pos(bo.Pos())
									}
								}
							}
						}
					}
					cx.decide(okDist, "record-add", "nns.AddRecord/distinct", "the record is stored only after its data was compared with every existing record of the type and found different", "a value that is already recorded for the name and type can be added again (the duplicate test is missing, inverted or does not cover every record)", where)
				}
				cx.decide(executedAtEveryExit(a, put), "record-add", "nns.AddRecord/always", "every normal return has stored the record", "addRecord can return normally without storing the submitted record", put.Where(w))
				cx.decide(okId && findSite(a, pre) != nil, "record-add", "nns.AddRecord/id", "id = number of records found by the scan of the same (token, name, type)", "the id of a new record is not the count of existing records of that (token, name, type): records overwrite each other or leave gaps", put.Where(w))
				v := unserialize(put.Args[2])
				cx.decide(tb.field(v, "Name") == paramTerm(tb, m, "name") && tb.field(v, "Type") == typ && tb.field(v, "Data") == paramTerm(tb, m, "data") && tb.field(v, "ID") == id, "record-add", "nns.AddRecord/value", "stores {name, type, data, id}", "the stored record is "+v.pretty(), put.Where(w))
				T := ripemdArg(ps[1])
				cx.decide(soa.Args[1] == soaKeyFor(tb, T), "soa-refresh", "nns.AddRecord/soa-key", "refreshes the SOA of the same token", "the SOA refreshed is "+soa.Args[1].pretty()+", not that of the token the record belongs to", soa.Where(w))
			}
			okS := true
			for _, ex := range a.Exits() {
				if !a.holdsAt(ex.State, a.eLit(soa)) {
					okS = false
				}
			}
			cx.decide(okS, "soa-refresh", "nns.AddRecord", "every normal path refreshes the SOA serial", "a record can be added without refreshing the SOA serial", soa.Where(w))
		}
	}
	// ---- SetRecord
	if m := cx.method("nns", "SetRecord"); m != nil {
		a := cx.run(m)
		tb := a.tb
		var put, soa *Site
		for _, s := range a.RealEffects() {
			if s.Effect == "put" && keyFamily(s.Args[1]) == pfxRecord && !isSoaKey(s.Args[1]) {
				put = s
			}
			if s.Effect == "put" && keyFamily(s.Args[1]) == pfxRecord && isSoaKey(s.Args[1]) {
				soa = s
			}
		}
		if put == nil || soa == nil {
			cx.violated("record-set", "nns.SetRecord/shape", "SetRecord no longer stores a record and refreshes the SOA", w.pos(m.Fn.Pos()))
		} else {
			ps := keyParts(put.Args[1])
			okK := recordKeyOK(tb, put.Args[1], 5) && len(ps) == 5 && ps[4] == tb.byteOf(paramTerm(tb, m, "id")) && ps[3] == tb.byteOf(paramTerm(tb, m, "typ"))
			cx.decide(okK, "record-key", "nns.SetRecord/key", "0x22‖hash(token)‖hash(name)‖type‖id with the submitted id", "the record key is "+put.Args[1].pretty(), put.Where(w))
			okP := false
			for _, f := range a.unitFacts(put.In) {
				if f.kind == KNil && !f.pos && f.A.Op == "read" && f.A.Args[0] == put.Args[1] {
					okP = true
				}
			}
			cx.decide(okP, "record-set", "nns.SetRecord/replace-only", "the record with that id was read as present", "setRecord can create a record at an arbitrary id instead of replacing an existing one", put.Where(w))
			// presence: a successful setRecord has replaced the record (no "same value, nothing to do" return)
			cx.decide(executedAtEveryExit(a, put), "record-set", "nns.SetRecord/always", "every normal return has stored the record", "setRecord can return normally without storing the submitted record", put.Where(w))
			okS := true
			for _, ex := range a.Exits() {
				if !a.holdsAt(ex.State, a.eLit(soa)) {
					okS = false
				}
			}
			cx.decide(okS && len(ps) > 1 && soa.Args[1] == soaKeyFor(tb, ripemdArg(ps[1])), "soa-refresh", "nns.SetRecord", "every normal path refreshes the SOA serial of the same token", "a record can be replaced without refreshing the SOA serial of its token", soa.Where(w))
		}
	}
	// ---- DeleteRecords
	if m := cx.method("nns", "DeleteRecords"); m != nil {
		a := cx.run(m)
		tb := a.tb
		typ := paramTerm(tb, m, "typ")
		var del, soa *Site
		for _, s := range a.RealEffects() {
			if s.Effect == "delete" {
				del = s
			}
			if s.Effect == "put" && keyFamily(s.Args[1]) == pfxRecord && isSoaKey(s.Args[1]) {
				soa = s
			}
		}
		if del == nil || soa == nil {
			cx.violated("record-delete", "nns.DeleteRecords/shape", "DeleteRecords no longer deletes scanned records and refreshes the SOA", w.pos(m.Fn.Pos()))
		} else {
			cx.decide(a.holdsAt(del.In, -a.litEqC(typ, typSOA)) && a.holdsAt(soa.In, -a.litEqC(typ, typSOA)), "record-delete", "nns.DeleteRecords/not-soa", "type ≠ SOA established", "SOA records can be deleted", del.Where(w))
			okD := del.Args[1].Op == "iterval" && del.Args[1].Args[0].Op == "find"
			var T *Term
			if okD {
				pre := del.Args[1].Args[0].Args[0]
				ps := keyParts(pre)
				okD = recordKeyOK(tb, pre, 4) && len(ps) == 4 && ps[3] == tb.byteOf(typ) && ripemdArg(ps[2]) == paramTerm(tb, m, "name")
				if fl, isC := del.Args[1].Args[0].Args[1].IntConst(); !isC || fl != 1 {
					okD = false
				}
				if okD {
					T = ripemdArg(ps[1])
				}
			}
			cx.decide(okD, "record-delete", "nns.DeleteRecords/keys", "deletes exactly the keys of the scan of (token, name, type)", "deleteRecords does not delete exactly the records of the requested name and type", del.Where(w))
			okL, _ := everyElement(a, del, nil)
			cx.decide(okL, "record-delete", "nns.DeleteRecords/all", "the loop ends only on exhaustion", "some records of the type can survive deleteRecords", del.Where(w))
			okS := T != nil && soa.Args[1] == soaKeyFor(tb, T)
			for _, ex := range a.Exits() {
				if !a.holdsAt(ex.State, a.eLit(soa)) {
					okS = false
				}
			}
			cx.decide(okS, "soa-refresh", "nns.DeleteRecords", "every normal path refreshes the SOA serial of the same token", "records can be deleted without refreshing the SOA serial of their token", soa.Where(w))
		}
	}
	// updateSoaSerial: replaces only the serial field
	// ---- D4 resolve budget
	resolveFn := cx.locate(nnsPkg, "resolve", "calls itself (the CNAME chase)", func(f *ssa.Function) bool { return directCallees(f)[fq(f)] > 0 })
	resolveName := fq(resolveFn)
	if m := cx.method("nns", "Resolve"); m != nil && resolveFn != nil {
		a := cx.run(m)
		okB := false
		for _, s := range a.Sites(func(s *Site) bool { return s.Inlined && s.Callee == resolveName }) {
			if n, isC := s.Args[len(s.Args)-1].IntConst(); isC && n == 2 && s.Ctx.parent == nil {
				okB = true
			}
		}
		cx.decide(okB, "redirect-budget", "nns.Resolve", "starts with budget 2", "Resolve does not start the CNAME chase with a budget of two redirects", w.pos(m.Fn.Pos()))
	}
	if fn := resolveFn; fn != nil {
		a := cx.analyze(&Query{Name: "std", Root: fn})
		tb := a.tb
		red := fnParam(tb, fn, len(fn.Params)-1)
		okN := true
		for _, ex := range a.Exits() {
			if !a.holdsAt(ex.State, -a.litLtC(red, 0)) {
				okN = false
			}
		}
		okR := false
		nRec := 0
		for _, s := range a.Sites(func(s *Site) bool { return !s.Inlined && s.Callee == resolveName }) {
			nRec++
			if s.Args[len(s.Args)-1] == tb.binop(token.SUB, red, tb.constInt(1), intType) {
				okR = true
			} else {
				okR = false
				break
			}
		}
		cx.decide(okN, "redirect-budget", "nns.resolve/negative", "a negative budget cannot return", "resolve returns with a negative redirect budget: chains of any length (and cycles) are followed", w.pos(fn.Pos()))
		// own records first: the alias is followed only after the scan of the name's own records
		// is exhausted (the recursive call is not inside the record loop)
		okOwn := nRec == 1
		for _, s := range a.Sites(func(s *Site) bool { return !s.Inlined && s.Callee == resolveName }) {
			if siteInLoop(s) {
				okOwn = false
			}
		}
		cx.decide(okOwn, "resolve-order", "nns.resolve/own-first", "the CNAME is followed after the loop over the name's own records", "resolve follows the CNAME from inside the loop over the name's records: records reached through the alias are returned before (or between) the name's own", w.pos(fn.Pos()))
		cx.decide(okR && nRec == 1, "redirect-budget", "nns.resolve/decrement", "the recursive call passes budget − 1", "the redirect budget is not decremented by one per CNAME link", w.pos(fn.Pos()))
		// follows the CNAME only for non-CNAME queries, returns accumulated results: value-level, not checked
	}
	// ---- D5 conflicting parent record
	conflictFn := cx.locate(nnsPkg, "getParentConflictingRecord", "searches record names for a suffix itself", func(f *ssa.Function) bool { return directCallees(f)["native/std.MemorySearchLastIndex"] > 0 })
	if m := cx.method("nns", "Register"); m != nil {
		a := cx.run(m)
		tb := a.tb
		var namePut *Site
		for _, s := range a.RealEffects() {
			if s.Effect == "put" && keyFamily(s.Args[1]) == pfxName {
				namePut = s
			}
		}
		ok := false
		if namePut != nil {
			for _, f := range a.unitFactsRaw(namePut.In) {
				if f.kind == KEqC && f.pos && f.C == 0 && f.A.Op == "len" && a.resultSite(f.A.Args[0], fq(conflictFn)) != nil {
					ok = true
				}
			}
		}
		cx.decide(ok, "parent-conflict", "nns.Register", "registers only with 'no conflicting parent record' established", "a name can be registered while its parent holds records for sub-names of it", w.pos(m.Fn.Pos()))
		_ = tb
	}
	checkParentConflictHelper(cx, conflictFn)
	// ---- D7 records become unreachable when the name expires: a read-only getter scans the
	// records of token T only with "now < expiration of T" and "no enclosing name expired" established
	{
		type root struct {
			name string
			fn   *ssa.Function
		}
		var roots []root
		for _, g := range []string{"GetRecords", "GetAllRecords"} {
			if m := cx.method("nns", g); m != nil {
				roots = append(roots, root{"nns." + g, m.Fn})
			}
		}
		if resolveFn != nil {
			roots = append(roots, root{"nns.resolve", resolveFn})
		}
		pexp := fq(nnsParentExpiredFn(cx))
		nScan := 0
		for _, r := range roots {
			a := cx.analyze(&Query{Name: "std", Root: r.fn})
			tb := a.tb
			for _, s := range a.Sites(func(s *Site) bool { return s.Callee == "storage.Find" && keyFamily(s.Args[1]) == pfxRecord }) {
				ps := keyParts(s.Args[1])
				if len(ps) < 2 || ripemdArg(ps[1]) == nil {
					continue
				}
				nScan++
				T := a.Canon(s.In, ripemdArg(ps[1]))
				alive, parents := false, false
				for _, f := range a.unitFacts(s.In) {
					if f.kind == KLt && f.pos && isCall(f.A, "runtime.GetTime") && f.B.Op == "field" && f.B.Name == "Expiration" {
						if k, isRec := recordOf(tb, f.B.Args[0]); isRec {
							if kp := keyParts(k); len(kp) == 2 && kp[0] == tb.constBytes(pfxName) && ripemdArg(kp[1]) != nil && a.Canon(s.In, ripemdArg(kp[1])) == T {
								alive = true
							}
						}
					}
					if cs := a.resultSite(f.A, pexp); f.kind == KB && !f.pos && cs != nil {
						if n, isC := cs.Args[1].IntConst(); isC && n == 1 {
							parents = true
						}
					}
				}
				cx.decide(alive && parents, "record-getter-alive", r.name+"/"+siteConstruct(a, s), "records of "+T.pretty()+" are scanned only with its own and its parents' liveness established", r.name+" reads the records of "+T.pretty()+" without establishing now < its expiration (and live parents): records of an expired name stay reachable", s.Where(w))
			}
		}
		cx.count("getter_record_scans", nScan)
		cx.floor("getter_record_scans", 3)
	}
	checkRecordOwner(cx)
	// ---- D9 type filters: wherever records of a scan are collected under a test of their type
	// against the requested type, the collecting append sits on the "equal" side of that test
	if p := w.ByPath[modPrefix+nnsPkg]; p != nil {
		nFil := 0
		for _, f := range allFuncs(w.Prog.Package(p.Types)) {
			if f.Blocks == nil || f.Parent() != nil {
				continue
			}
			for _, b := range f.Blocks {
				ifi, isIf := b.Instrs[len(b.Instrs)-1].(*ssa.If)
				if !isIf {
					continue
				}
				bo, isB := ifi.Cond.(*ssa.BinOp)
				if !isB || (bo.Op != token.EQL && bo.Op != token.NEQ) {
					continue
				}
				var item ssa.Value
				isTypeField := func(v ssa.Value) bool {
					u, ok := stripConv(v).(*ssa.UnOp)
					if !ok || u.Op != token.MUL {
						return false
					}
					fa, ok := u.X.(*ssa.FieldAddr)
					if !ok || fieldName(fa.X.Type(), fa.Field) != "Type" {
						return false
					}
					it, found := elementOf(u)
					item = it
					return found
				}
				_, xIsParam := stripConv(bo.X).(*ssa.Parameter)
				_, yIsParam := stripConv(bo.Y).(*ssa.Parameter)
				if !(isTypeField(bo.X) && yIsParam || isTypeField(bo.Y) && xIsParam) {
					continue
				}
				eqSide := 0
				if bo.Op == token.NEQ {
					eqSide = 1
				}
				// appends of (a field of) the same item inside the same loop
				hdr := innermostLoop(b)
				if hdr == nil {
					continue
				}
				for lb := range loopBlocks(hdr) {
					for _, ins := range lb.Instrs {
						c, isC := ins.(*ssa.Call)
						if !isC {
							continue
						}
						_, elems, isApp := appendOf(c)
						if !isApp || len(elems) != 1 {
							continue
						}
						if it, found := elementOf(elems[0]); !found || it != item {
							continue
						}
						nFil++
						cx.decide(viaEdge(b, eqSide, lb), "record-filter", fq(f), "records are collected on the 'type equals the requested type' side of the test", fq(f)+" collects records whose type differs from the requested one (the type test guards the wrong side)", w.pos(c.Pos()))
					}
				}
			}
		}
		cx.count("type_filters", nFil)
		cx.floor("type_filters", 2)
	}
	// ---- D6 scans are over fixed-width prefixes of the record family
	if c := cx.contract("nns"); c != nil {
		n := 0
		for _, m := range c.Methods {
			a := cx.run(m)
			for _, s := range a.Sites(func(s *Site) bool { return s.Callee == "storage.Find" && keyFamily(s.Args[1]) == pfxRecord }) {
				n++
				ps := keyParts(s.Args[1])
				cx.decide(recordKeyOK(tb0(a), s.Args[1], len(ps)) && len(ps) >= 2 && len(ps) <= 4, "record-key", "nns."+m.GoName+"/"+siteConstruct(a, s), "scan prefix is a whole-component prefix of the fixed-width record key", "a record scan uses the prefix "+s.Args[1].pretty()+" which is not made of whole fixed-width components: it enumerates records of other names/types", s.Where(w))
			}
		}
		cx.count("record_scans", n)
		cx.floor("record_scans", 5)
	}
}

func tb0(a *Analysis) *TermBuilder { return a.tb }

// ---------- C18 ----------

func runC18(cx *CheckCtx) {
	w := cx.W
	// "addRecord/setRecord accept exactly well-formed data": a well-formed record for a name below an expired
	// intermediate level is filed under the next live suffix, not refused — the level rules of the helper that
	// finds the governing token (shared with C11/C12)
	checkRecordOwner(cx)
	safeFn := nnsSafeSplitFn(cx)
	if safeFn == nil {
		return
	}
	safeName := fq(safeFn)
	var fragFn *ssa.Function
	// the methods' own length tests (if any) agree with the validator: a fault decided by the length of
	// the name in the method body is raised only outside 3 … 255 — 255 itself is a valid length
	for _, g := range []string{"Register", "RegisterTLD", "IsAvailable"} {
		m := cx.method("nns", g)
		if m == nil {
			continue
		}
		a := cx.run(m)
		ln := a.litLen(paramTerm(a.tb, m, "name"))
		np, okP := panicOnlyIf(a, m.Fn, ln, nil, a.litLtC(ln, 3), -a.litLtC(ln, 256))
		cx.decide(okP, "limits", "nns."+g+"/own-length-test", fmt.Sprintf("%d length-decided faults in the method body, each only outside 3 … 255", np), g+" refuses, by a length test of its own, a name whose length is inside 3 … 255 (the bound disagrees with the validator): syntactically valid names of that length are turned away", w.pos(m.Fn.Pos()))
	}
	// D1 names: first effect only after splitAndCheck accepted the name
	for _, g := range []struct{ name, param string }{{"Register", "name"}, {"RegisterTLD", "name"}} {
		m := cx.method("nns", g.name)
		if m == nil {
			continue
		}
		a := cx.run(m)
		tb := a.tb
		nm := paramTerm(tb, m, g.param)
		ok := true
		n := 0
		for _, s := range a.RealEffects() {
			n++
			if !validatedAt(a, s.In, nm, safeName) {
				ok = false
			}
		}
		cx.decide(ok && n > 0, "validate-first", "nns."+g.name, "every effect is preceded by safeSplitAndCheck(name) returning no error", g.name+" can change state for a name that was not validated", w.pos(m.Fn.Pos()))
		// … and a valid name is not refused by the storage layer: a key may be at most 64 bytes, a valid
		// name up to 255. No storage key written on the way carries the name (or a part of it that is not
		// bounded by validation) as it is: every variable component is a hash, a single byte, or a value
		// with an established length of at most 40 bytes
		okKeys, whyKeys := true, ""
		nKeys := 0
		if g.name != "Register" {
			continue // a TLD is one root label (≤ 16 bytes by validation): its key carries it as it is
		}
		for _, s := range a.RealEffects() {
			if !isStore(s) {
				continue
			}
			nKeys++
			total := int64(0)
			for _, part := range keyParts(s.Args[1]) {
				switch {
				case part.Op == "const":
					if b, isB := part.BytesConst(); isB {
						total += int64(len(b))
					}
				case isCall(part, "native/crypto.Ripemd160"):
					total += 20
				case isCall(part, "native/crypto.Sha256"):
					total += 32
				case part.Op == "byte":
					total++
				case a.holdsAt(s.In, a.litEqC(a.litLen(part), 20)):
					total += 20
				case part.Op == "field" && part.contains(func(x *Term) bool { return x.Op == "read" }):
					total += 20 // a field of a stored record (an owner): validated when it was stored
				case a.holdsAt(s.In, a.litLtC(a.litLen(part), 17)):
					total += 16
				default:
					okKeys, whyKeys = false, "the key "+s.Args[1].pretty()+" carries "+part.pretty()+" with no bound on its length"
				}
			}
			if total > 64 {
				okKeys, whyKeys = false, fmt.Sprintf("the key %s can be %d bytes long", s.Args[1].pretty(), total)
			}
		}
		cx.decide(okKeys && nKeys > 0, "limits", "nns."+g.name+"/keys-bounded", "every storage key written for a valid name fits the 64-byte key limit", g.name+" accepts a valid name and then faults in the storage layer: "+whyKeys+" — names that are valid by the documented syntax (up to 255 bytes) cannot be registered", w.pos(m.Fn.Pos()))
	}
	if m := cx.method("nns", "IsAvailable"); m != nil {
		a := cx.run(m)
		ok := len(a.Exits()) > 0
		for _, ex := range a.Exits() {
			if !validatedAt(a, ex.State, paramTerm(a.tb, m, "name"), safeName) {
				ok = false
			}
		}
		cx.decide(ok, "validate-first", "nns.IsAvailable", "validates the name", "isAvailable answers for names that were not validated", w.pos(m.Fn.Pos()))
	}
	// the validator: accepting exits establish the limits
	if fn := safeFn; fn != nil {
		a := cx.analyze(&Query{Name: "std", Root: fn})
		tb := a.tb
		nm := tb.mk("param", "0:name", 0)
		ok := true
		for _, ex := range a.Exits() {
			if len(ex.Results) == 2 {
				if s, isC := ex.Results[1].BytesConst(); isC && s == "" {
					if !(a.holdsAt(ex.State, -a.litLtC(a.litLen(nm), 3)) && a.holdsAt(ex.State, a.litLtC(a.litLen(nm), 256))) {
						ok = false
					}
				}
			}
		}
		cx.decide(ok, "limits", "nns.safeSplitAndCheck/length", "accepts only 3 ≤ len(name) ≤ 255", "names shorter than 3 or longer than 255 bytes can be accepted", w.pos(fn.Pos()))
		// every fragment is checked, the last one as root
		okF, okRoot := false, false
		for _, s := range a.Sites(func(s *Site) bool { return s.Inlined && s.Ctx.parent == nil && siteInLoop(s) && len(s.Args) == 2 }) {
			if s.Args[0].Op == "index" || s.Args[0].Op == "elem" {
				fragFn = s.Instr.(ssa.CallInstruction).Common().StaticCallee()
				okF = true
				frs := s.Args[0].Args[0]
				last := tb.binop(token.SUB, tb.mk("len", "", 0, frs), tb.constInt(1), intType)
				r := s.Args[1]
				// isRoot ⇔ index == len(fragments) − 1, with the index that selects the
				// fragment; any arithmetically equivalent spelling (i+1 == l, l-1 == i, …)
				idx := tb.indexOfElem(s.Args[0])
				if s.Args[0].Op == "index" {
					idx = s.Args[0].Args[1]
				}
				if idx != nil && r.Op == "bin" && r.Name == "==" && len(r.Args) == 2 {
					d := tb.binop(token.SUB, r.Args[0], r.Args[1], intType)
					if os.Getenv("DBGROOT") != "" {
						fmt.Println("ROOT r=", r, "idx=", idx, "last=", last, "d=", d, "e=", tb.binop(token.SUB, idx, last, intType))
					}
					if d == tb.binop(token.SUB, idx, last, intType) || d == tb.binop(token.SUB, last, idx, intType) {
						okRoot = true
					}
				}
			}
		}
		// polarity and converse: an iteration is completed only with the fragment accepted; the name is
		// rejected only when its length is outside 3 … 255 or a fragment was refused
		var cfVal *Term
		var cfSite *Site
		for _, s := range a.Sites(func(s *Site) bool { return s.Inlined && s.Ctx.parent == nil && siteInLoop(s) && len(s.Args) == 2 }) {
			if fragFn != nil && s.Instr.(ssa.CallInstruction).Common().StaticCallee() == fragFn {
				cfVal, cfSite = s.Val, s
			}
		}
		okPol, whyPol := cfVal != nil, "the fragment check is gone"
		if okPol {
			whyPol = ""
			if hdr := innermostLoop(cfSite.Instr.Block()); hdr != nil {
				for _, p := range hdr.Preds {
					if !hdr.Dominates(p) {
						continue
					}
					if st := a.edgeState(tb.root, p, hdr); st != nil && !a.holdsAt(st, a.litB(cfVal)) {
						okPol, whyPol = false, "the loop goes on to the next fragment although the check refused this one"
					}
				}
			}
			for _, ex := range a.Exits() {
				if len(ex.Results) != 2 {
					continue
				}
				if es, isC := ex.Results[1].BytesConst(); isC && es == "" {
					continue
				}
				// a rejection: incompatible with "length in range and the current fragment accepted"
				units := []int32{-a.litLtC(a.litLen(nm), 3), a.litLtC(a.litLen(nm), 256), a.litB(cfVal)}
				if a.satisfiable(ex.State, units, nil) {
					okPol, whyPol = false, "a name whose length is inside 3 … 255 and whose fragments are accepted can be rejected"
				}
			}
		}
		cx.decide(okPol, "limits", "nns.safeSplitAndCheck/accepts", "a fragment is passed only when accepted; rejection only for a length outside 3 … 255 or a refused fragment", "nns.safeSplitAndCheck: "+whyPol, w.pos(fn.Pos()))
		cx.decide(okF, "limits", "nns.safeSplitAndCheck/fragments", "every fragment goes through checkFragment", "fragments are not individually validated", w.pos(fn.Pos()))
		cx.decide(okRoot, "limits", "nns.safeSplitAndCheck/root-flag", "exactly the last fragment is validated with the root rules (≤ 16 bytes, leading letter)", "the root rules (≤ 16 bytes, leading letter) are not applied to exactly the last label of every validated name: CNAME data or names with a bad last label are accepted", w.pos(fn.Pos()))
	}
	if fn := fragFn; fn != nil {
		for _, root := range []bool{true, false} {
			a := cx.analyze(&Query{Name: fmt.Sprint("std:root=", root), Root: fn, Consts: map[int]constant.Value{1: constant.MakeBool(root)}})
			tb := a.tb
			v := fnParam(tb, fn, 0)
			max := int64(63)
			if root {
				max = 16
			}
			ok := true
			for _, ex := range a.Exits() {
				if len(ex.Results) != 1 {
					continue
				}
				if bv, isC := ex.Results[0].BoolConst(); isC && !bv {
					continue
				}
				if !(a.holdsAt(ex.State, -a.litEqC(a.litLen(v), 0)) && a.holdsAt(ex.State, a.litLtC(a.litLen(v), max+1))) {
					ok = false
				}
				if root {
					c0 := tb.mk("index", "", 0, v, tb.constInt(0))
					if !(a.holdsAt(ex.State, -a.litLtC(c0, 'a')) && a.holdsAt(ex.State, a.litLtC(c0, 'z'+1))) {
						ok = false
					}
				}
			}
			// the last byte: an accepted fragment ends in [a-z0-9] (the result may be true only then)
			okLast := true
			for _, ex := range a.Exits() {
				if len(ex.Results) != 1 {
					continue
				}
				res := ex.Results[0]
				if bv, isC := res.BoolConst(); isC && !bv {
					continue
				}
				last := tb.mk("index", "", 0, v, tb.binop(token.SUB, a.litLen(v), tb.constInt(1), intType))
				nb := []int32{}
				if _, isC := res.BoolConst(); !isC {
					nb = append(nb, -a.litB(res))
				}
				q1 := append(append([]int32{}, nb...), -a.litLtC(last, '0'))
				q2 := append(append([]int32{}, nb...), a.litLtC(last, 'z'+1))
				q3 := append(append([]int32{}, nb...), a.litLtC(last, '9'+1), -a.litLtC(last, 'a'))
				if !(a.holdsAt(ex.State, q1...) && a.holdsAt(ex.State, q2...) && a.holdsAt(ex.State, q3...)) {
					okLast = false
				}
			}
			// the first byte of a label is in [a-z0-9] (a root's is a letter, below)
			if !root {
				c0 := tb.mk("index", "", 0, v, tb.constInt(0))
				for _, ex := range a.Exits() {
					if len(ex.Results) != 1 {
						continue
					}
					res := ex.Results[0]
					if bv, isC := res.BoolConst(); isC && !bv {
						continue
					}
					nb := []int32{}
					if _, isC := res.BoolConst(); !isC {
						nb = append(nb, -a.litB(res))
					}
					if !(a.holdsAt(ex.State, append(append([]int32{}, nb...), -a.litLtC(c0, '0'))...) && a.holdsAt(ex.State, append(append([]int32{}, nb...), a.litLtC(c0, 'z'+1))...) &&
						a.holdsAt(ex.State, append(append([]int32{}, nb...), a.litLtC(c0, '9'+1), -a.litLtC(c0, 'a'))...)) {
						okLast = false
					}
				}
			}
			// the bytes in between: one loop from 1 while i < len−1, step 1, left only through its header
			// or into a rejection, and an iteration is completed only with v[i] == '-' or v[i] in [a-z0-9]
			okMid, whyMid := false, "no loop over the inner bytes"
			for _, b := range fn.Blocks {
				if !isLoopHeader(b) {
					continue
				}
				ifi, isIf := b.Instrs[len(b.Instrs)-1].(*ssa.If)
				if !isIf {
					continue
				}
				ct := tb.Term(tb.root, ifi.Cond)
				if ct.Op != "bin" || ct.Name != "<" || len(ct.Args) != 2 || ct.Args[0].Op != "phi" {
					continue
				}
				i := ct.Args[0]
				init, step := false, false
				for _, al := range tb.Alts(i) {
					if n, isC := al.IntConst(); isC && n == 1 {
						init = true
					} else if al == tb.binop(token.ADD, i, tb.constInt(1), intType) {
						step = true
					} else {
						init = false
					}
				}
				if !(init && step && ct.Args[1] == tb.binop(token.SUB, a.litLen(v), tb.constInt(1), intType)) {
					whyMid = "the loop over the inner bytes does not run over 1 … len−2 (" + ct.pretty() + ")"
					continue
				}
				okMid, whyMid = true, ""
				x := tb.mk("index", "", 0, v, i)
				for _, p := range b.Preds {
					if !b.Dominates(p) {
						continue
					}
					st := a.edgeState(tb.root, p, b)
					if st == nil {
						continue
					}
					dash := a.litEqC(x, '-')
					if !(a.holdsAt(st, dash, -a.litLtC(x, '0')) && a.holdsAt(st, dash, a.litLtC(x, 'z'+1)) && a.holdsAt(st, dash, a.litLtC(x, '9'+1), -a.litLtC(x, 'a'))) {
						okMid, whyMid = false, "an iteration is completed for a byte outside [a-z0-9-]"
					}
				}
				for _, e := range loopExits(b) {
					if e.from == b {
						continue
					}
					if r, isR := e.to.Instrs[len(e.to.Instrs)-1].(*ssa.Return); isR && len(r.Results) == 1 {
						if c, isC := r.Results[0].(*ssa.Const); isC && c.Value != nil && !constant.BoolVal(c.Value) {
							continue
						}
					}
					okMid, whyMid = false, "the loop can be left early without rejecting"
				}
			}
			// converse: a fragment is rejected only when it is invalid — no "false" exit is compatible
			// with a fragment that satisfies every documented condition
			okRej, nRej := true, 0
			{
				lenV := a.litLen(v)
				c0 := tb.mk("index", "", 0, v, tb.constInt(0))
				last := tb.mk("index", "", 0, v, tb.binop(token.SUB, lenV, tb.constInt(1), intType))
				alnum := func(x *Term) ([]int32, [][]int32) {
					return []int32{-a.litLtC(x, '0'), a.litLtC(x, 'z'+1)}, [][]int32{{a.litLtC(x, '9'+1), -a.litLtC(x, 'a')}}
				}
				units := []int32{-a.litLtC(lenV, 1), a.litLtC(lenV, max+1)}
				var clauses [][]int32
				if root {
					units = append(units, -a.litLtC(c0, 'a'), a.litLtC(c0, 'z'+1))
				} else {
					u, c := alnum(c0)
					units, clauses = append(units, u...), append(clauses, c...)
				}
				u, c := alnum(last)
				units, clauses = append(units, u...), append(clauses, c...)
				// every byte read inside a loop: '-' or alnum
				for id := int32(1); id < int32(len(a.lt.lits)); id++ {
					l := a.lt.lits[id]
					if (l.Kind == KEqC || l.Kind == KLtC) && l.A.Op == "index" && len(l.A.Args) == 2 && l.A.Args[0] == v && l.A.Args[1].Op == "phi" {
						x := l.A
						dash := a.litEqC(x, '-')
						clauses = append(clauses, []int32{dash, -a.litLtC(x, '0')}, []int32{dash, a.litLtC(x, 'z'+1)}, []int32{dash, a.litLtC(x, '9'+1), -a.litLtC(x, 'a')})
					}
				}
				for _, ex := range a.Exits() {
					if len(ex.Results) != 1 {
						continue
					}
					res := ex.Results[0]
					us := append([]int32{}, units...)
					if bv, isC := res.BoolConst(); isC {
						if bv {
							continue
						}
					} else {
						us = append(us, -a.litB(res))
					}
					nRej++
					if a.satisfiable(ex.State, us, clauses) {
						okRej = false
					}
				}
			}
			rkey := "nns.checkFragment/label/accepts"
			if root {
				rkey = "nns.checkFragment/root/accepts"
			}
			cx.decide(okRej && nRej > 0, "limits", rkey, "rejects only fragments that break a documented condition", "a fragment that satisfies every documented condition (length, first/last byte, inner bytes) can be rejected", w.pos(fn.Pos()))
			mkey := "nns.checkFragment/label/inner"
			if root {
				mkey = "nns.checkFragment/root/inner"
			}
			cx.decide(okMid, "limits", mkey, "every byte between the first and the last is '-' or in [a-z0-9]", "inner bytes of a fragment are not all checked against [a-z0-9-]: "+whyMid, w.pos(fn.Pos()))
			lkey := "nns.checkFragment/label/last"
			if root {
				lkey = "nns.checkFragment/root/last"
			}
			cx.decide(okLast, "limits", lkey, "accepts only fragments whose first and last bytes are in [a-z0-9]", "a fragment whose first or last byte is outside [a-z0-9] can be accepted (upper case, '_', '-', …)", w.pos(fn.Pos()))
			key := "nns.checkFragment/label"
			if root {
				key = "nns.checkFragment/root"
			}
			cx.decide(ok, "limits", key, fmt.Sprintf("accepts only 1 ≤ len ≤ %d%s", max, map[bool]string{true: " and a leading letter", false: ""}[root]), fmt.Sprintf("a fragment outside 1..%d bytes%s can be accepted", max, map[bool]string{true: " or not starting with a letter", false: ""}[root]), w.pos(fn.Pos()))
		}
	}
	// D1 records
	for _, name := range []string{"AddRecord", "SetRecord"} {
		m := cx.method("nns", name)
		if m == nil {
			continue
		}
		a := cx.run(m)
		tb := a.tb
		typ, data := paramTerm(tb, m, "typ"), paramTerm(tb, m, "data")
		var put *Site
		for _, s := range a.RealEffects() {
			if s.Effect == "put" && keyFamily(s.Args[1]) == pfxRecord && !isSoaKey(s.Args[1]) {
				put = s
			}
		}
		if put == nil {
			cx.violated("validate-first", "nns."+name, "no record store found", w.pos(m.Fn.Pos()))
			continue
		}
		types := map[int64]string{1: "checkIPv4", 5: "safeSplitAndCheck", 16: "len", 28: "checkIPv6"}
		valFn := map[string]string{}
		for vn, sep := range map[string]string{"checkIPv4": ".", "checkIPv6": ":"} {
			sep := sep
			if f := cx.locate(nnsPkg, vn, "returns a bool and splits its argument at '"+sep+"' itself", func(f *ssa.Function) bool {
				return returnsBool(f) && len(f.Params) == 1 && callsWithConstArg(f, "native/std.StringSplit", 1, sep)
			}); f != nil {
				valFn[vn] = fq(f)
			}
		}
		var tl []int32
		for t := range types {
			tl = append(tl, a.litEqC(typ, t))
		}
		cx.decide(a.holdsAt(put.In, tl...), "validate-first", "nns."+name+"/types", "stores only records of type A, CNAME, TXT, AAAA", "a record of an unsupported type can be stored", put.Where(w))
		// per type: the matching validator accepted the data
		okAll := true
		detail := ""
		for t, vname := range types {
			st := put.In.clone()
			st.addUnit(a.lt, a.litEqC(typ, t))
			if st.bottom {
				okAll = false
				detail = fmt.Sprintf("type %d cannot reach the store", t)
				continue
			}
			good := false
			switch vname {
			case "len":
				good = st.refutes(a.lt, []int32{a.litLtC(a.litLen(data), 256)})
			case "safeSplitAndCheck":
				for id := int32(1); id < int32(len(a.lt.lits)); id++ {
					l := a.lt.lits[id]
					if l.Kind == KEqC && l.C == 0 && l.A.Op == "len" {
						if cs := a.resultSite(l.A.Args[0], safeName); cs != nil && cs.Args[0] == data && st.refutes(a.lt, []int32{id}) {
							good = true
						}
					}
				}
			default:
				for id := int32(1); id < int32(len(a.lt.lits)); id++ {
					l := a.lt.lits[id]
					if l.Kind == KB {
						if cs := a.resultSite(l.A, valFn[vname]); cs != nil && cs.Args[0] == data && st.refutes(a.lt, []int32{id}) {
							good = true
						}
					}
				}
			}
			if !good {
				okAll = false
				detail = fmt.Sprintf("a record of type %d can be stored without %s accepting its data", t, vname)
			}
		}
		cx.decide(okAll, "validate-first", "nns."+name+"/validators", "for each type the store is reached only after its validator accepted the data", detail, put.Where(w))
	}
	// D2 sign-accepting parser
	p := w.ByPath[modPrefix+nnsPkg]
	if p == nil {
		return
	}
	sp := w.Prog.Package(p.Types)
	nAtoi := 0
	var names []string
	for n := range sp.Members {
		names = append(names, n)
	}
	sort.Strings(names)
	for _, n := range names {
		f, ok := sp.Members[n].(*ssa.Function)
		if !ok || f.Blocks == nil || !returnsBool(f) {
			continue // the validators: bool-valued helpers that parse decimal text themselves
		}
		if dc := directCallees(f); dc["native/std.Atoi"]+dc["native/std.Atoi10"] == 0 {
			continue
		}
		a := cx.analyze(&Query{Name: "std", Root: f})
		tb := a.tb
		for _, s := range a.Sites(func(s *Site) bool { return s.Callee == "native/std.Atoi10" || s.Callee == "native/std.Atoi" }) {
			if s.Callee == "native/std.Atoi" {
				if b, isC := s.Args[1].IntConst(); !isC || b != 10 {
					continue
				}
			}
			nAtoi++
			arg := s.Args[0]
			c0 := tb.mk("index", "", 0, arg, tb.constInt(0))
			ok := a.holdsAt(s.In, -a.litLtC(c0, '0')) && a.holdsAt(s.In, a.litLtC(c0, '9'+1))
			// canonical decimal: an iteration of the fragment loop is completed (the fragment accepted) only
			// when the fragment does not start with '0' or is the single digit "0" — "01" and "00" are not
			// the canonical spelling of any octet
			if hdr := innermostLoop(s.Instr.Block()); hdr != nil && s.Ctx == tb.root {
				okCanon, nBack := true, 0
				for _, p := range hdr.Preds {
					if !hdr.Dominates(p) {
						continue
					}
					st := a.edgeState(tb.root, p, hdr)
					if st == nil {
						continue
					}
					nBack++
					if os.Getenv("DBGCANON") != "" {
						for _, l := range st.dump(a.lt) {
							fmt.Println("   CANON", l)
						}
					}
					if !a.holdsAt(st, -a.litEqC(c0, '0'), a.litLtC(a.litLen(arg), 2)) {
						okCanon = false
					}
				}
				cx.decide(okCanon && nBack > 0, "canonical-decimal", "contracts/nns."+n, "a fragment is accepted only if it does not start with '0' or is exactly one byte long", n+" can accept a decimal fragment with a leading zero (\"00\", \"01\"): the address is not in its canonical dotted form, two spellings of one address are both stored", s.Where(w))
			}
			// converse at the byte range: a fault (or refusal) decided on the parsed number alone is raised only
			// for a number outside 0 … 255 — 255 itself is an octet
			if np, okP := panicOnlyIf(a, f, s.Val, nil, a.litLtC(s.Val, 0), -a.litLtC(s.Val, 256)); np > 0 {
				cx.decide(okP, "limits", "contracts/nns."+n+"/octet-range", "a fragment is refused as 'not a byte' only outside 0 … 255", n+" can refuse a fragment whose value is inside 0 … 255 as not being a byte (the bound is off by one): valid addresses containing that octet cannot be recorded", s.Where(w))
			}
			cx.decide(ok, "sign-accepting-parser", "contracts/nns."+n, "the first byte of the parsed fragment is established to be a digit", "std.Atoi accepts a leading sign: "+n+" parses "+arg.pretty()+" without establishing that its first byte is a digit, so \"+1.2.3.4\" is accepted as a canonical address", s.Where(w))
		}
	}
	cx.count("decimal_atoi_sites", nAtoi)
	cx.floor("decimal_atoi_sites", 1)
	// elided-run expansion of the textual IPv6 validator (the one that splits at ':')
	nGap := 0
	for _, n := range names {
		f, ok := sp.Members[n].(*ssa.Function)
		if !ok || f.Blocks == nil || !returnsBool(f) || len(f.Params) != 1 || !callsWithConstArg(f, "native/std.StringSplit", 1, ":") {
			continue
		}
		nGap += checkGapAlignment(cx, f)
	}
	cx.count("gap_alignment_pairs", nGap)
	cx.floor("gap_alignment_pairs", 1)
}

func returnsBool(f *ssa.Function) bool {
	r := f.Signature.Results()
	return r.Len() == 1 && types.Identical(r.At(0).Type().Underlying(), types.Typ[types.Bool])
}

// nnsParentExpiredFn: the bool-valued helper that reads name states and the clock itself.
func nnsParentExpiredFn(cx *CheckCtx) *ssa.Function {
	return cx.locate(nnsPkg, "parentExpired", "returns a bool after reading stored name states and the clock directly", func(f *ssa.Function) bool {
		dc := directCallees(f)
		return returnsBool(f) && !token.IsExported(f.Name()) && dc["runtime.GetTime"] > 0 && dc["storage.Get"] > 0
	})
}

// nnsTokenIDFromNameFn: the string-valued helper that finds the registered name a record belongs to.
func nnsTokenIDFromNameFn(cx *CheckCtx) *ssa.Function {
	return cx.locate(nnsPkg, "tokenIDFromName", "returns a string after reading stored name states and the clock directly", func(f *ssa.Function) bool {
		r := f.Signature.Results()
		dc := directCallees(f)
		return r.Len() == 1 && !token.IsExported(f.Name()) && types.Identical(r.At(0).Type().Underlying(), types.Typ[types.String]) && dc["runtime.GetTime"] > 0 && dc["storage.Get"] > 0
	})
}

// isSoaKey: a record key whose type component is the constant SOA: the SOA
// refresh, as opposed to the store of the submitted record (type = parameter).
func isSoaKey(k *Term) bool {
	ps := keyParts(k)
	if len(ps) < 4 {
		return false
	}
	s, ok := ps[3].BytesConst()
	return ok && len(s) >= 1 && s[0] == 6
}

// nnsSafeSplitFn: the name validator — the helper that splits the name itself
// and returns (fragments, error text).
func nnsSafeSplitFn(cx *CheckCtx) *ssa.Function {
	return cx.locate(nnsPkg, "safeSplitAndCheck", "splits a name itself and returns (fragments, error text)", func(f *ssa.Function) bool {
		return f.Signature.Results().Len() == 2 && directCallees(f)["native/std.StringSplit"] > 0
	})
}

// validatedAt: the state knows that the validator accepted exactly nm (its error result is empty).
func validatedAt(a *Analysis, st *CNF, nm *Term, safeName string) bool {
	for _, f := range a.unitFactsRaw(st) {
		if f.kind == KEqC && f.pos && f.C == 0 && f.A.Op == "len" {
			if cs := a.resultSite(f.A.Args[0], safeName); cs != nil && len(cs.Args) == 1 && cs.Args[0] == nm {
				return true
			}
		}
	}
	return false
}

// callbackLast: every store of the method happens before control is handed to
// another contract (the receiver's onNEP11Payment): at each store site the
// call-out has not executed yet. A callback that runs first re-enters NNS on
// the old state and the outer call then overwrites what the inner one did.
func callbackLast(cx *CheckCtx, a *Analysis, key string) {
	var outs []*Site
	for _, s := range a.RealEffects() {
		if s.Effect == "call" && s.Callee == "contract.Call" {
			outs = append(outs, s)
		}
	}
	ok, where := true, ""
	for _, e := range a.RealEffects() {
		if !isStore(e) && e.Effect != "notify" {
			continue
		}
		for _, o := range outs {
			if !a.holdsAt(e.In, -a.eLit(o)) {
				ok, where = false, e.Where(cx.W)
			}
		}
	}
	cx.decide(ok, "callback-last", key, fmt.Sprintf("%d call-outs, each after every store and every notification of the method", len(outs)), key+" hands control to another contract before its own stores and announcements are done ("+where+" can follow the call-out): a receiver that calls back sees the old owner or moves the name on before the first move is announced, and the ledger or the event stream ends up inconsistent with the record", where)
}

// nnsTransferResetsAdmin: the record stored by Transfer is the loaded one with
// Owner := to and Admin := nil (C10 ownership-change; C11 re-runs it: a former
// admin must lose its rights with the transfer).
func nnsTransferResetsAdmin(cx *CheckCtx, rule string) {
	m := cx.method("nns", "Transfer")
	if m == nil {
		return
	}
	a := cx.run(m)
	tb := a.tb
	to, tok := paramTerm(tb, m, "to"), paramTerm(tb, m, "tokenID")
	nkey := tb.cat(tb.constBytes(pfxName), tb.mk("call", "native/crypto.Ripemd160", 0, tok))
	var namePut *Site
	for _, s := range a.RealEffects() {
		if s.Effect == "put" && s.Args[1] == nkey {
			namePut = s
		}
	}
	if namePut == nil {
		cx.violated(rule, "nns.Transfer/record", "Transfer no longer rewrites the name record", cx.W.pos(m.Fn.Pos()))
		return
	}
	v := unserialize(a.canonAt(namePut, namePut.Args[2]))
	X := tb.field(v, "Name")
	ok := X.Op == "field" && X.Name == "Name"
	if ok {
		rec := X.Args[0]
		k, isRec := recordOf(tb, rec)
		ok = isRec && k == nkey && tb.field(v, "Owner") == to && tb.field(v, "Admin").IsNil()
	}
	cx.decide(ok, rule, "nns.Transfer/record", "stores the loaded record with Owner := to, Admin := nil", "transfer stores "+v.pretty()+": the admin survives the transfer and keeps changing the new owner's name", namePut.Where(cx.W))
}

// splitOf: t is the list of labels of name: std.StringSplit(name, ".") itself or
// the result of an inlined helper called with name (the validating splitter).
func splitOf(a *Analysis, t, name *Term) bool {
	if t.contains(func(x *Term) bool { return x == name }) {
		return true
	}
	for _, s := range a.sites {
		if !s.Inlined || s.Val == nil {
			continue
		}
		hasName := false
		for _, x := range s.Args {
			if x == name {
				hasName = true
			}
		}
		if hasName && (s.Val == t || a.resultSite(t, s.Callee) == s) {
			return true
		}
	}
	return false
}

// checkRecordOwner: D10 of C12, shared with C11 (the token whose owner or admin is asked for a record
// mutation is the token tokenIDFromName names).
func checkRecordOwner(cx *CheckCtx) {
	w := cx.W
	_ = w
	// ---- D10 the token a record belongs to: tokenIDFromName returns a proper suffix of the name
	// only when that suffix is registered and unexpired, goes on to the next (shorter) suffix only
	// when it is not, and returns the name itself only after every proper-suffix level was tried
	if fn := nnsTokenIDFromNameFn(cx); fn != nil {
		a := cx.analyze(&Query{Name: "std", Root: fn})
		tb := a.tb
		name := fnParam(tb, fn, 1)
		var rd *Term
		for _, s := range a.Sites(func(s *Site) bool { return s.Callee == "storage.Get" && keyFamily(s.Args[1]) == pfxName }) {
			rd = s.Val
		}
		var ltLit int32
		for id := int32(1); id < int32(len(a.lt.lits)); id++ {
			l := a.lt.lits[id]
			if l.Kind == KLt && l.A.contains(func(x *Term) bool { return isCall(x, "runtime.GetTime") }) && l.B.Op == "field" && l.B.Name == "Expiration" && rd != nil && l.B.Args[0].contains(func(x *Term) bool { return x == rd }) {
				ltLit = id
			}
		}
		ok, why := rd != nil && ltLit != 0, "the level record read or its expiry comparison is gone"
		if ok {
			why = ""
			for _, ex := range a.Exits() {
				if len(ex.Results) != 1 {
					continue
				}
				r := ex.Results[0]
				if r == name {
					// only after exhaustion: the loop condition is false here
					continue
				}
				if !(a.holdsAt(ex.State, -a.litNil(rd)) && a.holdsAt(ex.State, ltLit)) {
					ok, why = false, "a suffix is returned as the owning token although it is not registered or has expired"
				}
			}
			nHdr := 0
			for _, h := range fn.Blocks {
				if !isLoopHeader(h) {
					continue
				}
				nHdr++
				for _, p := range h.Preds {
					if !h.Dominates(p) {
						continue
					}
					if st := a.edgeState(tb.root, p, h); st != nil && !a.holdsAt(st, a.litNil(rd), -ltLit) {
						ok, why = false, "a registered, unexpired suffix is passed over"
					}
				}
				for _, e := range loopExits(h) {
					if e.from == h {
						continue
					}
					if _, isRet := e.to.Instrs[len(e.to.Instrs)-1].(*ssa.Return); isRet {
						continue
					}
					// a break: only with the level found registered and unexpired
					if st := a.edgeState(tb.root, e.from, e.to); st != nil && !(a.holdsAt(st, -a.litNil(rd)) && a.holdsAt(st, ltLit)) {
						ok, why = false, "the loop over the suffixes can be left early"
					}
				}
			}
			if nHdr != 1 {
				ok, why = false, "expected one loop over the suffix levels"
			}
		}
		// the suffix of level i starts after the first i labels and their dots: sum starts at 0 and
		// advances by len(label i) + 1; levels 0 … len(labels) − 2
		if ok {
			okArith := false
			for _, h := range fn.Blocks {
				if !isLoopHeader(h) {
					continue
				}
				ifi, isIf := h.Instrs[len(h.Instrs)-1].(*ssa.If)
				if !isIf {
					continue
				}
				ct := tb.Term(tb.root, ifi.Cond)
				if ct.Op != "bin" || ct.Name != "<" || len(ct.Args) != 2 || ct.Args[0].Op != "phi" {
					continue
				}
				i := ct.Args[0]
				var frs *Term
				if ct.Args[1].Op == "sum" {
					ct.Args[1].walk(func(x *Term) bool {
						if x.Op == "len" {
							frs = x.Args[0]
						}
						return true
					})
				}
				if frs == nil || ct.Args[1] != tb.binop(token.SUB, tb.mk("len", "", 0, frs), tb.constInt(1), intType) {
					continue
				}
				iOK := false
				{
					z, st := false, false
					for _, al := range tb.Alts(i) {
						if n, isC := al.IntConst(); isC && n == 0 {
							z = true
						} else if al == tb.binop(token.ADD, i, tb.constInt(1), intType) {
							st = true
						} else {
							z = false
						}
					}
					iOK = z && st
				}
				// the sum variable: the low bound of the returned / looked-up suffix
				for _, ex := range a.Exits() {
					if len(ex.Results) != 1 || ex.Results[0].Op != "slice" || ex.Results[0].Args[0] != name {
						continue
					}
					sum := ex.Results[0].Args[1]
					if sum.Op != "phi" {
						continue
					}
					z, st := false, false
					for _, al := range tb.Alts(sum) {
						if n, isC := al.IntConst(); isC && n == 0 {
							z = true
						} else if d := tb.binop(token.SUB, tb.binop(token.SUB, al, sum, intType), tb.constInt(1), intType); d.Op == "len" &&
							(d.Args[0].Op == "index" && d.Args[0].Args[0] == frs && d.Args[0].Args[1] == i || d.Args[0].Op == "elem" && d.Args[0].Args[0] == frs && tb.indexOfElem(d.Args[0]) == i) {
							st = true
						} else {
							z = false
						}
					}
					if iOK && z && st {
						okArith = true
					}
				}
			}
			if !okArith {
				ok, why = false, "the suffix of level i does not start after the first i labels and their dots (or the levels are not 0 … len−2)"
			}
		}
		cx.decide(ok, "record-owner", "nns.tokenIDFromName", "the longest registered, unexpired proper suffix, else the name itself", "nns.tokenIDFromName: "+why+" — records are filed under (and read from) another token", w.pos(fn.Pos()))
	}
}

// checkParentConflictHelper: the helper that decides "the parent holds records for sub-names of this
// name" (C12), shared with C10: a name that has no such record — an expired name being re-registered —
// must not be reported as conflicting with itself.
func checkParentConflictHelper(cx *CheckCtx, conflictFn *ssa.Function) {
	w := cx.W
	_ = w
	if fn := conflictFn; fn != nil {
		a := cx.analyze(&Query{Name: "std", Root: fn})
		tb := a.tb
		name := fnParam(tb, fn, 1)
		okS := false
		for _, s := range a.Sites(func(s *Site) bool { return s.Callee == "storage.Find" }) {
			ps := keyParts(s.Args[1])
			if len(ps) == 2 && ripemdArg(ps[1]) != nil && strings.Contains(ripemdArg(ps[1]).String(), name.String()) {
				if sl := ripemdArg(ps[1]); sl.Op == "slice" && sl.Args[0] == name && len(sl.Args) == 3 && sl.Args[2].Op == "none" {
					// from the byte after the first label and its dot
					frs := fnParam(tb, fn, 2)
					if sl.Args[1] == tb.binop(token.ADD, tb.mk("len", "", 0, tb.mk("index", "", 0, frs, tb.constInt(0))), tb.constInt(1), intType) {
						okS = true
					}
				}
			}
		}
		// polarity: a record name is reported as conflicting only when the searched name was found in
		// it at a positive offset and ends it; "no conflict" only after the scan is exhausted
		okPol := true
		nRep := 0
		for _, ex := range a.Exits() {
			if len(ex.Results) != 1 {
				continue
			}
			r := ex.Results[0]
			if es, isC := r.BytesConst(); isC && es == "" {
				// exhausted
				exh := false
				for _, f := range a.unitFacts(ex.State) {
					if f.kind == KB && !f.pos && f.A.Op == "iternext" {
						exh = true
					}
				}
				if !exh {
					okPol = false
				}
				continue
			}
			nRep++
			pos, ends := false, false
			for _, f := range a.unitFacts(ex.State) {
				isInd := func(t *Term) bool {
					return t != nil && t.contains(func(x *Term) bool { return isCall(x, "native/std.MemorySearchLastIndex") })
				}
				if f.kind == KLtC && !f.pos && f.C == 1 && isInd(f.A) {
					pos = true
				}
				if (f.kind == KEq || f.kind == KEqC) && f.pos && (isInd(f.A) || isInd(f.B)) {
					ends = true
				}
			}
			if !pos || !ends {
				okPol = false
			}
		}
		cx.decide(okPol && nRep > 0, "parent-conflict", "nns.getParentConflictingRecord/polarity", "a conflict is reported only for a record name that ends with '.'‖name; none only after exhaustion", "the conflict test is inverted or weakened: names are refused without a conflicting parent record, or registered in spite of one", w.pos(fn.Pos()))
		cx.decide(okS, "parent-conflict", "nns.getParentConflictingRecord/scan", "scans all records stored under the enclosing name", "the conflict check does not scan the records of the directly enclosing name", w.pos(fn.Pos()))
	}
}

// nnsRegisterStartsWithoutAdmin: "rights follow ownership" at registration: the name record a registration
// stores (first registration or take-over of an expired name, by Register or by the committee's RegisterTLD)
// has Admin = nil — whoever the previous registration had appointed is not the new owner's admin.
func nnsRegisterStartsWithoutAdmin(cx *CheckCtx, rule string) {
	for _, name := range []string{"Register", "RegisterTLD"} {
		m := cx.method("nns", name)
		if m == nil {
			continue
		}
		a := cx.run(m)
		tb := a.tb
		n := 0
		for _, s := range a.RealEffects() {
			if s.Effect != "put" || keyFamily(s.Args[1]) != pfxName {
				continue
			}
			n++
			v := unserialize(a.canonAt(s, s.Args[2]))
			adm := tb.field(v, "Admin")
			ok := v.Op == "struct" && adm != nil && adm.IsNil()
			cx.decide(ok, rule, "nns."+name+"/"+siteConstruct(a, s), "the registered record starts with Admin = nil", "a registration stores "+v.pretty()+": the admin of a previous (expired) registration of the name survives into the new owner's registration and keeps his write access", s.Where(cx.W))
		}
		if n == 0 {
			cx.violated(rule, "nns."+name+"/record", name+" no longer stores a name record", cx.W.pos(m.Fn.Pos()))
		}
	}
}
