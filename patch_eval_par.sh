#!/bin/bash
# usage: patch_eval_par.sh <jobs> <patch files…> — development aid: all checks but C15 on a scratch copy per patch
export GOFLAGS=-mod=mod GOPROXY=off GOSUMDB=off GOTOOLCHAIN=local; unset GOWORK
J=$1; shift
CHECKS="C01 C02 C03 C04 C05 C06 C07 C08 C09 C10 C11 C12 C13 C14 C16 C17 C18 C19 C20"
one() {
  p=$1; t=$(mktemp -d /tmp/pep_XXXXXX)
  rsync -a --exclude .git /repo/ $t/repo/
  mkdir -p $t/verif/bin $t/verif/evidence; cp /verif/known_findings.json $t/verif/
  (cd $t/repo && git apply $p 2>/dev/null) || { echo "$p APPLYFAIL"; rm -rf $t; return; }
  r=$(NFS_REPO=$t/repo NFS_VERIF=$t/verif NFS_NO_SELFTEST=1 ${NFS_BIN:-/verif/bin/nfsverif} check $CHECKS 2>&1 | grep -aE "^(VIOLATED|UNDECIDED)" | awk '{print $2" "$3}' | cut -c1-120 | sort -u | tr '\n' ';')
  echo "$p => $r"; rm -rf $t
}
export -f one; export CHECKS NFS_BIN
printf '%s\n' "$@" | xargs -P $J -I{} bash -c 'one {}'
