#!/bin/bash
# Benign-rename stress: every unexported function/method of every contract (and
# of common) is renamed consistently in /repo's working tree, the artifacts are
# regenerated, all checks are run, and the tree is restored. Silent = robust.
export GOFLAGS=-mod=mod GOPROXY=off GOSUMDB=off GOTOOLCHAIN=local; unset GOWORK
cd /repo || exit 2
if [ -n "$(git status --porcelain)" ]; then echo "working tree not clean"; exit 2; fi
python3 - <<'PY'
import re,glob,os
root='/repo'
for d in sorted(glob.glob(root+'/contracts/*'))+[root+'/common']:
    files=[f for f in glob.glob(d+'/*.go') if not f.endswith('_test.go')]
    names=set()
    for f in files:
        for m in re.finditer(r'^func (?:\([^)]*\) )?([a-z][A-Za-z0-9_]*)\(', open(f).read(), re.M):
            n=m.group(1)
            if n in('init','main') or n.startswith('_'): continue
            names.add(n)
    for f in files:
        s=open(f).read()
        for n in names:
            s=re.sub(r'(?<![A-Za-z0-9_"])'+n+r'(?![A-Za-z0-9_"])', n+'Zz', s)
        open(f,'w').write(s)
# the deployment package too (its tests refer to unexported names, so test files are renamed as well)
d=root+'/deploy'
files=glob.glob(d+'/*.go')
allsrc=''.join(open(f).read() for f in files)
names=set()
for f in files:
    if f.endswith('_test.go'): continue
    for m in re.finditer(r'^func (?:\([^)]*\) )?([a-z][A-Za-z0-9_]*)\(', open(f).read(), re.M):
        n=m.group(1)
        if n in('init','main') or re.search(r'\b'+n+r'\.[A-Z]', allsrc): continue
        names.add(n)
for f in files:
    s=open(f).read()
    for n in names:
        s=re.sub(r'(?<![A-Za-z0-9_"])'+n+r'(?![A-Za-z0-9_"])', n+'Zz', s)
    open(f,'w').write(s)
PY
go build ./... || { git checkout -- .; echo "renamed tree does not build"; exit 2; }
/verif/bin/c15check -regen all >/dev/null 2>&1
/verif/bin/nfsverif all 2>&1 | grep -E '^(VIOLATED|UNDECIDED)' | sort | uniq -c | cut -c1-230
git checkout -- .
