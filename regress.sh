#!/bin/bash
# usage: regress.sh  — development aid: every stored seed must be noticed (except the recorded misses),
# every benign patch and the rename stress must stay silent. Works on /repo (apply, run, revert).
export GOFLAGS=-mod=mod GOPROXY=off GOSUMDB=off GOTOOLCHAIN=local; unset GOWORK
cd /verif
echo "== clean tree"; bin/nfsverif all 2>&1 | grep -aE "^(VIOLATED|UNDECIDED)" | head
echo "== seeds"
for d in seeded/*/; do
  id=$(basename $d)
  git -C /repo apply $PWD/$d/patch.diff || { echo "$id APPLYFAIL"; continue; }
  r=$(bin/nfsverif all 2>&1 | grep -aE "^C[0-9]+ tier" | grep -av "violations=0" | awk '{print $1}' | tr '\n' ' ')
  git -C /repo checkout -- .
  echo "$id => $r"
done
echo "== benign"
for d in benign/*/; do
  id=$(basename $d)
  r=$(./benign_eval.sh $PWD/$d/patch.diff 2>&1 | tail -5 | tr '\n' ' ')
  [ -n "$r" ] && echo "$id => $r"
done
echo "== rename"; ./rename_eval.sh 2>&1 | tail -3
echo "== done"; git -C /repo status --short | head
