#!/bin/bash
# usage: benign_eval.sh <diff file>  — applies a behaviour-preserving patch to /repo, regenerates the
# build artifacts (so that C15 compares like with like), runs every check, reverts. Development aid.
P=$1
cd /repo || exit 1
git apply "$P" || { echo "PATCH DOES NOT APPLY: $P"; exit 1; }
/verif/bin/c15check -regen all >/dev/null 2>&1
/verif/bin/nfsverif all 2>&1 | grep -E "^(VIOLATED|UNDECIDED)" | cut -c1-${2:-200} | sort | uniq -c | sort -rn | head -${3:-12}
git checkout -- . ; git status --short | head -3
