#!/bin/bash
# usage: seeded_eval.sh <delivery dir> <seed id> "<checks>"   (development aid)
# 1. confirms in a scratch worktree that the demo passes on the clean tree and fails with the patch,
#    and that the baseline suite passes with the patch (without the demo);
# 2. applies the patch to /repo, runs the given checks, reverts.
set -u
D=$1; ID=$2; CHECKS=$3
export GOFLAGS=-mod=mod GOPROXY=off GOSUMDB=off GOTOOLCHAIN=local; unset GOWORK
WT=/tmp/confirm_$ID
rm -rf $WT; git -C /repo worktree prune; git -C /repo worktree add -q --detach $WT HEAD || exit 1
demo=$(ls $D/*_test.go | head -1)
pkgdir=tests; grep -q "^package deploy" $demo && pkgdir=deploy
cp $demo $WT/$pkgdir/
name=$(grep -oE "func (Test[A-Za-z0-9_]+)" $demo | head -1 | awk '{print $2}')
echo "== demo $name on clean tree"; (cd $WT/$pkgdir && go test -vet=off -count=1 -run "^$name\$" . 2>&1 | grep -a -E "^(ok|FAIL|---)" | head -5)
(cd $WT && git apply $D/patch.diff) || { echo "PATCH DOES NOT APPLY"; }
echo "== demo with patch"; (cd $WT/$pkgdir && go test -vet=off -count=1 -run "^$name\$" . 2>&1 | grep -a -E "^(ok|FAIL|---)" | head -5)
rm $WT/$pkgdir/$(basename $demo)
echo "== baseline with patch"; (cd $WT && go build ./... && go test -vet=off -count=1 ./... 2>&1 | grep -a -E "^(FAIL|---|ok.*tests)" | head -5)
git -C /repo worktree remove --force $WT
[ -n "${SKIP_CHECKS:-}" ] && exit 0
echo "== checks on /repo with patch"
git -C /repo apply $D/patch.diff && /verif/bin/nfsverif check $CHECKS 2>&1 | grep -E "^(VIOLATED|UNDECIDED|KNOWN|C[0-9]+ tier)" | cut -c1-260
git -C /repo checkout -- . ; git -C /repo status --short | head -3
