#!/bin/bash
# usage: regress_par.sh [jobs]  — development aid, parallel form of regress.sh on scratch copies of /repo
# (C15 left out: it compares the shipped artifacts, which a source patch does not regenerate).
# Every stored seed must be noticed by the check of its own property (recorded misses excepted),
# every benign patch must leave all checks silent.
export GOFLAGS=-mod=mod GOPROXY=off GOSUMDB=off GOTOOLCHAIN=local; unset GOWORK
J=${1:-6}
CHECKS="C01 C02 C03 C04 C05 C06 C07 C08 C09 C10 C11 C12 C13 C14 C16 C17 C18 C19 C20"
one() {
  d=$1; id=$(basename $d); kind=$(basename $(dirname $d))
  t=$(mktemp -d /tmp/rgp_XXXXXX)
  rsync -a --exclude .git /repo/ $t/repo/
  mkdir -p $t/verif/bin $t/verif/evidence; cp /verif/known_findings.json $t/verif/
  (cd $t/repo && git apply $d/patch.diff 2>/dev/null) || { echo "$kind/$id APPLYFAIL"; rm -rf $t; return; }
  r=$(NFS_REPO=$t/repo NFS_VERIF=$t/verif NFS_NO_SELFTEST=1 /verif/bin/nfsverif check $CHECKS 2>&1 | grep -aE "^(VIOLATED|UNDECIDED|C[0-9]+ tier)")
  bad=$(echo "$r" | grep -aE "^C[0-9]+ tier" | grep -av "violations=0" | awk '{print $1}' | tr '\n' ' ')
  rules=$(echo "$r" | grep -aE "^(VIOLATED|UNDECIDED)" | awk '{print $2" "$3}' | cut -c1-110 | sort -u | tr '\n' ';')
  echo "$kind/$id => $bad | $rules"
  rm -rf $t
}
export -f one; export CHECKS
ls -d /verif/seeded/*/ /verif/benign/*/ | sed 's:/$::' | xargs -P $J -I{} bash -c 'one {}'
