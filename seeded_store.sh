#!/bin/bash
# usage: seeded_store.sh <delivery dir> <seed id> <property> "<needs>" "<caught by>"
D=$1; ID=$2; P=$3; NEEDS=$4; CAUGHT=$5
T=/verif/seeded/$ID; mkdir -p $T
cp $D/patch.diff $T/; cp $D/*_test.go $T/ 2>/dev/null; cp $D/notes.md $T/notes.md 2>/dev/null
python3 - "$T" "$P" "$NEEDS" "$CAUGHT" <<'PY'
import json,sys,glob,os
t,p,needs,caught=sys.argv[1:5]
json.dump({"property":p,"breaks":open(t+"/notes.md").read().split("\n")[0:3] if os.path.exists(t+"/notes.md") else "",
 "needs_to_manifest":needs,
 "confirmed":"seeded_eval.sh: demo passes on the clean tree, fails with the patch; go build ./... and the unedited baseline suite pass with the patch (scratch worktree, removed afterwards)",
 "checks_run":"git -C /repo apply patch.diff; bin/nfsverif check <ids>; git -C /repo checkout -- .",
 "caught_by":caught, "origin":"independent sub-agent given only the property text and a scratch worktree"},open(t+"/meta.json","w"),indent=1)
PY
ls $T
