// c15check — engine V of DESIGN.md §3.7.
//
// Recompiles every contracts/<c> of the working tree with the neo-go compiler
// that is linked into this binary (pinned in this module's go.mod, so an edit
// in /repo cannot change the compiler), regenerates the binding config and the
// RPC binding, and compares the three products byte-for-byte with the files
// committed in the tree. Nothing is executed: this is translation validation
// of the shipped artifacts against the sources.
//
// Output: one JSON document on stdout ({"obligations":[...], ...}); exit 0
// always unless the tool itself is broken (exit 2). The driver (nfsverif)
// turns obligations into the verdict.
package main

import (
	"bytes"
	"encoding/json"
	"flag"
	"fmt"
	"go/format"
	"os"
	"path/filepath"
	"regexp"
	"runtime/debug"
	"sort"
	"strings"

	"github.com/nspcc-dev/neo-go/cli/smartcontract"
	"github.com/nspcc-dev/neo-go/pkg/compiler"
	"github.com/nspcc-dev/neo-go/pkg/config"
	"github.com/nspcc-dev/neo-go/pkg/smartcontract/binding"
	"github.com/nspcc-dev/neo-go/pkg/smartcontract/manifest"
	"github.com/nspcc-dev/neo-go/pkg/smartcontract/nef"
	"github.com/nspcc-dev/neo-go/pkg/smartcontract/rpcbinding"
	"github.com/nspcc-dev/neo-go/pkg/vm/opcode"
	"gopkg.in/yaml.v3"
)

type Obligation struct {
	Rule    string   `json:"rule"`
	Key     string   `json:"key"`
	Outcome string   `json:"outcome"` // HOLDS | VIOLATED | UNDECIDED
	Detail  string   `json:"detail,omitempty"`
	Pos     string   `json:"pos,omitempty"`
	Witness []string `json:"witness,omitempty"`
}

type Output struct {
	Compiler     string       `json:"compiler"`
	Pin          string       `json:"pin"`
	Programs     int          `json:"programs"`
	Instructions int          `json:"instructions"`
	Methods      int          `json:"methods"`
	Bindings     int          `json:"bindings"`
	Obligations  []Obligation `json:"obligations"`
	Samples      []string     `json:"samples"`
}

var out Output

func add(rule, key, outcome, detail string) {
	out.Obligations = append(out.Obligations, Obligation{Rule: rule, Key: key, Outcome: outcome, Detail: detail})
}

func main() {
	repo := flag.String("repo", "/repo", "repository root")
	regen := flag.String("regen", "", "comma separated contracts whose contract.nef/manifest.json/rpcbinding.go are rewritten in place (used only to prepare fix: commits)")
	flag.Parse()

	for _, kv := range [][2]string{{"GOFLAGS", "-mod=mod"}, {"GOPROXY", "off"}, {"GOSUMDB", "off"}, {"GOTOOLCHAIN", "local"}} {
		os.Setenv(kv[0], kv[1])
	}
	os.Unsetenv("GOWORK")

	// which compiler is linked in
	ver := ""
	if bi, ok := debug.ReadBuildInfo(); ok {
		for _, d := range bi.Deps {
			if d.Path == "github.com/nspcc-dev/neo-go" {
				ver = d.Version
			}
		}
	}
	out.Compiler = ver
	mk, _ := os.ReadFile(filepath.Join(*repo, "Makefile"))
	if m := regexp.MustCompile(`NEOGOORIGMOD\s*=\s*github.com/nspcc-dev/neo-go@(v[0-9.]+)`).FindSubmatch(mk); m != nil {
		out.Pin = string(m[1])
	}
	if out.Pin == "" {
		add("compiler-pin", "Makefile/NEOGOORIGMOD", "UNDECIDED", "cannot find the compiler pin in the Makefile")
	} else if out.Pin != ver {
		add("compiler-pin", "Makefile/NEOGOORIGMOD", "UNDECIDED", fmt.Sprintf("Makefile pins neo-go %s, this checker links %s (no other version can be fetched in the sandbox)", out.Pin, ver))
	} else {
		add("compiler-pin", "Makefile/NEOGOORIGMOD", "HOLDS", "pinned "+out.Pin+" = linked "+ver)
	}
	// the Makefile injects the version with -ldflags; it is written into the NEF header
	config.Version = strings.TrimPrefix(ver, "v")

	dirs, err := filepath.Glob(filepath.Join(*repo, "contracts", "*", "config.yml"))
	if err != nil || len(dirs) == 0 {
		fmt.Fprintln(os.Stderr, "no contracts found under", *repo)
		os.Exit(2)
	}
	sort.Strings(dirs)
	tmp, err := os.MkdirTemp("", "c15check")
	if err != nil {
		fmt.Fprintln(os.Stderr, err)
		os.Exit(2)
	}
	defer os.RemoveAll(tmp)

	regenSet := map[string]bool{}
	for _, r := range strings.Split(*regen, ",") {
		if r != "" {
			regenSet[r] = true
		}
	}

	for _, cfgPath := range dirs {
		dir := filepath.Dir(cfgPath)
		name := filepath.Base(dir)
		checkContract(*repo, dir, name, tmp, regenSet[name] || regenSet["all"])
	}
	enc := json.NewEncoder(os.Stdout)
	enc.SetIndent("", " ")
	enc.Encode(out)
}

func checkContract(repo, dir, name, tmp string, regen bool) {
	out.Programs++
	o := &compiler.Options{
		Outfile:      filepath.Join(tmp, name+".nef"),
		ManifestFile: filepath.Join(tmp, name+".manifest.json"),
		BindingsFile: filepath.Join(tmp, name+".bindings.yml"),
		DebugInfo:    filepath.Join(tmp, name+".debug.json"),
	}
	conf, err := smartcontract.ParseContractConfig(filepath.Join(dir, "config.yml"))
	if err != nil {
		add("nef-matches-source", "contracts/"+name+"/contract.nef", "UNDECIDED", "config.yml does not parse: "+err.Error())
		return
	}
	o.Name = conf.Name
	o.SourceURL = conf.SourceURL
	o.ContractEvents = conf.Events
	o.DeclaredNamedTypes = conf.NamedTypes
	o.ContractSupportedStandards = conf.SupportedStandards
	o.Permissions = make([]manifest.Permission, len(conf.Permissions))
	for i := range conf.Permissions {
		o.Permissions[i] = manifest.Permission(conf.Permissions[i])
	}
	o.SafeMethods = conf.SafeMethods
	o.Overloads = conf.Overloads

	cwd, _ := os.Getwd()
	os.Chdir(repo) // the Makefile compiles from the module root
	_, err = compiler.CompileAndSave(dir, o)
	os.Chdir(cwd)
	if err != nil {
		// The sources do not compile with the pinned compiler (or violate its
		// manifest checks): the shipped NEF cannot correspond to them.
		add("nef-matches-source", "contracts/"+name+"/contract.nef", "VIOLATED", "working tree does not compile with the pinned compiler: "+firstLine(err.Error()))
		return
	}
	newNef, _ := os.ReadFile(filepath.Join(tmp, name+".nef"))
	oldNef, err := os.ReadFile(filepath.Join(dir, "contract.nef"))
	var di compiler.DebugInfo
	if b, e := os.ReadFile(o.DebugInfo); e == nil {
		json.Unmarshal(b, &di)
	}
	nInstr := 0
	if f, e := nef.FileFromBytes(newNef); e == nil {
		nInstr = countInstr(f.Script)
	}
	out.Instructions += nInstr
	switch {
	case err != nil:
		add("nef-matches-source", "contracts/"+name+"/contract.nef", "VIOLATED", "committed NEF unreadable: "+err.Error())
	case bytes.Equal(newNef, oldNef):
		add("nef-matches-source", "contracts/"+name+"/contract.nef", "HOLDS", fmt.Sprintf("%d bytes, %d instructions identical", len(newNef), nInstr))
	default:
		add("nef-matches-source", "contracts/"+name+"/contract.nef", "VIOLATED", describeNefDiff(oldNef, newNef, &di))
	}

	newMan, _ := os.ReadFile(o.ManifestFile)
	oldMan, err := os.ReadFile(filepath.Join(dir, "manifest.json"))
	var m manifest.Manifest
	if e := json.Unmarshal(newMan, &m); e == nil {
		out.Methods += len(m.ABI.Methods)
	}
	switch {
	case err != nil:
		add("manifest-matches-source", "contracts/"+name+"/manifest.json", "VIOLATED", "committed manifest unreadable: "+err.Error())
	case bytes.Equal(newMan, oldMan):
		add("manifest-matches-source", "contracts/"+name+"/manifest.json", "HOLDS", fmt.Sprintf("%d ABI methods, %d events, %d permissions identical", len(m.ABI.Methods), len(m.ABI.Events), len(m.Permissions)))
	default:
		add("manifest-matches-source", "contracts/"+name+"/manifest.json", "VIOLATED", describeManifestDiff(oldMan, newMan))
	}

	// binding: generate-rpcwrapper(manifest, bindings config)
	newBind, err := genBinding(newMan, o.BindingsFile)
	bindPath := filepath.Join(repo, "rpc", name, "rpcbinding.go")
	oldBind, err2 := os.ReadFile(bindPath)
	out.Bindings++
	switch {
	case err != nil:
		add("binding-matches-manifest", "rpc/"+name+"/rpcbinding.go", "UNDECIDED", "binding generation failed: "+err.Error())
	case err2 != nil:
		add("binding-matches-manifest", "rpc/"+name+"/rpcbinding.go", "VIOLATED", "committed binding unreadable: "+err2.Error())
	case bytes.Equal(newBind, oldBind):
		add("binding-matches-manifest", "rpc/"+name+"/rpcbinding.go", "HOLDS", fmt.Sprintf("%d bytes identical", len(newBind)))
	default:
		a, e1 := format.Source(newBind)
		b, e2 := format.Source(oldBind)
		if e1 == nil && e2 == nil && bytes.Equal(a, b) {
			add("binding-matches-manifest", "rpc/"+name+"/rpcbinding.go", "HOLDS", "identical after gofmt")
		} else {
			add("binding-matches-manifest", "rpc/"+name+"/rpcbinding.go", "VIOLATED", "generated binding differs from the committed one: "+firstDiffLine(oldBind, newBind))
		}
	}
	if len(out.Samples) < 4 {
		out.Samples = append(out.Samples, fmt.Sprintf("contracts/%s: compile(working tree, config.yml) -> %d-byte NEF (%d instructions), %d-byte manifest, %d-byte binding; each compared byte-for-byte with the committed file", name, len(newNef), nInstr, len(newMan), len(newBind)))
	}

	if regen {
		os.WriteFile(filepath.Join(dir, "contract.nef"), newNef, 0o644)
		os.WriteFile(filepath.Join(dir, "manifest.json"), newMan, 0o644)
		if newBind != nil {
			os.WriteFile(bindPath, newBind, 0o644)
		}
		fmt.Fprintln(os.Stderr, "regenerated", name)
	}
}

func genBinding(man []byte, bindingsCfg string) ([]byte, error) {
	m := new(manifest.Manifest)
	if err := json.Unmarshal(man, m); err != nil {
		return nil, err
	}
	cfg := binding.NewConfig()
	bs, err := os.ReadFile(bindingsCfg)
	if err != nil {
		return nil, err
	}
	dec := yaml.NewDecoder(bytes.NewReader(bs))
	dec.KnownFields(true)
	if err := dec.Decode(&cfg); err != nil {
		return nil, err
	}
	cfg.Manifest = m
	var buf bytes.Buffer
	cfg.Output = &buf
	if err := rpcbinding.Generate(cfg); err != nil {
		return nil, err
	}
	return buf.Bytes(), nil
}

func firstLine(s string) string {
	if i := strings.IndexByte(s, '\n'); i >= 0 {
		s = s[:i]
	}
	if len(s) > 400 {
		s = s[:400]
	}
	return s
}

func countInstr(script []byte) int {
	n := 0
	for ip := 0; ip < len(script); {
		_, l := instrLen(script, ip)
		ip += l
		n++
	}
	return n
}

// instrLen decodes the length of the instruction at ip (opcode + operand).
func instrLen(s []byte, ip int) (opcode.Opcode, int) {
	op := opcode.Opcode(s[ip])
	rest := len(s) - ip - 1
	l := 0
	switch op {
	case opcode.PUSHINT8, opcode.JMP, opcode.JMPIF, opcode.JMPIFNOT, opcode.JMPEQ, opcode.JMPNE, opcode.JMPGT, opcode.JMPGE, opcode.JMPLT, opcode.JMPLE,
		opcode.CALL, opcode.ENDTRY, opcode.INITSSLOT, opcode.LDSFLD, opcode.STSFLD, opcode.LDLOC, opcode.STLOC, opcode.LDARG, opcode.STARG,
		opcode.NEWARRAYT, opcode.ISTYPE, opcode.CONVERT:
		l = 1
	case opcode.PUSHINT16, opcode.CALLT, opcode.TRY, opcode.INITSLOT:
		l = 2
	case opcode.PUSHINT32, opcode.PUSHA, opcode.JMPL, opcode.JMPIFL, opcode.JMPIFNOTL, opcode.JMPEQL, opcode.JMPNEL, opcode.JMPGTL, opcode.JMPGEL, opcode.JMPLTL, opcode.JMPLEL,
		opcode.CALLL, opcode.ENDTRYL, opcode.SYSCALL:
		l = 4
	case opcode.PUSHINT64, opcode.TRYL:
		l = 8
	case opcode.PUSHINT128:
		l = 16
	case opcode.PUSHINT256:
		l = 32
	case opcode.PUSHDATA1:
		if rest >= 1 {
			l = 1 + int(s[ip+1])
		}
	case opcode.PUSHDATA2:
		if rest >= 2 {
			l = 2 + int(s[ip+1]) + int(s[ip+2])<<8
		}
	case opcode.PUSHDATA4:
		if rest >= 4 {
			l = 4 + int(s[ip+1]) + int(s[ip+2])<<8 + int(s[ip+3])<<16 + int(s[ip+4])<<24
		}
	}
	if l > rest {
		l = rest
	}
	return op, 1 + l
}

// describeNefDiff names the first differing instruction and the method whose
// range contains it (from the debug info of the fresh compilation).
func describeNefDiff(oldB, newB []byte, di *compiler.DebugInfo) string {
	of, e1 := nef.FileFromBytes(oldB)
	nf, e2 := nef.FileFromBytes(newB)
	if e1 != nil {
		return "committed contract.nef does not decode: " + e1.Error()
	}
	if e2 != nil {
		return "fresh NEF does not decode: " + e2.Error()
	}
	if of.Compiler != nf.Compiler {
		return fmt.Sprintf("NEF header: committed compiler %q, fresh %q", of.Compiler, nf.Compiler)
	}
	if len(of.Tokens) != len(nf.Tokens) {
		return fmt.Sprintf("method token tables differ: committed %d, fresh %d", len(of.Tokens), len(nf.Tokens))
	}
	for i := range of.Tokens {
		if of.Tokens[i] != nf.Tokens[i] {
			return fmt.Sprintf("method token %d differs: committed %v, fresh %v", i, of.Tokens[i], nf.Tokens[i])
		}
	}
	a, b := of.Script, nf.Script
	ip := 0
	for ip < len(a) && ip < len(b) {
		opa, la := instrLen(a, ip)
		opb, lb := instrLen(b, ip)
		if opa != opb || la != lb || !bytes.Equal(a[ip:ip+la], b[ip:ip+lb]) {
			meth := "?"
			for _, m := range di.Methods {
				if int(m.Range.Start) <= ip && ip <= int(m.Range.End) {
					meth = m.Name.Namespace + "." + m.Name.Name
				}
			}
			return fmt.Sprintf("script differs at offset %d (fresh: %s in method %s; committed: %s); committed script %d bytes, fresh %d bytes — the shipped executable is not what the working tree compiles to", ip, opb, meth, opa, len(a), len(b))
		}
		ip += la
	}
	if len(a) != len(b) {
		return fmt.Sprintf("scripts agree on the first %d bytes, lengths differ (committed %d, fresh %d)", ip, len(a), len(b))
	}
	if of.Source != nf.Source {
		return "NEF source URL differs"
	}
	return "NEF bytes differ outside the script (checksum/header)"
}

func describeManifestDiff(oldB, newB []byte) string {
	var o, n manifest.Manifest
	if err := json.Unmarshal(oldB, &o); err != nil {
		return "committed manifest.json does not decode: " + err.Error()
	}
	if err := json.Unmarshal(newB, &n); err != nil {
		return "fresh manifest does not decode: " + err.Error()
	}
	om := map[string]manifest.Method{}
	for _, m := range o.ABI.Methods {
		om[fmt.Sprintf("%s/%d", m.Name, len(m.Parameters))] = m
	}
	for _, m := range n.ABI.Methods {
		k := fmt.Sprintf("%s/%d", m.Name, len(m.Parameters))
		c, ok := om[k]
		if !ok {
			return "method " + k + " is compiled from the sources but absent from the committed manifest"
		}
		if c.Safe != m.Safe {
			return fmt.Sprintf("method %s: committed safe=%v, sources/config say safe=%v", k, c.Safe, m.Safe)
		}
		if c.Offset != m.Offset {
			return fmt.Sprintf("method %s: committed offset %d, fresh %d", k, c.Offset, m.Offset)
		}
		if c.ReturnType != m.ReturnType {
			return fmt.Sprintf("method %s: committed return type %s, fresh %s", k, c.ReturnType, m.ReturnType)
		}
		for i := range m.Parameters {
			if c.Parameters[i].Type != m.Parameters[i].Type || c.Parameters[i].Name != m.Parameters[i].Name {
				return fmt.Sprintf("method %s: parameter %d differs", k, i)
			}
		}
		delete(om, k)
	}
	for k := range om {
		return "method " + k + " is in the committed manifest but not compiled from the sources"
	}
	if len(o.ABI.Events) != len(n.ABI.Events) {
		return fmt.Sprintf("event lists differ: committed %d, fresh %d", len(o.ABI.Events), len(n.ABI.Events))
	}
	return "manifest bytes differ (events, permissions, groups, standards or formatting): " + firstDiffLine(oldB, newB)
}

func firstDiffLine(a, b []byte) string {
	la := strings.Split(string(a), "\n")
	lb := strings.Split(string(b), "\n")
	for i := 0; i < len(la) && i < len(lb); i++ {
		if la[i] != lb[i] {
			x, y := la[i], lb[i]
			if len(x) > 120 {
				x = commonTrim(x, y)
			}
			if len(y) > 120 {
				y = commonTrim(y, la[i])
			}
			return fmt.Sprintf("line %d: committed %q, generated %q", i+1, x, y)
		}
	}
	return fmt.Sprintf("line counts differ: committed %d, generated %d", len(la), len(lb))
}

// commonTrim shortens x around its first difference with y.
func commonTrim(x, y string) string {
	i := 0
	for i < len(x) && i < len(y) && x[i] == y[i] {
		i++
	}
	lo := i - 40
	if lo < 0 {
		lo = 0
	}
	hi := i + 60
	if hi > len(x) {
		hi = len(x)
	}
	return "…" + x[lo:hi] + "…"
}
