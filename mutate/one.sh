#!/bin/bash
# usage: one.sh <file rel to /repo> <line> <from> <to> "<checks>"  — apply a one-line edit to /repo, run checks, revert
cd /repo || exit 2
python3 - "$1" "$2" "$3" "$4" <<'PY' || exit 2
import sys
f,ln,a,b=sys.argv[1],int(sys.argv[2]),sys.argv[3],sys.argv[4]
L=open(f).read().split('\n')
assert a in L[ln-1], L[ln-1]
L[ln-1]=L[ln-1].replace(a,b,1)
open(f,'w').write('\n'.join(L))
PY
r=$(${BIN:-/verif/bin/nfsverif} check $5 2>&1 | grep -E '^(VIOLATED|UNDECIDED)' | awk '{print $2" "$3}' | sort -u | cut -c1-90 | tr '\n' ';')
git checkout -- .
echo "$1:$2 [$4] => [$r]"
