#!/usr/bin/env python3
"""Mutation sweep (development aid, not a registered check).

Generates single-token / single-statement mutants of the contract sources,
keeps those that still compile, runs the static checks on a scratch copy and
reports which mutants no check notices. Survivors are triaged by hand: most are
equivalent or outside every property; the rest are gaps (DESIGN §12.4).

usage: mutate.py <out.jsonl> [file ...]      (files relative to /repo)
env:   MUT_JOBS (default 6), MUT_LIMIT (max mutants per file, default all)
"""
import os, re, sys, json, subprocess, shutil, tempfile, concurrent.futures as cf

REPO = os.environ.get('NFS_REPO', '/repo')
VERIF = os.environ.get('MUT_VERIF', '/verif')
ENV = dict(os.environ, GOFLAGS='-mod=mod', GOPROXY='off', GOSUMDB='off', GOTOOLCHAIN='local')
ENV.pop('GOWORK', None)
CHECKS = os.environ.get('MUT_CHECKS','C01 C02 C03 C04 C05 C06 C07 C08 C09 C10 C11 C12 C14 C16 C17 C18 C19 C20').split()

REL = [('<=','<'),('>=','>'),('<','<='),('>','>='),('==','!='),('!=','==')]

def mutants(src):
    """yield (line_no, description, new_source)"""
    lines = src.split('\n')
    infunc = False
    skip = set(os.environ.get('MUT_SKIP_FUNCS', '').split(','))
    curfn = None
    for i, ln in enumerate(lines):
        s = ln.strip()
        if ln.startswith('func '):
            infunc = True
            mm = re.match(r'^func (?:\([^)]*\) )?(\w+)\(', ln)
            curfn = mm.group(1) if mm else None
        if curfn in skip: continue
        if not infunc or s.startswith('//') or not s: continue
        code = ln.split('//')[0]
        # relational operators (outside strings)
        for m in re.finditer(r'(?<![<>=!:+\-*/&|])(<=|>=|==|!=|<|>)(?![=<>-])', code):
            if code.count('"', 0, m.start()) % 2 == 1 or code.count("'", 0, m.start()) % 2 == 1: continue
            if m.group(1) == '<' and code[m.end():m.end()+1] == '-': continue
            for a, b in REL:
                if m.group(1) == a:
                    new = code[:m.start()] + b + code[m.end():]
                    yield i+1, f'{a} -> {b}', '\n'.join(lines[:i] + [new + ln[len(code):]] + lines[i+1:])
                    break
        # && <-> ||
        for m in re.finditer(r'&&|\|\|', code):
            if code.count('"', 0, m.start()) % 2 == 1: continue
            b = '||' if m.group(0) == '&&' else '&&'
            new = code[:m.start()] + b + code[m.end():]
            yield i+1, f'{m.group(0)} -> {b}', '\n'.join(lines[:i] + [new + ln[len(code):]] + lines[i+1:])
        # off by one
        for m in re.finditer(r'([+-]) ?1\b(?![0-9_.])', code):
            if code.count('"', 0, m.start()) % 2 == 1: continue
            new = code[:m.start()] + code[m.end():]
            yield i+1, f'drop {m.group(0).strip()}', '\n'.join(lines[:i] + [new + ln[len(code):]] + lines[i+1:])
        if os.environ.get('MUT_EXTRA'):
            # arithmetic operator swaps
            for m in re.finditer(r'(?<=[\w)\]]) ([+\-*/]) (?=[\w(])', code):
                if code.count('"', 0, m.start()) % 2 == 1 or code.count("'", 0, m.start()) % 2 == 1: continue
                b = {'+':'-','-':'+','*':'/','/':'*'}[m.group(1)]
                new = code[:m.start(1)] + b + code[m.end(1):]
                yield i+1, f'{m.group(1)} -> {b}', '\n'.join(lines[:i] + [new + ln[len(code):]] + lines[i+1:])
            # small integer literals +1
            for m in re.finditer(r'(?<![\w.\'"])([0-9]{1,4})(?![\w.\'"_])', code):
                if code.count('"', 0, m.start()) % 2 == 1: continue
                new = code[:m.start()] + str(int(m.group(1))+1) + code[m.end():]
                yield i+1, f'{m.group(1)} -> {int(m.group(1))+1}', '\n'.join(lines[:i] + [new + ln[len(code):]] + lines[i+1:])
            # swap the first two identifier arguments of a call
            for m in re.finditer(r'\b([A-Za-z_][\w.]*)\((\w+), (\w+)([,)])', code):
                if m.group(2) == m.group(3) or code.count('"', 0, m.start()) % 2 == 1: continue
                new = code[:m.start(2)] + m.group(3) + ', ' + m.group(2) + code[m.start(4):]
                yield i+1, f'swap args {m.group(2)},{m.group(3)}', '\n'.join(lines[:i] + [new + ln[len(code):]] + lines[i+1:])
            # drop a leading !
            for m in re.finditer(r'(?<![=!<>])!(?=[\w(])', code):
                if code.count('"', 0, m.start()) % 2 == 1: continue
                new = code[:m.start()] + code[m.end():]
                yield i+1, 'drop !', '\n'.join(lines[:i] + [new + ln[len(code):]] + lines[i+1:])
            continue
        # negate an if condition
        m = re.match(r'^(\s*)(if|} else if) (.*) \{\s*$', code)
        if m and ';' not in m.group(3):
            new = f'{m.group(1)}{m.group(2)} !({m.group(3)}) {{'
            yield i+1, 'negate condition', '\n'.join(lines[:i] + [new] + lines[i+1:])
        # delete an effect / check statement
        if re.match(r'^\s*(storage\.(Put|Delete)|runtime\.Notify|common\.(Check|SetSerialized|RemoveVotes|Abort)|contract\.Call|update[A-Z]\w*|put[A-Z]\w*|delete[A-Z]\w*|remove[A-Z]\w*|set[A-Z]\w*)\w*\(.*\)\s*$', code):
            yield i+1, 'delete statement', '\n'.join(lines[:i] + [re.match(r'^\s*', ln).group(0) + '_ = 0'] + lines[i+1:])
        # continue/break/return swaps
        if s == 'continue':
            yield i+1, 'continue -> break', '\n'.join(lines[:i] + [ln.replace('continue', 'break')] + lines[i+1:])
        if s == 'break':
            yield i+1, 'break -> continue', '\n'.join(lines[:i] + [ln.replace('break', 'continue')] + lines[i+1:])

def prepare_copy(k):
    d = f'/tmp/mutcopy_{k}'
    subprocess.run(['rsync','-a','--delete','--exclude','.git', REPO + '/', d + '/'], check=True)
    v = f'/tmp/mutverif_{k}'
    os.makedirs(v + '/bin', exist_ok=True)
    os.makedirs(v + '/evidence', exist_ok=True)
    shutil.copy(VERIF + '/known_findings.json', v + '/known_findings.json')
    if not os.path.exists(v + '/bin/c15check'):
        os.symlink(VERIF + '/bin/c15check', v + '/bin/c15check')
    return d, v

def run_one(args):
    k, rel, line, desc, newsrc, orig = args
    d, v = f'/tmp/mutcopy_{k}', f'/tmp/mutverif_{k}'
    path = os.path.join(d, rel)
    open(path, 'w').write(newsrc)
    try:
        pkg = './' + os.path.dirname(rel) + '/...'
        b = subprocess.run(['go','build',pkg], cwd=d, env=ENV, capture_output=True, text=True)
        if b.returncode != 0:
            return dict(file=rel, line=line, mut=desc, result='nocompile')
        e = dict(ENV, NFS_REPO=d, NFS_VERIF=v, NFS_NO_SELFTEST='1')
        r = subprocess.run([VERIF + '/bin/nfsverif','check'] + CHECKS, env=e, capture_output=True, text=True)
        fired = sorted(set(re.findall(r'^(?:VIOLATED|UNDECIDED) rule=(\S+)', r.stdout, re.M)))
        props = sorted(set(re.findall(r'^VIOLATION property=(\S+)', r.stdout, re.M)))
        res = dict(file=rel, line=line, mut=desc, result='caught' if props else 'survived', rules=fired, props=props, text=newsrc.split('\n')[line-1].strip())
        if not props and os.environ.get('MUT_TESTS'):
            # does the unedited suite notice the mutant? (only survivors are asked)
            t = subprocess.run(['go','test','-vet=off','-count=1','./...'], cwd=d, env=ENV, capture_output=True, text=True)
            res['tests'] = 'pass' if t.returncode == 0 else 'fail'
        return res
    finally:
        open(path, 'w').write(orig)

def main():
    out = sys.argv[1]
    files = sys.argv[2:]
    jobs = int(os.environ.get('MUT_JOBS', '6'))
    limit = int(os.environ.get('MUT_LIMIT', '0'))
    for k in range(jobs): prepare_copy(k)
    only = None
    if os.environ.get('MUT_ONLY'):
        only = set(tuple(x[:3]) for x in json.load(open(os.environ['MUT_ONLY'])))
    tasks = []
    for rel in files:
        orig = open(os.path.join(REPO, rel)).read()
        ms = list(mutants(orig))
        if limit: ms = ms[:limit]
        for line, desc, new in ms:
            if new != orig and (only is None or (rel, line, desc) in only): tasks.append((rel, line, desc, new, orig))
    print(len(tasks), 'mutants', file=sys.stderr)
    # a copy is used by one worker at a time
    import queue, threading
    q = queue.Queue()
    for t in tasks: q.put(t)
    lock = threading.Lock()
    done = [0]
    fo = open(out, 'a')
    def worker(k):
        while True:
            try: rel, line, desc, new, orig = q.get_nowait()
            except queue.Empty: return
            res = run_one((k, rel, line, desc, new, orig))
            with lock:
                fo.write(json.dumps(res) + '\n'); fo.flush()
                done[0] += 1
                if done[0] % 25 == 0: print(done[0], '/', len(tasks), file=sys.stderr)
    ths = [threading.Thread(target=worker, args=(k,)) for k in range(jobs)]
    for t in ths: t.start()
    for t in ths: t.join()
    for k in range(jobs):
        shutil.rmtree(f'/tmp/mutcopy_{k}', ignore_errors=True); shutil.rmtree(f'/tmp/mutverif_{k}', ignore_errors=True)

if __name__ == '__main__':
    main()
